import Spec.Online
/-! Helper lemmas about `Model.Online` (state-field bookkeeping, append, invariants). -/
namespace Model.Online
open Spec.Online

variable {α σ : Type} (ap : α → σ → σ) (kd : FailKind)

def Outcome.st : Outcome σ → St σ
  | .ok s => s
  | .raised s => s

def Outcome.isRaised : Outcome σ → Bool
  | .ok _ => false
  | .raised _ => true

def Outcome.bind (o : Outcome σ) (f : St σ → Outcome σ) : Outcome σ :=
  match o with
  | .ok s => f s
  | .raised s => .raised s

/-! ### fields after the primitive operations -/

@[simp] theorem autobegin_committed (md : Mode) (st : St σ) : (autobegin md st).committed = st.committed := by
  unfold autobegin saBegin; split <;> rfl
@[simp] theorem autobegin_working (md : Mode) (st : St σ) : (autobegin md st).working = st.working := by
  unfold autobegin saBegin; split <;> rfl
@[simp] theorem autobegin_auto (md : Mode) (st : St σ) : (autobegin md st).auto = st.auto := by
  unfold autobegin saBegin; split <;> rfl
@[simp] theorem autobegin_txn (md : Mode) (st : St σ) : (autobegin md st).txn = st.txn := by
  unfold autobegin saBegin; split <;> rfl
@[simp] theorem autobegin_sa (md : Mode) (st : St σ) : (autobegin md st).sa = true := by
  unfold autobegin saBegin; split <;> simp_all

@[simp] theorem execStmt_working (md : Mode) (s : Stmt α) (st : St σ) :
    (execStmt ap md s st).working = ap s.act st.working := by
  unfold execStmt; simp only; split
  · simp
  · split <;> simp
    split <;> simp
@[simp] theorem execStmt_auto (md : Mode) (s : Stmt α) (st : St σ) : (execStmt ap md s st).auto = st.auto := by
  unfold execStmt; simp only; split
  · simp
  · split <;> simp
    split <;> simp
@[simp] theorem execStmt_txn (md : Mode) (s : Stmt α) (st : St σ) : (execStmt ap md s st).txn = st.txn := by
  unfold execStmt; simp only; split
  · simp
  · split <;> simp
    split <;> simp
@[simp] theorem execStmt_sa (md : Mode) (s : Stmt α) (st : St σ) : (execStmt ap md s st).sa = true := by
  unfold execStmt; simp only; split
  · simp
  · split <;> simp
    split <;> simp

/-- a statement either leaves `committed` alone or makes it equal to the new `working` -/
theorem execStmt_committed_cases (md : Mode) (s : Stmt α) (st : St σ) :
    (execStmt ap md s st).committed = st.committed ∨
    (execStmt ap md s st).committed = ap s.act st.working := by
  unfold execStmt; simp only; split
  · simp
  · split <;> simp
    split <;> simp

/-- DML outside an autocommit block never commits anything, in every mode -/
theorem execStmt_dml_committed (md : Mode) (a : α) (st : St σ) (h : st.auto = none) :
    (execStmt ap md ⟨.dml, a⟩ st).committed = st.committed := by
  unfold execStmt; simp only [autobegin_auto, h]
  cases md <;> simp

/-- in `transactional` mode nothing outside an autocommit block commits -/
theorem execStmt_transactional_committed (s : Stmt α) (st : St σ) (h : st.auto = none) :
    (execStmt ap .transactional s st).committed = st.committed := by
  unfold execStmt; simp only [autobegin_auto, h]
  simp

/-! ### `runAtoms` -/

theorem runAtoms_append (md : Mode) (p q : List (Atom α)) (st : St σ) :
    runAtoms ap md (p ++ q) st = (runAtoms ap md p st).bind (runAtoms ap md q) := by
  induction p generalizing st with
  | nil => simp [runAtoms, Outcome.bind]
  | cons a r ih =>
    cases a with
    | stmt s => simp [runAtoms, ih]
    | enterAuto =>
      simp only [List.cons_append, runAtoms]
      cases enterAuto md st with
      | none => simp [Outcome.bind]
      | some st' => simp [ih]
    | exitAuto => simp [runAtoms, ih]
    | raise kd' => simp [runAtoms, Outcome.bind]

def execAll (md : Mode) (ss : List (Stmt α)) (st : St σ) : St σ := ss.foldl (fun s x => execStmt ap md x s) st

theorem runAtoms_stmts (md : Mode) (ss : List (Stmt α)) (st : St σ) :
    runAtoms ap md (ss.map .stmt) st = .ok (execAll ap md ss st) := by
  induction ss generalizing st with
  | nil => simp [runAtoms, execAll]
  | cons s r ih => simp [runAtoms, ih, execAll]

@[simp] theorem execAll_nil (md : Mode) (st : St σ) : execAll ap md [] st = st := rfl
@[simp] theorem execAll_cons (md : Mode) (s : Stmt α) (r : List (Stmt α)) (st : St σ) :
    execAll ap md (s :: r) st = execAll ap md r (execStmt ap md s st) := rfl

@[simp] theorem execAll_auto (md : Mode) (ss : List (Stmt α)) (st : St σ) : (execAll ap md ss st).auto = st.auto := by
  induction ss generalizing st with
  | nil => rfl
  | cons s r ih => simp [ih]
@[simp] theorem execAll_txn (md : Mode) (ss : List (Stmt α)) (st : St σ) : (execAll ap md ss st).txn = st.txn := by
  induction ss generalizing st with
  | nil => rfl
  | cons s r ih => simp [ih]
theorem execAll_sa (md : Mode) (ss : List (Stmt α)) (st : St σ) (h : st.sa = true) : (execAll ap md ss st).sa = true := by
  induction ss generalizing st with
  | nil => exact h
  | cons s r ih => simp [ih]
@[simp] theorem execAll_working (md : Mode) (ss : List (Stmt α)) (st : St σ) :
    (execAll ap md ss st).working = applyAll ap (ss.map (·.act)) st.working := by
  induction ss generalizing st with
  | nil => rfl
  | cons s r ih => simp [ih, applyAll]

theorem applyAll_append (l₁ l₂ : List α) (x : σ) : applyAll ap (l₁ ++ l₂) x = applyAll ap l₂ (applyAll ap l₁ x) := by
  simp [applyAll]

/-- the oracle's program always raises -/
theorem runAtoms_raise (md : Mode) (p : List (Atom α)) (st : St σ) :
    (runAtoms ap md (p ++ [.raise kd]) st).isRaised = true := by
  induction p generalizing st with
  | nil => simp [runAtoms, Outcome.isRaised]
  | cons a r ih =>
    cases a with
    | stmt s => simp [runAtoms, ih]
    | enterAuto =>
      simp only [List.cons_append, runAtoms]
      cases enterAuto md st with
      | none => simp [Outcome.isRaised]
      | some st' => simp [ih]
    | exitAuto => simp [runAtoms, ih]
    | raise kd' => simp [runAtoms, Outcome.isRaised]

/-! ### a general invariant: `committed` stays in `Cp`, `working` stays in `Wp`

as long as every executed statement preserves `Wp` and `Wp ⊆ Cp` (every commit point copies
`working` to `committed`).  Holds for both outcomes, for unbalanced prefixes too. -/

theorem enterAuto_fields (md : Mode) (st st' : St σ) (h : enterAuto md st = some st') :
    st'.working = st.working ∧ (st'.committed = st.committed ∨ st'.committed = st.working) ∧ st'.sa = true := by
  unfold enterAuto at h
  split at h
  · split at h
    · cases h; simp [saBegin, commit]
    · cases h
  · cases h; simp [saBegin]

theorem exitAuto_fields (md : Mode) (st : St σ) :
    (exitAuto md st).working = st.working ∧
    ((exitAuto md st).committed = st.committed ∨ (exitAuto md st).committed = st.working) := by
  unfold exitAuto
  split
  · simp
  · split <;> simp [saBegin, commit]

theorem runAtoms_inv (md : Mode) (Cp Wp : σ → Prop) (hWC : ∀ x, Wp x → Cp x)
    (p : List (Atom α)) (st : St σ)
    (hp : ∀ s, Atom.stmt s ∈ p → ∀ x, Wp x → Wp (ap s.act x))
    (hc : Cp st.committed) (hw : Wp st.working) :
    Cp (runAtoms ap md p st).st.committed ∧ Wp (runAtoms ap md p st).st.working := by
  induction p generalizing st with
  | nil => exact ⟨hc, hw⟩
  | cons a r ih =>
    have hr : ∀ s, Atom.stmt s ∈ r → ∀ x, Wp x → Wp (ap s.act x) := fun s hs => hp s (List.mem_cons_of_mem _ hs)
    cases a with
    | stmt s =>
      simp only [runAtoms]
      have hw' : Wp (execStmt ap md s st).working := by
        rw [execStmt_working]; exact hp s (List.mem_cons_self) _ hw
      apply ih _ hr _ hw'
      rcases execStmt_committed_cases ap md s st with h | h
      · rw [h]; exact hc
      · rw [h]; rw [execStmt_working] at hw'; exact hWC _ hw'
    | enterAuto =>
      simp only [runAtoms]
      cases he : enterAuto md st with
      | none => exact ⟨hc, hw⟩
      | some st' =>
        obtain ⟨h1, h2, _⟩ := enterAuto_fields md st st' he
        apply ih _ hr
        · rcases h2 with h | h
          · rw [h]; exact hc
          · rw [h]; exact hWC _ hw
        · rw [h1]; exact hw
    | exitAuto =>
      simp only [runAtoms]
      obtain ⟨h1, h2⟩ := exitAuto_fields md st
      apply ih _ hr
      · rcases h2 with h | h
        · rw [h]; exact hc
        · rw [h]; exact hWC _ hw
      · rw [h1]; exact hw
    | raise kd' =>
      simp only [runAtoms, Outcome.st]
      obtain ⟨h1, h2⟩ := exitAuto_fields md st
      constructor
      · rcases h2 with h | h
        · rw [h]; exact hc
        · rw [h]; exact hWC _ hw
      · rw [h1]; exact hw

/-! ### the version update: DML only, never commits by itself -/

def vStmts (vs : List α) : List (Stmt α) := vs.map (fun a => ⟨.dml, a⟩)

theorem versionAtoms_eq (vs : List α) : versionAtoms vs = (vStmts vs).map Atom.stmt := by
  simp [versionAtoms, vStmts]

theorem take_versionAtoms (n : Nat) (vs : List α) : (versionAtoms vs).take n = versionAtoms (vs.take n) := by
  simp [versionAtoms, List.map_take]

theorem execAll_dml_committed (md : Mode) (vs : List α) (st : St σ) (h : st.auto = none) :
    (execAll ap md (vStmts vs) st).committed = st.committed := by
  induction vs generalizing st with
  | nil => rfl
  | cons a r ih =>
    simp only [vStmts, List.map_cons, execAll_cons]
    have := ih (execStmt ap md ⟨.dml, a⟩ st) (by simp [h])
    simp only [vStmts] at this
    rw [this, execStmt_dml_committed ap md a st h]

theorem vStmts_acts (vs : List α) : (vStmts vs).map (·.act) = vs := by
  induction vs with
  | nil => rfl
  | cons a r ih => simp only [vStmts, List.map_cons] at ih ⊢; rw [ih]

/-! ### balanced bodies restore `auto = none` -/

theorem enterAuto_auto (md : Mode) (st st' : St σ) (h : enterAuto md st = some st') : st'.auto.isSome = true := by
  unfold enterAuto at h
  split at h
  · split at h
    · cases h; simp
    · cases h
  · cases h; simp

theorem exitAuto_auto (md : Mode) (st : St σ) : (exitAuto md st).auto = none := by
  unfold exitAuto
  split
  · assumption
  · split <;> simp [saBegin, commit]

theorem runAtoms_seg_auto (md : Mode) (sg : Seg α) (st s' : St σ) (h0 : st.auto = none)
    (h : runAtoms ap md (atomsOfSeg sg) st = .ok s') : s'.auto = none := by
  cases sg with
  | plain ss =>
    simp only [atomsOfSeg, runAtoms_stmts] at h
    cases h; simp [h0]
  | auto ss =>
    simp only [atomsOfSeg, List.cons_append, List.nil_append, runAtoms] at h
    cases he : enterAuto md st with
    | none => simp [he] at h
    | some st1 =>
      simp only [he] at h
      rw [runAtoms_append, runAtoms_stmts] at h
      simp only [Outcome.bind, runAtoms] at h
      cases h
      exact exitAuto_auto md _

theorem runAtoms_body_auto (md : Mode) (segs : List (Seg α)) (st s' : St σ) (h0 : st.auto = none)
    (h : runAtoms ap md (bodyAtoms segs) st = .ok s') : s'.auto = none := by
  induction segs generalizing st with
  | nil => simp only [bodyAtoms, runAtoms] at h; cases h; exact h0
  | cons sg r ih =>
    simp only [bodyAtoms, runAtoms_append] at h
    cases hs : runAtoms ap md (atomsOfSeg sg) st with
    | raised s1 => simp [hs, Outcome.bind] at h
    | ok s1 =>
      simp only [hs, Outcome.bind] at h
      exact ih s1 (runAtoms_seg_auto ap md sg st s1 h0 hs) h

/-! ### complete migrations inside alembic's own transaction (`Good`) -/

def Good (st : St σ) : Prop := st.sa = true ∧ st.txn = true ∧ st.auto = none

theorem runAtoms_seg_good (md : Mode) (sg : Seg α) (st : St σ) (hg : Good st) :
    ∃ s', runAtoms ap md (atomsOfSeg sg) st = .ok s' ∧ Good s' ∧ s'.working = applyAll ap (segActs sg) st.working := by
  obtain ⟨h1, h2, h3⟩ := hg
  cases sg with
  | plain ss =>
    refine ⟨execAll ap md ss st, ?_, ⟨execAll_sa ap md ss st h1, by simp [h2], by simp [h3]⟩, by simp [segActs]⟩
    simp [atomsOfSeg, runAtoms_stmts]
  | auto ss =>
    have he : enterAuto md st = some { saBegin md { commit st with txn := false } with auto := some true } := by
      simp [enterAuto, h1, h2]
    simp only [atomsOfSeg, List.cons_append, List.nil_append, runAtoms, he]
    rw [runAtoms_append, runAtoms_stmts]
    simp only [Outcome.bind, runAtoms]
    refine ⟨_, rfl, ?_, ?_⟩
    · refine ⟨?_, ?_, exitAuto_auto md _⟩
      · simp [exitAuto, saBegin, commit]
      · simp [exitAuto, saBegin, commit]
    · have := (exitAuto_fields md (execAll ap md ss { saBegin md { commit st with txn := false } with auto := some true })).1
      rw [this]; simp [segActs, saBegin, commit]

theorem runAtoms_body_good (md : Mode) (segs : List (Seg α)) (st : St σ) (hg : Good st) :
    ∃ s', runAtoms ap md (bodyAtoms segs) st = .ok s' ∧ Good s' ∧ s'.working = applyAll ap (bodyActs segs) st.working := by
  induction segs generalizing st with
  | nil => exact ⟨st, by simp [bodyAtoms, runAtoms], hg, by simp [bodyActs, applyAll]⟩
  | cons sg r ih =>
    obtain ⟨s1, e1, g1, w1⟩ := runAtoms_seg_good ap md sg st hg
    obtain ⟨s2, e2, g2, w2⟩ := ih s1 g1
    refine ⟨s2, ?_, g2, ?_⟩
    · simp [bodyAtoms, runAtoms_append, e1, Outcome.bind, e2]
    · rw [w2, w1, bodyActs, applyAll_append]

theorem runAtoms_mig_good (md : Mode) (m : Mig α) (st : St σ) (hg : Good st) :
    ∃ s', runAtoms ap md (migAtoms m) st = .ok s' ∧ Good s' ∧ s'.working = applyAll ap (migActs m) st.working := by
  obtain ⟨s1, e1, g1, w1⟩ := runAtoms_body_good ap md m.segs st hg
  refine ⟨execAll ap md (vStmts m.vstmts) s1, ?_, ?_, ?_⟩
  · simp [migAtoms, runAtoms_append, e1, Outcome.bind, versionAtoms_eq, runAtoms_stmts]
  · exact ⟨execAll_sa ap md _ s1 g1.1, by simp [g1.2.1], by simp [g1.2.2]⟩
  · simp [migActs, applyAll_append, w1, vStmts_acts]

/-! ### `transactional` mode without autocommit blocks: nothing is committed -/

theorem runAtoms_transactional_noAuto (p : List (Atom α)) (st : St σ) (hp : noAuto p = true) (h0 : st.auto = none) :
    (runAtoms ap .transactional p st).st.committed = st.committed ∧
    (runAtoms ap .transactional p st).st.auto = none ∧
    (runAtoms ap .transactional p st).st.txn = st.txn := by
  induction p generalizing st with
  | nil => simp [runAtoms, Outcome.st, h0]
  | cons a r ih =>
    simp only [noAuto, List.all_cons, Bool.and_eq_true] at hp
    have hr : noAuto r = true := by simpa [noAuto] using hp.2
    cases a with
    | stmt s =>
      simp only [runAtoms]
      obtain ⟨i1, i2, i3⟩ := ih (execStmt ap .transactional s st) hr (by simp [h0])
      refine ⟨?_, i2, ?_⟩
      · rw [i1, execStmt_transactional_committed ap s st h0]
      · rw [i3, execStmt_txn]
    | enterAuto => simp [isAutoAtom] at hp
    | exitAuto => simp [isAutoAtom] at hp
    | raise kd' => simp [runAtoms, Outcome.st, exitAuto, h0]

end Model.Online
