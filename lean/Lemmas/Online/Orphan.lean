import Lemmas.Online.Rounds
/-! A round entered inside a transaction that alembic takes for the caller's (external). -/
namespace Model.Online
open Spec.Online

variable {α σ ρ : Type} (ap : α → σ → σ)

/-- invariant of a run that alembic believes to be inside the caller's transaction: nothing that
    touches the observation `π` is ever durable -/
def ExtInv (π : σ → ρ) (db : σ) (st : St σ) : Prop :=
  π st.committed = π db ∧ (st.inTxn = false → π st.working = π db) ∧ st.auto = none ∧ st.txn = false ∧ st.sa = true

theorem execStmt_extInv (π : σ → ρ) (db : σ) (md : Mode) (hmd : md ≠ .autocommitDDL) (s : Stmt α) (st : St σ)
    (hs : s.kind = .ddl → ∀ x, π (ap s.act x) = π x) (h : ExtInv π db st) : ExtInv π db (execStmt ap md s st) := by
  obtain ⟨h1, h2, h3, h4, h5⟩ := h
  refine ⟨?_, ?_, by simp [h3], by simp [h4], by simp⟩
  · unfold execStmt autobegin
    simp only [h5, if_true, h3]
    cases md with
    | transactional => simpa using h1
    | autocommitDDL => exact absurd rfl hmd
    | pysqlite =>
      cases hk : s.kind with
      | dml => simpa using h1
      | ddl =>
        simp only
        cases hi : st.inTxn with
        | true => simpa using h1
        | false => simp; rw [hs hk]; exact h2 hi
  · unfold execStmt autobegin
    simp only [h5, if_true, h3]
    cases md with
    | transactional => simp
    | autocommitDDL => exact absurd rfl hmd
    | pysqlite =>
      cases hk : s.kind with
      | dml => simp
      | ddl =>
        simp only
        cases hi : st.inTxn with
        | true => simp [hi]
        | false => simp [hi]; rw [hs hk]; exact h2 hi

theorem runAtoms_extInv (π : σ → ρ) (db : σ) (md : Mode) (hmd : md ≠ .autocommitDDL) (p : List (Atom α)) (st : St σ)
    (hp : ∀ s, Atom.stmt s ∈ p → s.kind = .ddl → ∀ x, π (ap s.act x) = π x) (h : ExtInv π db st) :
    ExtInv π db (runAtoms ap md p st).st := by
  induction p generalizing st with
  | nil => exact h
  | cons a r ih =>
    have hr : ∀ s, Atom.stmt s ∈ r → s.kind = .ddl → ∀ x, π (ap s.act x) = π x := fun s hs => hp s (List.mem_cons_of_mem _ hs)
    cases a with
    | stmt s => exact ih _ hr (execStmt_extInv ap π db md hmd s st (hp s List.mem_cons_self) h)
    | enterAuto =>
      have : enterAuto md st = none := by simp [enterAuto, h.2.2.2.2, h.2.2.2.1]
      simp only [runAtoms, this, Outcome.st]; exact h
    | exitAuto =>
      have : exitAuto md st = st := by simp [exitAuto, h.2.2.1]
      simp only [runAtoms, this]; exact ih _ hr h
    | raise kd' =>
      have : exitAuto md st = st := by simp [exitAuto, h.2.2.1]
      simp only [runAtoms, this, Outcome.st]; exact h

theorem runLoop_extInv (π : σ → ρ) (db : σ) (c : Cfg) (hx : c.external = true) (hmd : c.mode ≠ .autocommitDDL)
    (progs : List (List (Atom α))) (st : St σ)
    (hp : ∀ p ∈ progs, ∀ s, Atom.stmt s ∈ p → s.kind = .ddl → ∀ x, π (ap s.act x) = π x) (h : ExtInv π db st) :
    ExtInv π db (runLoop ap c progs st).st := by
  induction progs generalizing st with
  | nil => exact h
  | cons p r ih =>
    rw [runLoop_cons, begin_step_single c (Or.inl hx) st]
    have := runAtoms_extInv ap π db c.mode hmd p st (hp p List.mem_cons_self) h
    cases hq : runAtoms ap c.mode p st with
    | ok s => rw [hq] at this; simp only [exitIf, Bool.false_eq_true, if_false]; exact ih _ (fun q hq' => hp q (List.mem_cons_of_mem _ hq')) this
    | raised s => rw [hq] at this; simpa [exitIf, Outcome.st] using this

/-! ### complete runs inside a transaction the caller owns -/

def allPlain : List (Seg α) → Bool
  | [] => true
  | .plain _ :: r => allPlain r
  | .auto _ :: _ => false

def bodyStmts : List (Seg α) → List (Stmt α)
  | [] => []
  | .plain ss :: r => ss ++ bodyStmts r
  | .auto ss :: r => ss ++ bodyStmts r

theorem bodyAtoms_plain (segs : List (Seg α)) (h : allPlain segs = true) : bodyAtoms segs = (bodyStmts segs).map .stmt := by
  induction segs with
  | nil => rfl
  | cons sg r ih =>
    cases sg with
    | plain ss => simp only [allPlain] at h; simp [bodyAtoms, atomsOfSeg, bodyStmts, ih h]
    | auto ss => simp [allPlain] at h

theorem bodyStmts_acts (segs : List (Seg α)) : (bodyStmts segs).map (·.act) = bodyActs segs := by
  induction segs with
  | nil => rfl
  | cons sg r ih => cases sg <;> simp [bodyStmts, bodyActs, segActs, ih]

theorem runAtoms_mig_plain (md : Mode) (m : Mig α) (h : allPlain m.segs = true) (st : St σ) :
    ∃ s', runAtoms ap md (migAtoms m) st = .ok s' ∧ s'.working = applyAll ap (migActs m) st.working ∧
      s'.txn = st.txn ∧ s'.auto = st.auto := by
  refine ⟨execAll ap md (bodyStmts m.segs ++ vStmts m.vstmts) st, ?_, ?_, by simp, by simp⟩
  · rw [migAtoms, bodyAtoms_plain m.segs h, versionAtoms_eq, ← List.map_append, runAtoms_stmts]
  · rw [execAll_working, List.map_append, bodyStmts_acts, vStmts_acts, migActs]

/-- one-transaction regime (external, or transactional DDL without per-migration): the per-step level is a
    nullcontext, a plan without autocommit blocks runs through -/
theorem runLoop_external_complete (c : Cfg) (hs : SingleRegime c) (plan : List (Mig α))
    (h : ∀ m ∈ plan, allPlain m.segs = true) (st : St σ) :
    ∃ s', runLoop ap c (plan.map migAtoms) st = .ok s' ∧ s'.working = applyAll ap (planActs plan) st.working ∧
      s'.txn = st.txn ∧ s'.auto = st.auto := by
  induction plan generalizing st with
  | nil => exact ⟨st, rfl, rfl, rfl, rfl⟩
  | cons m r ih =>
    obtain ⟨s1, e1, w1, t1, a1⟩ := runAtoms_mig_plain ap c.mode m (h m List.mem_cons_self) st
    obtain ⟨s2, e2, w2, t2, a2⟩ := ih (fun m' hm' => h m' (List.mem_cons_of_mem _ hm')) s1
    refine ⟨s2, ?_, ?_, by rw [t2, t1], by rw [a2, a1]⟩
    · simp only [List.map_cons]
      rw [runLoop_cons, begin_step_single c hs st]
      simp only [e1, exitIf, Bool.false_eq_true, if_false]
      exact e2
    · rw [w2, w1, planActs_cons, applyAll_append]

end Model.Online
