import Lemmas.Online.Basic
/-! Lemmas about `begin_transaction`, the per-step loop and the whole `env.py` shape. -/
namespace Model.Online
open Spec.Online

variable {α σ : Type} (ap : α → σ → σ) (kd : FailKind)

/-! ### `begin_transaction` / `_ProxyTransaction.__exit__` / leaving the connection -/

theorem beginTransaction_fields (c : Cfg) (b : Bool) (st : St σ) :
    (beginTransaction c b st).2.committed = st.committed ∧ (beginTransaction c b st).2.working = st.working ∧
    (beginTransaction c b st).2.auto = st.auto := by
  unfold beginTransaction
  cases c.external <;> cases c.tddl <;> cases b <;> cases c.perMig <;> cases st.txn <;> simp

theorem exitIf_exc_committed (proxy : Bool) (st : St σ) : (exitIf proxy true st).committed = st.committed := by
  unfold exitIf proxyExit rollback
  split
  · split <;> simp
  · rfl

theorem exitIf_ok_fields (proxy : Bool) (st : St σ) :
    ((exitIf proxy false st).committed = st.committed ∨ (exitIf proxy false st).committed = st.working) ∧
    (exitIf proxy false st).working = st.working ∧ (exitIf proxy false st).auto = st.auto := by
  unfold exitIf proxyExit commit
  split
  · split <;> simp
  · simp

theorem closeConn_exc_committed (c : Cfg) (st : St σ) : (closeConn c true st).committed = st.committed := by
  simp [closeConn, rollback]

/-- the context right after `with context.begin_transaction():` was entered -/
def startSt (c : Cfg) (db : σ) : St σ := (beginTransaction c false (initSt c db)).2

@[simp] theorem startSt_committed (c : Cfg) (db : σ) : (startSt c db).committed = db := by
  rw [startSt, (beginTransaction_fields c false (initSt c db)).1]; rfl
@[simp] theorem startSt_working (c : Cfg) (db : σ) : (startSt c db).working = db := by
  rw [startSt, (beginTransaction_fields c false (initSt c db)).2.1]; rfl
@[simp] theorem startSt_auto (c : Cfg) (db : σ) : (startSt c db).auto = none := by
  rw [startSt, (beginTransaction_fields c false (initSt c db)).2.2]; rfl

/-- per-migration regime: `transactional_ddl` false, or `transaction_per_migration` set -/
def PerMigRegime (c : Cfg) : Prop := c.external = false ∧ (c.tddl = false ∨ c.perMig = true)

/-- one-transaction regime: the caller's transaction, or transactional DDL without per-migration -/
def SingleRegime (c : Cfg) : Prop := c.external = true ∨ (c.tddl = true ∧ c.perMig = false)

theorem begin_outer_perMig (c : Cfg) (h : PerMigRegime c) (st : St σ) : beginTransaction c false st = (false, st) := by
  obtain ⟨h1, h2⟩ := h
  rcases h2 with h2 | h2 <;> simp [beginTransaction, h1, h2]

theorem begin_step_perMig (c : Cfg) (h : PerMigRegime c) (st : St σ) (ht : st.txn = false) :
    beginTransaction c true st = (true, { autobegin c.mode st with txn := true }) := by
  obtain ⟨h1, h2⟩ := h
  rcases h2 with h2 | h2
  · simp [beginTransaction, h1, h2, ht]
  · cases h3 : c.tddl <;> simp [beginTransaction, h1, h2, h3, ht]

theorem begin_step_single (c : Cfg) (h : SingleRegime c) (st : St σ) : beginTransaction c true st = (false, st) := by
  rcases h with h | ⟨h1, h2⟩
  · simp [beginTransaction, h]
  · cases h3 : c.external <;> simp [beginTransaction, h1, h2, h3]

/-! ### the loop -/

theorem runLoop_cons (c : Cfg) (p : List (Atom α)) (r : List (List (Atom α))) (st : St σ) :
    runLoop ap c (p :: r) st =
      match runAtoms ap c.mode p (beginTransaction c true st).2 with
      | .ok st2 => runLoop ap c r (exitIf (beginTransaction c true st).1 false st2)
      | .raised st2 => .raised (exitIf (beginTransaction c true st).1 true st2) := rfl

/-- the oracle's run always raises -/
theorem runLoop_raises (c : Cfg) (A : List (List (Atom α))) (p : List (Atom α)) (st : St σ) :
    (runLoop ap c (A ++ [p ++ [.raise kd]]) st).isRaised = true := by
  induction A generalizing st with
  | nil =>
    simp only [List.nil_append, runLoop_cons]
    have := runAtoms_raise ap kd c.mode p (beginTransaction c true st).2
    cases h : runAtoms ap c.mode (p ++ [.raise kd]) (beginTransaction c true st).2 with
    | ok s => rw [h] at this; simp [Outcome.isRaised] at this
    | raised s => simp [Outcome.isRaised]
  | cons q r ih =>
    simp only [List.cons_append, runLoop_cons]
    cases h : runAtoms ap c.mode q (beginTransaction c true st).2 with
    | ok s => exact ih _
    | raised s => simp [Outcome.isRaised]

theorem oracle_eq (plan : List (Mig α)) (k pos : Nat) (m : Mig α) (h : plan[k]? = some m) :
    oracle kd plan k pos = (plan.take k).map migAtoms ++ [(migAtoms m).take pos ++ [.raise kd]] := by
  simp [oracle, h]

theorem runFinal_of_raised (c : Cfg) (pre : List (Stmt α)) (progs : List (List (Atom α))) (db : σ)
    (h : (runMigrations ap c pre progs (beginTransaction c false (initSt c db)).2).isRaised = true) :
    runFinal ap c pre progs db =
      (runMigrations ap c pre progs (beginTransaction c false (initSt c db)).2).st.committed := by
  unfold runFinal
  cases h2 : runMigrations ap c pre progs (beginTransaction c false (initSt c db)).2 with
  | ok s => rw [h2] at h; simp [Outcome.isRaised] at h
  | raised s => simp [Outcome.st, closeConn_exc_committed, exitIf_exc_committed]

/-! ### the failing migration: `committed` stays acceptable -/

theorem mem_take_stmt {l : List (Atom α)} {n : Nat} {s : Stmt α} (h : Atom.stmt s ∈ l.take n) : Atom.stmt s ∈ l :=
  List.mem_of_mem_take h

theorem failing_inv (md : Mode) (Cp Wp : σ → Prop) (hWC : ∀ x, Wp x → Cp x) (m : Mig α) (pos : Nat) (st : St σ)
    (hb : ∀ s, Atom.stmt s ∈ bodyAtoms m.segs → ∀ x, Wp x → Wp (ap s.act x))
    (h0 : st.auto = none) (hc : Cp st.committed) (hw : Wp st.working) :
    Cp (runAtoms ap md ((migAtoms m).take pos ++ [.raise kd]) st).st.committed := by
  unfold migAtoms
  rw [List.take_append]
  by_cases hle : pos ≤ (bodyAtoms m.segs).length
  · have : pos - (bodyAtoms m.segs).length = 0 := by omega
    rw [this, List.take_zero, List.append_nil]
    refine (runAtoms_inv ap md Cp Wp hWC _ st ?_ hc hw).1
    intro s hs
    rcases List.mem_append.mp hs with h | h
    · exact hb s (mem_take_stmt h)
    · simp at h
  · have hfull : (bodyAtoms m.segs).take pos = bodyAtoms m.segs := List.take_of_length_le (by omega)
    rw [hfull, List.append_assoc, runAtoms_append]
    have hinv := runAtoms_inv ap md Cp Wp hWC (bodyAtoms m.segs) st hb hc hw
    cases hbody : runAtoms ap md (bodyAtoms m.segs) st with
    | raised s1 => rw [hbody] at hinv; simpa [Outcome.bind, Outcome.st] using hinv.1
    | ok s1 =>
      rw [hbody] at hinv
      have ha := runAtoms_body_auto ap md m.segs st s1 h0 hbody
      rw [take_versionAtoms, versionAtoms_eq]
      simp only [Outcome.bind, runAtoms_append, runAtoms_stmts, runAtoms, Outcome.st]
      have hex : exitAuto md (execAll ap md (vStmts (m.vstmts.take (pos - (bodyAtoms m.segs).length))) s1) =
          execAll ap md (vStmts (m.vstmts.take (pos - (bodyAtoms m.segs).length))) s1 := by
        simp [exitAuto, ha]
      rw [hex, execAll_dml_committed ap md _ s1 ha]
      exact hinv.1

/-! ### loop steps -/

theorem runLoop_last (c : Cfg) (p : List (Atom α)) (st : St σ) :
    (runLoop ap c [p ++ [.raise kd]] st).st.committed =
      (runAtoms ap c.mode (p ++ [.raise kd]) (beginTransaction c true st).2).st.committed := by
  rw [runLoop_cons]
  have := runAtoms_raise ap kd c.mode p (beginTransaction c true st).2
  cases h : runAtoms ap c.mode (p ++ [.raise kd]) (beginTransaction c true st).2 with
  | ok s => rw [h] at this; simp [Outcome.isRaised] at this
  | raised s => simp [Outcome.st, exitIf_exc_committed]

/-- per-migration regime: a complete migration is applied and committed as a whole -/
theorem runLoop_cons_perMig (c : Cfg) (h : PerMigRegime c) (m : Mig α) (r : List (List (Atom α))) (st : St σ)
    (ha : st.auto = none) (ht : st.txn = false) :
    ∃ st3, runLoop ap c (migAtoms m :: r) st = runLoop ap c r st3 ∧ st3.auto = none ∧ st3.txn = false ∧
      st3.working = applyAll ap (migActs m) st.working ∧ st3.committed = st3.working := by
  rw [runLoop_cons, begin_step_perMig c h st ht]
  have hg : Good ({ autobegin c.mode st with txn := true } : St σ) := ⟨by simp, rfl, by simp [ha]⟩
  obtain ⟨s', e, g, w⟩ := runAtoms_mig_good ap c.mode m _ hg
  simp only [e]
  refine ⟨exitIf true false s', rfl, ?_, ?_, ?_, ?_⟩
  · simp [exitIf, proxyExit, g.2.1, commit, g.2.2]
  · simp [exitIf, proxyExit, g.2.1]
  · simp [exitIf, proxyExit, g.2.1, commit, w]
  · simp [exitIf, proxyExit, g.2.1, commit]

theorem planActs_cons (m : Mig α) (r : List (Mig α)) : planActs (m :: r) = migActs m ++ planActs r := rfl

/-- per-migration regime, any mode, observation `π` that the failing body does not touch:
    after the failure `π committed` is that of the completed migrations -/
theorem runLoop_perMig_proj {ρ : Type} (π : σ → ρ) (c : Cfg) (h : PerMigRegime c) (m : Mig α) (pos : Nat)
    (hb : ∀ s, Atom.stmt s ∈ bodyAtoms m.segs → ∀ x, π (ap s.act x) = π x)
    (done : List (Mig α)) (st : St σ) (ha : st.auto = none) (ht : st.txn = false)
    (hcw : π st.committed = π st.working) :
    π (runLoop ap c (done.map migAtoms ++ [(migAtoms m).take pos ++ [.raise kd]]) st).st.committed =
      π (applyAll ap (planActs done) st.working) := by
  induction done generalizing st with
  | nil =>
    simp only [List.map_nil, List.nil_append, planActs, applyAll, List.foldl_nil]
    rw [runLoop_last]
    have hf := beginTransaction_fields c true st
    apply failing_inv ap kd c.mode (fun x => π x = π st.working) (fun x => π x = π st.working) (fun _ hx => hx) m pos
    · intro s hs x hx; rw [hb s hs x]; exact hx
    · rw [hf.2.2]; exact ha
    · rw [hf.1]; exact hcw
    · rw [hf.2.1]
  | cons m' r ih =>
    obtain ⟨st3, e, a3, t3, w3, c3⟩ := runLoop_cons_perMig ap c h m' (r.map migAtoms ++ [(migAtoms m).take pos ++ [.raise kd]]) st ha ht
    simp only [List.map_cons, List.cons_append]
    rw [e, ih st3 a3 t3 (by rw [c3]), w3, planActs_cons, applyAll_append]

/-- per-migration regime, `transactional` mode, failing program without autocommit block:
    exact state -/
theorem runLoop_perMig_exact (c : Cfg) (hm : c.mode = .transactional) (h : PerMigRegime c) (m : Mig α) (pos : Nat)
    (hna : noAuto ((migAtoms m).take pos) = true)
    (done : List (Mig α)) (st : St σ) (ha : st.auto = none) (ht : st.txn = false) :
    (runLoop ap c (done.map migAtoms ++ [(migAtoms m).take pos ++ [.raise kd]]) st).st.committed =
      if done = [] then st.committed else applyAll ap (planActs done) st.working := by
  induction done generalizing st with
  | nil =>
    simp only [List.map_nil, List.nil_append, if_true]
    rw [runLoop_last, hm]
    have hf := beginTransaction_fields c true st
    have hna' : noAuto ((migAtoms m).take pos ++ [Atom.raise kd]) = true := by
      simp only [noAuto, List.all_append, Bool.and_eq_true] at hna ⊢
      exact ⟨hna, by simp [isAutoAtom]⟩
    rw [(runAtoms_transactional_noAuto ap _ _ hna' (by rw [hf.2.2]; exact ha)).1, hf.1]
  | cons m' r ih =>
    obtain ⟨st3, e, a3, t3, w3, c3⟩ := runLoop_cons_perMig ap c h m' (r.map migAtoms ++ [(migAtoms m).take pos ++ [.raise kd]]) st ha ht
    simp only [List.map_cons, List.cons_append, reduceCtorEq, if_false]
    rw [e, ih st3 a3 t3, c3, w3, planActs_cons, applyAll_append]
    split
    · next hr => subst hr; simp [planActs, applyAll]
    · rfl

/-- one-transaction regime (or external transaction), `transactional` mode, no autocommit
    blocks: nothing is ever committed -/
theorem runLoop_single_exact (c : Cfg) (hm : c.mode = .transactional) (h : SingleRegime c)
    (progs : List (List (Atom α))) (hna : ∀ p ∈ progs, noAuto p = true) (st : St σ) (ha : st.auto = none) :
    (runLoop ap c progs st).st.committed = st.committed := by
  induction progs generalizing st with
  | nil => simp [runLoop, Outcome.st]
  | cons p r ih =>
    rw [runLoop_cons, begin_step_single c h st, hm]
    obtain ⟨i1, i2, _⟩ := runAtoms_transactional_noAuto ap p st (hna p List.mem_cons_self) ha
    cases hp : runAtoms ap .transactional p st with
    | raised s => rw [hp] at i1; simpa [Outcome.st, exitIf] using i1
    | ok s =>
      rw [hp] at i1 i2
      simp only [exitIf, Bool.false_eq_true, if_false]
      rw [ih (fun q hq => hna q (List.mem_cons_of_mem _ hq)) s i2]
      exact i1

/-! ### the general case: `π committed` is always that of a migration boundary -/

theorem applyAll_cong {ρ : Type} (π : σ → ρ) (hcong : ∀ a x y, π x = π y → π (ap a x) = π (ap a y))
    (l : List α) (x y : σ) (h : π x = π y) : π (applyAll ap l x) = π (applyAll ap l y) := by
  induction l generalizing x y with
  | nil => exact h
  | cons a r ih => simp only [applyAll, List.foldl_cons] at ih ⊢; exact ih _ _ (hcong a x y h)

theorem applyAll_preserve {ρ : Type} (π : σ → ρ) (l : List α) (hl : ∀ a ∈ l, ∀ x, π (ap a x) = π x) (x : σ) :
    π (applyAll ap l x) = π x := by
  induction l generalizing x with
  | nil => rfl
  | cons a r ih =>
    simp only [applyAll, List.foldl_cons] at ih ⊢
    rw [ih (fun b hb => hl b (List.mem_cons_of_mem _ hb)), hl a List.mem_cons_self]

theorem mem_segActs {sg : Seg α} {a : α} (h : a ∈ segActs sg) : ∃ s, Atom.stmt s ∈ atomsOfSeg sg ∧ s.act = a := by
  cases sg with
  | plain ss =>
    simp only [segActs, List.mem_map] at h
    obtain ⟨s, hs, e⟩ := h
    exact ⟨s, by simp [atomsOfSeg]; exact hs, e⟩
  | auto ss =>
    simp only [segActs, List.mem_map] at h
    obtain ⟨s, hs, e⟩ := h
    exact ⟨s, by simp [atomsOfSeg]; exact hs, e⟩

theorem mem_bodyActs {segs : List (Seg α)} {a : α} (h : a ∈ bodyActs segs) :
    ∃ s, Atom.stmt s ∈ bodyAtoms segs ∧ s.act = a := by
  induction segs with
  | nil => simp [bodyActs] at h
  | cons sg r ih =>
    simp only [bodyActs, List.mem_append] at h
    rcases h with h | h
    · obtain ⟨s, hs, e⟩ := mem_segActs h
      exact ⟨s, by simp [bodyAtoms, hs], e⟩
    · obtain ⟨s, hs, e⟩ := ih h
      exact ⟨s, by simp [bodyAtoms, hs], e⟩

theorem runLoop_boundary {ρ : Type} (π : σ → ρ) (c : Cfg)
    (hcong : ∀ a x y, π x = π y → π (ap a x) = π (ap a y)) (m : Mig α) (pos : Nat)
    (done : List (Mig α))
    (hbody : ∀ m' ∈ done ++ [m], ∀ s, Atom.stmt s ∈ bodyAtoms m'.segs → ∀ x, π (ap s.act x) = π x)
    (B : ρ → Prop) (base : σ) (st : St σ) (ha : st.auto = none) (hc : B (π st.committed))
    (hw : π st.working = π base) (hB : B (π base)) :
    B (π (runLoop ap c (done.map migAtoms ++ [(migAtoms m).take pos ++ [.raise kd]]) st).st.committed) ∨
    ∃ j, j ≤ done.length ∧
      π (runLoop ap c (done.map migAtoms ++ [(migAtoms m).take pos ++ [.raise kd]]) st).st.committed =
        π (applyAll ap (planActs (done.take j)) base) := by
  induction done generalizing st base B with
  | nil =>
    left
    simp only [List.map_nil, List.nil_append]
    rw [runLoop_last]
    have hf := beginTransaction_fields c true st
    apply failing_inv ap kd c.mode (fun x => B (π x)) (fun x => π x = π base) (fun x hx => by rw [hx]; exact hB) m pos
    · intro s hs x hx; rw [hbody m (by simp) s hs x]; exact hx
    · rw [hf.2.2]; exact ha
    · rw [hf.1]; exact hc
    · rw [hf.2.1]; exact hw
  | cons m' r ih =>
    simp only [List.map_cons, List.cons_append]
    rw [runLoop_cons]
    have hf := beginTransaction_fields c true st
    have hb' : ∀ s, Atom.stmt s ∈ bodyAtoms m'.segs → ∀ x, π (ap s.act x) = π x := hbody m' (by simp)
    have hinv := runAtoms_inv ap c.mode (fun x => B (π x)) (fun x => π x = π base) (fun x hx => by rw [hx]; exact hB)
      (bodyAtoms m'.segs) (beginTransaction c true st).2 (fun s hs x hx => by rw [hb' s hs x]; exact hx)
      (by rw [hf.1]; exact hc) (by rw [hf.2.1]; exact hw)
    have hm : migAtoms m' = bodyAtoms m'.segs ++ versionAtoms m'.vstmts := rfl
    rw [hm, runAtoms_append]
    cases hbd : runAtoms ap c.mode (bodyAtoms m'.segs) (beginTransaction c true st).2 with
    | raised s1 =>
      rw [hbd] at hinv
      left
      simp only [Outcome.bind, Outcome.st, exitIf_exc_committed]
      exact hinv.1
    | ok s1 =>
      rw [hbd] at hinv
      have ha1 := runAtoms_body_auto ap c.mode m'.segs _ s1 (by rw [hf.2.2]; exact ha) hbd
      simp only [Outcome.bind, versionAtoms_eq, runAtoms_stmts]
      -- the state handed to the rest of the loop
      have hx := exitIf_ok_fields (beginTransaction c true st).1 (execAll ap c.mode (vStmts m'.vstmts) s1)
      have hwork : π (execAll ap c.mode (vStmts m'.vstmts) s1).working = π (applyAll ap (migActs m') base) := by
        rw [execAll_working, vStmts_acts, migActs, applyAll_append]
        apply applyAll_cong ap π hcong
        rw [applyAll_preserve ap π (bodyActs m'.segs)]
        · exact hinv.2
        · intro a hmem x
          obtain ⟨s, hs, e⟩ := mem_bodyActs hmem
          rw [← e]; exact hb' s hs x
      have hcomm : (execAll ap c.mode (vStmts m'.vstmts) s1).committed = s1.committed :=
        execAll_dml_committed ap c.mode _ s1 ha1
      have := ih (fun m'' hm'' => hbody m'' (by simp at hm'' ⊢; rcases hm'' with h | h <;> simp [h]))
        (fun y => B y ∨ y = π (applyAll ap (migActs m') base)) (applyAll ap (migActs m') base)
        (exitIf (beginTransaction c true st).1 false (execAll ap c.mode (vStmts m'.vstmts) s1))
        (by rw [hx.2.2]; simp [ha1])
        (by
          rcases hx.1 with h | h
          · left; rw [h, hcomm]; exact hinv.1
          · right; rw [h]; exact hwork)
        (by rw [hx.2.1]; exact hwork)
        (Or.inr rfl)
      rcases this with (h | h) | ⟨j, hj, h⟩
      · left; exact h
      · right; exact ⟨1, by simp, by rw [h]; simp [planActs]⟩
      · right
        refine ⟨j + 1, by simp; omega, ?_⟩
        rw [h, List.take_succ_cons, planActs_cons, applyAll_append]

end Model.Online
