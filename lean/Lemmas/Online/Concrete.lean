import Lemmas.Online.Loop
/-! Facts about the concrete `Db` / `applyAct` used by the driver, and about the Bool checker. -/
namespace Spec.Online
open Model.Online

theorem applyAct_rows_cong (a : Act) (x y : Db) (h : x.rows = y.rows) : (applyAct a x).rows = (applyAct a y).rows := by
  cases a <;> simp [applyAct, h]

theorem applyAct_rows_objOnly (a : Act) (h : objOnly a = true) (x : Db) : (applyAct a x).rows = x.rows := by
  cases a <;> simp_all [applyAct, objOnly]

theorem stmt_mem_segAtoms {sg : Seg Act} {s : Stmt Act} (h : Atom.stmt s ∈ atomsOfSeg sg) : s.act ∈ segActs sg := by
  cases sg with
  | plain ss =>
    simp only [atomsOfSeg, List.mem_map] at h
    obtain ⟨s', hs', e⟩ := h
    cases e
    exact List.mem_map.mpr ⟨s, hs', rfl⟩
  | auto ss =>
    simp only [atomsOfSeg, List.mem_append, List.mem_cons, List.mem_map, List.not_mem_nil, or_false, reduceCtorEq, false_or] at h
    obtain ⟨s', hs', e⟩ := h
    cases e
    exact List.mem_map.mpr ⟨s, hs', rfl⟩

theorem stmt_mem_bodyAtoms {segs : List (Seg Act)} {s : Stmt Act} (h : Atom.stmt s ∈ bodyAtoms segs) : s.act ∈ bodyActs segs := by
  induction segs with
  | nil => simp [bodyAtoms] at h
  | cons sg r ih =>
    simp only [bodyAtoms, List.mem_append] at h
    simp only [bodyActs, List.mem_append]
    rcases h with h | h
    · exact Or.inl (stmt_mem_segAtoms h)
    · exact Or.inr (ih h)

theorem boundaryRows_of (pre : List (Stmt Act)) (plan : List (Mig Act)) (db : Db) (rows : List Nat) (k j : Nat)
    (hj : j ≤ k) (h : (stateAt applyAct pre plan j db).rows = rows) : boundaryRows pre plan db rows k = true := by
  induction k with
  | zero =>
    have : j = 0 := by omega
    subst this
    simp [boundaryRows, h]
  | succ n ih =>
    by_cases hjn : j = n + 1
    · subst hjn; simp [boundaryRows, h]
    · simp only [boundaryRows, Bool.or_eq_true]
      exact Or.inr (ih (by omega))

theorem namesHyp_at (parents : List (Nat × List Nat)) (pre : List (Stmt Act)) (plan : List (Mig Act)) (db : Db)
    (rev : Nat) (upgrade : Bool) (k j : Nat) (hj : j ≤ k) (h : namesHyp parents pre plan db rev upgrade k = true) :
    names parents (stateAt applyAct pre plan j db).rows rev = !upgrade := by
  induction k with
  | zero =>
    have : j = 0 := by omega
    subst this
    simpa [namesHyp] using h
  | succ n ih =>
    simp only [namesHyp, Bool.and_eq_true, beq_iff_eq] at h
    by_cases hjn : j = n + 1
    · subst hjn; exact h.1
    · exact ih (by omega) h.2

/-! ### objects a statement does not mention are left alone -/

def touches : Act → Nat → Bool
  | .add e, n => e == n
  | .del e, n => e == n
  | _, _ => false

theorem mem_insertSorted (a e : Nat) (l : List Nat) : a ∈ insertSorted e l ↔ a = e ∨ a ∈ l := by
  induction l with
  | nil => simp [insertSorted]
  | cons x r ih =>
    unfold insertSorted
    split
    · simp
    · split
      · next h => subst h; simp
      · simp only [List.mem_cons, ih]
        constructor
        · rintro (h | h | h) <;> simp [h]
        · rintro (h | h | h) <;> simp [h]

theorem applyAct_objs_untouched (a : Act) (n : Nat) (h : touches a n = false) (x : Db) :
    decide (n ∈ (applyAct a x).objs) = decide (n ∈ x.objs) := by
  cases a with
  | add e =>
    simp only [touches, beq_eq_false_iff_ne, ne_eq] at h
    simp only [applyAct, mem_insertSorted]
    have : ¬ n = e := fun hh => h hh.symm
    simp [this]
  | del e =>
    simp only [touches, beq_eq_false_iff_ne, ne_eq] at h
    simp only [applyAct, List.mem_filter, bne_iff_ne, ne_eq]
    have : ¬ n = e := fun hh => h hh.symm
    simp [this]
  | createVT => rfl
  | vins r => rfl
  | vdel r => rfl
  | vupd a b => rfl
  | read => rfl

end Spec.Online
