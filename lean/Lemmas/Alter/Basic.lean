import Spec.Alter
/-!
Helper lemmas for C13: the schema-type constraint statements that `toimpl.alter_column` puts
around the dialect's alter do not touch the column attributes, so the property of the whole
output follows from the property of the dialect's part.
-/
namespace Lemmas.Alter
open Model.Alter Spec.Alter

def isConstraint : Stmt → Bool
  | .dropConstraint .. | .addConstraint .. => true
  | _ => false

theorem final_append (init : ColState) (a b : List Stmt) :
    final init (a ++ b) = final (final init a) b := by
  simp [final, List.foldl_append]

theorem applyStmt_constraint (s : ColState) (st : Stmt) (h : isConstraint st = true) :
    applyStmt s st = s := by
  cases st <;> simp_all [isConstraint, applyStmt, Stmt.col]

theorem final_constraints (init : ColState) (l : List Stmt) (h : l.all isConstraint = true) :
    final init l = init := by
  induction l generalizing init with
  | nil => rfl
  | cons x xs ih =>
    simp only [List.all_cons, Bool.and_eq_true] at h
    simp only [final, List.foldl_cons]
    rw [applyStmt_constraint _ _ h.1]
    exact ih init h.2

theorem any_restatesAll_constraints (l : List Stmt) (h : l.all isConstraint = true) :
    l.any restatesAll = false := by
  induction l with
  | nil => rfl
  | cons x xs ih =>
    simp only [List.all_cons, Bool.and_eq_true] at h
    simp only [List.any_cons, ih h.2, Bool.or_false]
    cases x <;> simp_all [isConstraint, restatesAll]

theorem any_restatesTyNull_constraints (l : List Stmt) (h : l.all isConstraint = true) :
    l.any restatesTyNull = false := by
  induction l with
  | nil => rfl
  | cons x xs ih =>
    simp only [List.all_cons, Bool.and_eq_true] at h
    simp only [List.any_cons, ih h.2, Bool.or_false]
    cases x <;> simp_all [isConstraint, restatesTyNull]

theorem keepOk_self (r : Req) (init : ColState) (l : List Stmt) : keepOk r init init l = true := by
  simp [keepOk]

/-- constraint statements before and after do not change the verdict -/
theorem exactOk_wrap (d : Dialect) (r : Req) (init : ColState) (pre o post : Out)
    (hpre : pre.stmts.all isConstraint = true) (hpost : post.stmts.all isConstraint = true)
    (h : exactOk d r init o = true) :
    exactOk d r init (pre.andThen (o.andThen post)) = true := by
  cases hpe : pre.err with
  | some e =>
    simp [Out.andThen, hpe, exactOk, final_constraints _ _ hpre, keepOk_self]
  | none =>
    cases hoe : o.err with
    | some e =>
      simp only [exactOk, Bool.and_eq_true, Bool.or_eq_true] at h
      simp only [Out.andThen, hpe, hoe, exactOk, final_append, final_constraints _ _ hpre,
        Option.isSome_some, Bool.true_or, Bool.and_true]
      have := h.1
      simp only [keepOk, List.any_append, any_restatesAll_constraints _ hpre,
        any_restatesTyNull_constraints _ hpre, Bool.false_or] at this ⊢
      exact this
    | none =>
      simp only [exactOk, Bool.and_eq_true, Bool.or_eq_true, hoe, Option.isSome_none,
        Bool.false_eq_true, false_or] at h
      simp only [Out.andThen, hpe, hoe, exactOk, final_append, final_constraints _ _ hpre,
        final_constraints _ _ hpost, Bool.and_eq_true, Bool.or_eq_true]
      refine ⟨?_, Or.inr h.2⟩
      have := h.1
      simp only [keepOk, List.any_append, any_restatesAll_constraints _ hpre,
        any_restatesTyNull_constraints _ hpre, any_restatesAll_constraints _ hpost,
        any_restatesTyNull_constraints _ hpost, Bool.false_or, Bool.or_false] at this ⊢
      exact this

theorem dropTypeConstraint_constraints (d : Dialect) (t : TRef) (c : String) (ty : Ty) :
    (dropTypeConstraint d t c ty).stmts.all isConstraint = true := by
  unfold dropTypeConstraint
  cases ty.ck with
  | none => simp [Out.ok]
  | some nm =>
    cases nm <;> cases d <;> simp [Out.ok, Out.fail, emitAll, compile, isConstraint]

theorem addTypeConstraint_constraints (d : Dialect) (t : TRef) (c : String) (ty : Ty) :
    (addTypeConstraint d t c ty).stmts.all isConstraint = true := by
  unfold addTypeConstraint
  cases ty.ck with
  | none => simp [Out.ok]
  | some nm =>
    cases d <;> simp [Out.ok, Out.fail, emitAll, compile, isConstraint]

/-- the property of `toimpl.alter_column`'s output follows from the property of the dialect's part -/
theorem exactOk_alterColumn (d : Dialect) (r : Req) (init : ColState)
    (h : exactOk d r init (implAlter d r) = true) :
    exactOk d r init (alterColumn d r) = true := by
  unfold alterColumn
  apply exactOk_wrap _ _ _ _ _ _ _ _ h
  · cases r.exType <;> cases r.type_ <;> simp [Out.ok, dropTypeConstraint_constraints]
  · cases r.type_ <;> simp [Out.ok, addTypeConstraint_constraints]

end Lemmas.Alter

namespace Lemmas.Alter
open Model.Alter Spec.Alter

/-- unfold model and spec on a request whose presence pattern is concrete -/
macro "c13_unfold" : tactic =>
  `(tactic| simp_all [implAlter, defaultAlter, pgAlter, mssqlAlter, mssqlFold, defaultConstructs, emitAll, compile,
      Out.ok, Out.fail, Out.andThen,
      exactOk, keepOk, requestedOk, agrees, final, applyStmt, Stmt.col, effect, restatesAll, restatesTyNull,
      Dialect.isMySQL, Tri.given, Tri.val?, normC, isComputed, isIdentity,
      DefVal.isComputed, DefVal.isIdentity, renderDefault, defaultIs])

end Lemmas.Alter
