import Lemmas.Alter.IdentityOnly
/-! Oracle identity requests together with any other requested change (whole output) -/
namespace Lemmas.Alter
open Model.Alter Spec.Alter

set_option maxHeartbeats 1000000 in
theorem exact_impl_oracle_identity (r : Req) (init : ColState)
    (hi : oracleIdentityOk r = true) (ha : agrees r init = true) :
    exactOk .oracle r init (implAlter .oracle r) = true := by
  obtain ⟨table, column, schema, type_, nullable, sd, newName, comment, autoinc, exType, exNullable,
    exDefault, exComment, exAutoinc, usingE⟩ := r
  obtain ⟨name, ty, n, dflt, c, ai⟩ := init
  simp only [agrees, Bool.and_eq_true] at ha
  obtain ⟨⟨⟨⟨⟨hname, -⟩, -⟩, hd⟩, -⟩, -⟩ := ha
  simp only [beq_iff_eq] at hname
  subst hname
  cases sd with
  | unset =>
    cases exDefault with
    | set w =>
      cases w <;> cases type_ <;> cases nullable <;> cases newName <;> cases comment <;> c13_ident
    | unset => simp [oracleIdentityOk] at hi
    | drop => simp [oracleIdentityOk] at hi
  | drop =>
    cases exDefault with
    | set w =>
      cases w <;> cases type_ <;> cases nullable <;> cases newName <;> cases comment <;> c13_ident
    | unset => simp [oracleIdentityOk] at hi
    | drop => simp [oracleIdentityOk] at hi
  | set v =>
    cases v with
    | plain s => cases exDefault <;> simp [oracleIdentityOk] at hi
    | computed s => cases exDefault <;> simp [oracleIdentityOk] at hi
    | identity ma ms me =>
      cases exDefault with
      | unset => cases ms <;> cases type_ <;> cases nullable <;> cases newName <;> cases comment <;> c13_ident
      | drop => cases ms <;> cases type_ <;> cases nullable <;> cases newName <;> cases comment <;> c13_ident
      | set w =>
        cases w <;> cases ms <;> cases type_ <;> cases nullable <;> cases newName <;> cases comment <;> c13_ident

end Lemmas.Alter
