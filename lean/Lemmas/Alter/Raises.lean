import Lemmas.Alter.Basic
/-! a requested server-default change whose construct the dialect cannot compile makes
`alter_column` raise (computed defaults everywhere, identity defaults outside PostgreSQL/Oracle) -/
namespace Lemmas.Alter
open Model.Alter Spec.Alter

/-- the construct `DefaultImpl.alter_column` builds for a requested server default -/
def sdConstruct (sd ex : Tri DefVal) : Construct :=
  if isComputed sd ex then .computedDefault
  else if isIdentity sd ex then .identityDefault sd.val? ex
  else .columnDefault sd.val?

theorem sdConstruct_mem (r : Req) (h : r.serverDefault.given = true) :
    sdConstruct r.serverDefault r.exDefault ∈ defaultConstructs r := by
  unfold defaultConstructs sdConstruct
  cases hs : r.serverDefault with
  | unset => simp [hs, Tri.given] at h
  | drop =>
    by_cases h1 : isComputed Tri.drop r.exDefault = true <;>
      by_cases h2 : isIdentity Tri.drop r.exDefault = true <;> simp [h1, h2]
  | set v =>
    by_cases h1 : isComputed (Tri.set v) r.exDefault = true <;>
      by_cases h2 : isIdentity (Tri.set v) r.exDefault = true <;> simp [h1, h2]

theorem emitAll_err (d : Dialect) (t : TRef) (c : String) (ks : List Construct) (k : Construct)
    (hk : k ∈ ks) (hbad : ∃ e, compile d t c k = .error e) : (emitAll d t c ks).err.isSome = true := by
  induction ks with
  | nil => simp at hk
  | cons x xs ih =>
    unfold emitAll
    cases hc : compile d t c x with
    | error e => rfl
    | ok s =>
      simp only [List.mem_cons] at hk
      rcases hk with rfl | hk
      · obtain ⟨e, he⟩ := hbad
        rw [he] at hc
        cases hc
      · exact ih hk

theorem andThen_err_left (a b : Out) (h : a.err.isSome = true) : (a.andThen b).err.isSome = true := by
  unfold Out.andThen
  cases ha : a.err with
  | none => simp [ha] at h
  | some e => simp [ha]

theorem andThen_err_right (a b : Out) (h : b.err.isSome = true) : (a.andThen b).err.isSome = true := by
  unfold Out.andThen
  cases ha : a.err with
  | none => simpa using h
  | some e => simp [ha]

/-- if the dialect cannot compile the construct of the requested server default, the dialect's
`alter_column` raises -/
theorem implAlter_raises (d : Dialect) (r : Req) (h : r.serverDefault.given = true)
    (hbad : ∀ t c, ∃ e, compile d t c (sdConstruct r.serverDefault r.exDefault) = .error e)
    (hic : (isIdentity r.serverDefault r.exDefault || isComputed r.serverDefault r.exDefault) = true) :
    (implAlter d r).err.isSome = true := by
  have hmem := sdConstruct_mem r h
  cases d with
  | default => exact emitAll_err _ _ _ _ _ hmem (hbad _ _)
  | sqlite => exact emitAll_err _ _ _ _ _ hmem (hbad _ _)
  | oracle => exact emitAll_err _ _ _ _ _ hmem (hbad _ _)
  | postgresql =>
    simp only [implAlter, pgAlter]
    split
    · rfl
    · apply emitAll_err _ _ _ _ _ _ (hbad _ _)
      apply List.mem_append_right
      exact sdConstruct_mem { r with type_ := none } h
  | mysql =>
    simp only [implAlter, mysqlAlter, hic, if_true]
    apply andThen_err_left
    exact emitAll_err _ _ _ _ _ (sdConstruct_mem { r with newName := none, comment := .unset } h) (hbad _ _)
  | mariadb =>
    simp only [implAlter, mysqlAlter, hic, if_true]
    apply andThen_err_left
    exact emitAll_err _ _ _ _ _ (sdConstruct_mem { r with newName := none, comment := .unset } h) (hbad _ _)
  | mssql =>
    simp only [implAlter, mssqlAlter]
    split
    · rfl
    · apply andThen_err_left
      simp only [hic, if_true]
      exact emitAll_err _ _ _ _ _ (sdConstruct_mem { r with nullable := _, type_ := _, exType := _, newName := none } h)
        (hbad _ _)

theorem alterColumn_raises (d : Dialect) (r : Req) (h : (implAlter d r).err.isSome = true) :
    (alterColumn d r).err.isSome = true := by
  unfold alterColumn
  apply andThen_err_right
  exact andThen_err_left _ _ h

end Lemmas.Alter
