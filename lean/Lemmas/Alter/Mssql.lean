import Lemmas.Alter.Basic
/-!
MSSQL: the output is three independent blocks
`[ALTER COLUMN c ty [NULL|NOT NULL]]? ++ [drop default constraint]? ++ [ADD DEFAULT d FOR c]? ++ [sp_rename]?`
(or stops with an exception before the default block).  Each block is brought into a closed form,
the final column is computed once for the closed form, and the property is read off attribute by
attribute.
-/
namespace Lemmas.Alter
open Model.Alter Spec.Alter

/-- closed form of the alter block -/
def aStmts (t : TRef) (c : String) : Option (String × Option Bool) → List Stmt
  | some (ty, n) => [.mssqlAlter t c ty n]
  | none => []

/-- closed form of the default block -/
def dStmts (t : TRef) (c : String) (dropD : Bool) (addD : Option String) : List Stmt :=
  (if dropD then [.mssqlDropDefault t t c] else []) ++
  (match addD with
   | some d => [.mssqlAddDefault t c d]
   | none => [])

/-- closed form of the rename block -/
def nStmts (t : TRef) (c : String) : Option String → List Stmt
  | some n => [.rename t c n]
  | none => []

/-- which `ALTER COLUMN c ty [NULL|NOT NULL]` the request leads to (`none` = CommandError) -/
def aOf (r : Req) : Option (Option (String × Option Bool)) :=
  match r.nullable, r.type_, r.exType, r.exNullable with
  | some n, some t, _, _ => some (some (t.name, some n))
  | some n, none, some e, _ => some (some (e.name, some n))
  | some _, none, none, _ => none
  | none, some t, _, some en => some (some (t.name, some en))
  | none, some t, _, none => some (some (t.name, none))
  | none, none, _, _ => some none

def aTy (a : Option (String × Option Bool)) (dflt : String) : String :=
  match a with
  | some (ty, _) => ty
  | none => dflt

def aNull (a : Option (String × Option Bool)) (dflt : Bool) : Bool :=
  match a with
  | some (_, n) => n.getD true
  | none => dflt

def plainText : Tri DefVal → Option String
  | .set (.plain s) => some s
  | _ => none

def dropD (r : Req) : Bool := r.serverDefault.given && (r.exDefault.given || r.serverDefault == .drop)

/-- the three blocks of `mssqlAlter` -/
def blockA (r : Req) : Out :=
  match mssqlFold r with
  | .error e => Out.fail e
  | .ok (nullable, type_, exType) =>
    emitAll .mssql (tref r) r.column (defaultConstructs { r with
      nullable := nullable, type_ := type_, exType := exType, newName := none,
      serverDefault := .unset, exDefault := .drop })

def blockD (r : Req) : Out :=
  if r.serverDefault.given then
    (if r.exDefault.given || r.serverDefault == .drop then
       emitAll .mssql (tref r) r.column [.execDropDefault]
     else Out.ok).andThen
    (match r.serverDefault with
      | .set dv => emitAll .mssql (tref r) r.column [.columnDefault (some dv)]
      | _ => Out.ok)
  else Out.ok

def blockN (r : Req) : Out :=
  match r.newName with
  | some n => emitAll .mssql (tref r) r.column [.columnName n]
  | none => Out.ok

theorem mssqlAlter_blocks (r : Req) (hp : plainDefaults r = true) :
    mssqlAlter r = (blockA r).andThen ((blockD r).andThen (blockN r)) := by
  simp only [plainDefaults, Bool.and_eq_true, Bool.not_eq_true'] at hp
  unfold mssqlAlter blockA blockD blockN
  cases hf : mssqlFold r with
  | error e => simp [Out.fail, Out.andThen]
  | ok v =>
    obtain ⟨n, t, e⟩ := v
    simp only [hp.1, hp.2, Bool.or_false, Bool.not_false, Bool.and_true, Bool.false_eq_true, if_false]
    rfl

theorem blockD_eq (r : Req) (hp : plainDefaults r = true) :
    blockD r = ⟨dStmts (tref r) r.column (dropD r) (plainText r.serverDefault), none⟩ := by
  simp only [plainDefaults, Bool.and_eq_true, Bool.not_eq_true'] at hp
  obtain ⟨hI, hC⟩ := hp
  unfold blockD dStmts dropD
  cases hs : r.serverDefault with
  | unset => simp [Tri.given, plainText, Out.ok]
  | drop => simp [Tri.given, plainText, Out.ok, Out.andThen, emitAll, compile]
  | set v =>
    cases v with
    | plain s =>
      cases he : r.exDefault <;>
        simp [Tri.given, plainText, Out.ok, Out.fail, Out.andThen, emitAll, compile, renderDefault, Dialect.isMySQL]
    | identity a s e => simp [hs, isIdentity, DefVal.isIdentity] at hI
    | computed s => simp [hs, isComputed, DefVal.isComputed] at hC

theorem blockN_eq (r : Req) : blockN r = ⟨nStmts (tref r) r.column r.newName, none⟩ := by
  unfold blockN nStmts
  cases r.newName <;> simp [Out.ok, emitAll, compile, Dialect.isMySQL]

theorem blockA_eq (r : Req) :
    blockA r = match aOf r with
      | none => Out.fail .commandError
      | some a => ⟨aStmts (tref r) r.column a,
                   if r.comment.given then some .unsupportedCompilation else none⟩ := by
  unfold blockA aOf mssqlFold
  cases r.nullable <;> cases r.type_ <;> cases r.exType <;> cases r.exNullable <;> cases r.comment <;>
    simp [aStmts, defaultConstructs, emitAll, compile, Out.ok, Out.fail, Tri.given, Tri.val?, Dialect.isMySQL]

/-- the final column of the closed form -/
theorem final_blocks (s : ColState) (t : TRef) (a : Option (String × Option Bool)) (dd : Bool)
    (ad : Option String) (nn : Option String) :
    final s (aStmts t s.name a ++ (dStmts t s.name dd ad ++ nStmts t s.name nn)) =
      { name := nn.getD s.name,
        ty := aTy a s.ty,
        nullable := aNull a s.nullable,
        default := match ad with | some d => some (.plain d) | none => if dd then none else s.default,
        comment := s.comment, autoinc := s.autoinc } := by
  cases a <;> cases dd <;> cases ad <;> cases nn <;>
    simp [aStmts, dStmts, nStmts, final, applyStmt, Stmt.col, effect, aTy, aNull]

theorem final_aStmts (s : ColState) (t : TRef) (a : Option (String × Option Bool)) :
    final s (aStmts t s.name a) =
      { s with ty := aTy a s.ty,
               nullable := match a with | some (_, n) => n.getD true | none => s.nullable } := by
  cases a <;> simp [aStmts, final, applyStmt, Stmt.col, effect, aTy, aNull]

theorem any_blocks (t : TRef) (c : String) (a : Option (String × Option Bool)) (dd : Bool)
    (ad : Option String) (nn : Option String) :
    (aStmts t c a ++ (dStmts t c dd ad ++ nStmts t c nn)).any restatesAll = false ∧
    (aStmts t c a ++ (dStmts t c dd ad ++ nStmts t c nn)).any restatesTyNull = a.isSome := by
  cases a <;> cases dd <;> cases ad <;> cases nn <;>
    simp [aStmts, dStmts, nStmts, restatesAll, restatesTyNull]

theorem any_aStmts (t : TRef) (c : String) (a : Option (String × Option Bool)) :
    (aStmts t c a).any restatesAll = false ∧ (aStmts t c a).any restatesTyNull = a.isSome := by
  cases a <;> simp [aStmts, restatesAll, restatesTyNull]

/-- type and nullability: requested values are reached, unrequested ones are kept or restated
from the stated existing value -/
theorem ty_null_ok (r : Req) (init : ColState) (ha : agrees r init = true)
    (a : Option (String × Option Bool)) (h : aOf r = some a) :
    ((r.type_.isSome || (a.isSome && r.exType.isNone) ||
        aTy a init.ty == init.ty) = true) ∧
    ((r.nullable.isSome || (a.isSome && r.exNullable.isNone) ||
        aNull a init.nullable == init.nullable) = true) ∧
    ((match r.type_ with
      | some t => aTy a init.ty == t.name
      | none => true) = true) ∧
    ((match r.nullable with
      | some n => aNull a init.nullable == n
      | none => true) = true) := by
  simp only [agrees, Bool.and_eq_true] at ha
  obtain ⟨⟨⟨⟨⟨-, h2⟩, h3⟩, -⟩, -⟩, -⟩ := ha
  unfold aOf at h
  cases hn : r.nullable <;> cases ht : r.type_ <;> cases he : r.exType <;> cases hen : r.exNullable <;>
    simp only [hn, ht, he, hen, Option.some.injEq, reduceCtorEq] at h h2 h3 <;>
    (try subst h) <;> simp_all [aTy, aNull]

theorem exact_impl_mssql (r : Req) (init : ColState)
    (hp : plainDefaults r = true) (ha : agrees r init = true) :
    exactOk .mssql r init (implAlter .mssql r) = true := by
  have hname : init.name = r.column := by
    simp only [agrees, Bool.and_eq_true, beq_iff_eq] at ha
    exact ha.1.1.1.1.1
  show exactOk .mssql r init (mssqlAlter r) = true
  rw [mssqlAlter_blocks r hp, blockD_eq r hp, blockN_eq, blockA_eq]
  cases hA : aOf r with
  | none => simp [Out.fail, Out.andThen, exactOk, final, keepOk_self]
  | some a =>
    obtain ⟨k1, k2, q1, q2⟩ := ty_null_ok r init ha a hA
    rw [← hname]
    cases hc : r.comment.given with
    | true =>
      -- ColumnComment cannot be compiled: the call raises after the alter block
      simp only [Out.andThen, exactOk, if_true, Option.isSome_some, Bool.true_or, Bool.and_true,
        final_aStmts, keepOk, (any_aStmts _ _ _).1, (any_aStmts _ _ _).2, Bool.false_and, Bool.false_or,
        hc, Bool.true_or, Bool.and_eq_true, Bool.or_eq_true, beq_self_eq_true, or_true, and_true]
      simp only [Bool.or_eq_true, Bool.and_eq_true] at k1 k2
      exact ⟨k1, k2⟩
    | false =>
      simp only [Out.andThen, exactOk, final_blocks, keepOk, (any_blocks _ _ _ _ _ _).1,
        (any_blocks _ _ _ _ _ _).2, Bool.false_and, Bool.false_or, hc, Bool.false_eq_true, if_false,
        Option.isSome_none, requestedOk, Dialect.isMySQL, Bool.not_false, Bool.true_or,
        Bool.and_true, beq_self_eq_true, Bool.or_true, Bool.and_eq_true]
      refine ⟨⟨⟨k1, k2⟩, ?_⟩, ⟨⟨⟨⟨q1, q2⟩, ?_⟩, ?_⟩, ?_⟩⟩
      · -- unrequested default is kept
        cases hs : r.serverDefault <;> simp [Tri.given, plainText, dropD, hs]
      · -- requested default is reached
        simp only [plainDefaults, Bool.and_eq_true, Bool.not_eq_true'] at hp
        cases hs : r.serverDefault with
        | unset => rfl
        | drop => simp [Tri.given, plainText, dropD, hs]
        | set v =>
          cases v with
          | plain s => simp [plainText, defaultIs]
          | identity a s e => simp [hs, isIdentity, DefVal.isIdentity] at hp
          | computed s => simp [hs, isComputed, DefVal.isComputed] at hp
      · cases hnn : r.newName <;> simp [hname]
      · cases hcm : r.comment <;> simp_all [Tri.given]

end Lemmas.Alter
