import Lemmas.Alter.Basic
namespace Lemmas.Alter
open Model.Alter Spec.Alter

theorem exact_impl_mssql_1 (table column : String) (schema : Option String)   (sd : Tri DefVal)
    (newName : Option String) (comment : Tri String) (autoinc : Option Bool) (exType : Option Ty)
    (exNullable : Option Bool) (exDefault : Tri DefVal) (exComment : Option String) (exAutoinc : Option Bool)
    (usingE : Option String) (init : ColState)
    (hp : plainDefaults ⟨table, column, schema, none, none, sd, newName, comment, autoinc, exType, exNullable,
      exDefault, exComment, exAutoinc, usingE⟩ = true)
    (ha : agrees ⟨table, column, schema, none, none, sd, newName, comment, autoinc, exType, exNullable,
      exDefault, exComment, exAutoinc, usingE⟩ init = true) :
    exactOk .mssql ⟨table, column, schema, none, none, sd, newName, comment, autoinc, exType, exNullable,
      exDefault, exComment, exAutoinc, usingE⟩ init (implAlter .mssql ⟨table, column, schema, none, none, sd, newName,
      comment, autoinc, exType, exNullable, exDefault, exComment, exAutoinc, usingE⟩) = true := by
  obtain ⟨name, ty, n, dflt, c, ai⟩ := init
  have hname : name = column := by
    simp only [agrees, Bool.and_eq_true, beq_iff_eq] at ha
    exact ha.1.1.1.1.1
  subst hname
  simp only [plainDefaults, Bool.and_eq_true, Bool.not_eq_true'] at hp
  obtain ⟨hI, hC⟩ := hp
  cases exType <;> cases exNullable <;> cases newName <;> cases comment <;>
    cases sd <;> cases exDefault <;> c13_unfold

theorem exact_impl_mssql_2 (table column : String) (schema : Option String)  (nn : Bool) (sd : Tri DefVal)
    (newName : Option String) (comment : Tri String) (autoinc : Option Bool) (exType : Option Ty)
    (exNullable : Option Bool) (exDefault : Tri DefVal) (exComment : Option String) (exAutoinc : Option Bool)
    (usingE : Option String) (init : ColState)
    (hp : plainDefaults ⟨table, column, schema, none, some nn, sd, newName, comment, autoinc, exType, exNullable,
      exDefault, exComment, exAutoinc, usingE⟩ = true)
    (ha : agrees ⟨table, column, schema, none, some nn, sd, newName, comment, autoinc, exType, exNullable,
      exDefault, exComment, exAutoinc, usingE⟩ init = true) :
    exactOk .mssql ⟨table, column, schema, none, some nn, sd, newName, comment, autoinc, exType, exNullable,
      exDefault, exComment, exAutoinc, usingE⟩ init (implAlter .mssql ⟨table, column, schema, none, some nn, sd, newName,
      comment, autoinc, exType, exNullable, exDefault, exComment, exAutoinc, usingE⟩) = true := by
  obtain ⟨name, ty, n, dflt, c, ai⟩ := init
  have hname : name = column := by
    simp only [agrees, Bool.and_eq_true, beq_iff_eq] at ha
    exact ha.1.1.1.1.1
  subst hname
  simp only [plainDefaults, Bool.and_eq_true, Bool.not_eq_true'] at hp
  obtain ⟨hI, hC⟩ := hp
  cases exType <;> cases exNullable <;> cases newName <;> cases comment <;>
    cases sd <;> cases exDefault <;> c13_unfold

theorem exact_impl_mssql_3 (table column : String) (schema : Option String) (t : Ty)  (sd : Tri DefVal)
    (newName : Option String) (comment : Tri String) (autoinc : Option Bool) (exType : Option Ty)
    (exNullable : Option Bool) (exDefault : Tri DefVal) (exComment : Option String) (exAutoinc : Option Bool)
    (usingE : Option String) (init : ColState)
    (hp : plainDefaults ⟨table, column, schema, some t, none, sd, newName, comment, autoinc, exType, exNullable,
      exDefault, exComment, exAutoinc, usingE⟩ = true)
    (ha : agrees ⟨table, column, schema, some t, none, sd, newName, comment, autoinc, exType, exNullable,
      exDefault, exComment, exAutoinc, usingE⟩ init = true) :
    exactOk .mssql ⟨table, column, schema, some t, none, sd, newName, comment, autoinc, exType, exNullable,
      exDefault, exComment, exAutoinc, usingE⟩ init (implAlter .mssql ⟨table, column, schema, some t, none, sd, newName,
      comment, autoinc, exType, exNullable, exDefault, exComment, exAutoinc, usingE⟩) = true := by
  obtain ⟨name, ty, n, dflt, c, ai⟩ := init
  have hname : name = column := by
    simp only [agrees, Bool.and_eq_true, beq_iff_eq] at ha
    exact ha.1.1.1.1.1
  subst hname
  simp only [plainDefaults, Bool.and_eq_true, Bool.not_eq_true'] at hp
  obtain ⟨hI, hC⟩ := hp
  cases exType <;> cases exNullable <;> cases newName <;> cases comment <;>
    cases sd <;> cases exDefault <;> c13_unfold

theorem exact_impl_mssql_4 (table column : String) (schema : Option String) (t : Ty) (nn : Bool) (sd : Tri DefVal)
    (newName : Option String) (comment : Tri String) (autoinc : Option Bool) (exType : Option Ty)
    (exNullable : Option Bool) (exDefault : Tri DefVal) (exComment : Option String) (exAutoinc : Option Bool)
    (usingE : Option String) (init : ColState)
    (hp : plainDefaults ⟨table, column, schema, some t, some nn, sd, newName, comment, autoinc, exType, exNullable,
      exDefault, exComment, exAutoinc, usingE⟩ = true)
    (ha : agrees ⟨table, column, schema, some t, some nn, sd, newName, comment, autoinc, exType, exNullable,
      exDefault, exComment, exAutoinc, usingE⟩ init = true) :
    exactOk .mssql ⟨table, column, schema, some t, some nn, sd, newName, comment, autoinc, exType, exNullable,
      exDefault, exComment, exAutoinc, usingE⟩ init (implAlter .mssql ⟨table, column, schema, some t, some nn, sd, newName,
      comment, autoinc, exType, exNullable, exDefault, exComment, exAutoinc, usingE⟩) = true := by
  obtain ⟨name, ty, n, dflt, c, ai⟩ := init
  have hname : name = column := by
    simp only [agrees, Bool.and_eq_true, beq_iff_eq] at ha
    exact ha.1.1.1.1.1
  subst hname
  simp only [plainDefaults, Bool.and_eq_true, Bool.not_eq_true'] at hp
  obtain ⟨hI, hC⟩ := hp
  cases exType <;> cases exNullable <;> cases newName <;> cases comment <;>
    cases sd <;> cases exDefault <;> c13_unfold

theorem exact_impl_mssql (r : Req) (init : ColState)
    (hp : plainDefaults r = true) (ha : agrees r init = true) :
    exactOk .mssql r init (implAlter .mssql r) = true := by
  obtain ⟨table, column, schema, type_, nullable, sd, newName, comment, autoinc, exType, exNullable,
    exDefault, exComment, exAutoinc, usingE⟩ := r
  cases type_ <;> cases nullable
  · exact exact_impl_mssql_1 _ _ _ _ _ _ _ _ _ _ _ _ _ _ hp ha
  · exact exact_impl_mssql_2 _ _ _ _ _ _ _ _ _ _ _ _ _ _ _ hp ha
  · exact exact_impl_mssql_3 _ _ _ _ _ _ _ _ _ _ _ _ _ _ _ hp ha
  · exact exact_impl_mssql_4 _ _ _ _ _ _ _ _ _ _ _ _ _ _ _ _ hp ha
end Lemmas.Alter
