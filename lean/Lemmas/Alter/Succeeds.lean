import Lemmas.Alter.Mssql
import Lemmas.Alter.Address
/-! no spurious refusal: an expressible request (`Spec.Alter.mustSucceed`) does not raise -/
namespace Lemmas.Alter
open Model.Alter Spec.Alter

macro "c13_err" : tactic =>
  `(tactic| simp_all [implAlter, defaultAlter, pgAlter, defaultConstructs, emitAll, compile,
      Out.ok, Out.fail, Dialect.isMySQL, Tri.given, Tri.val?, isComputed, isIdentity,
      DefVal.isComputed, DefVal.isIdentity, renderDefault, pgIdentityOk, oracleIdentityOk, identOpts])

theorem andThen_err_none (a b : Out) (ha : a.err = none) (hb : b.err = none) : (a.andThen b).err = none := by
  simp [Out.andThen, ha, hb]

/-- default / sqlite: plain defaults, no comment change -/
theorem succeeds_generic (d : Dialect) (hd : d = .default ∨ d = .sqlite) (r : Req)
    (hI : isIdentity r.serverDefault r.exDefault = false) (hC : isComputed r.serverDefault r.exDefault = false)
    (hcm : r.comment = .unset) : (implAlter d r).err = none := by
  obtain ⟨table, column, schema, type_, nullable, sd, newName, comment, autoinc, exType, exNullable,
    exDefault, exComment, exAutoinc, usingE⟩ := r
  simp only at hcm hI hC
  subst hcm
  rcases hd with rfl | rfl <;> cases type_ <;> cases nullable <;> cases newName <;>
    (cases sd with
     | unset => c13_err
     | drop => simp [implAlter, defaultAlter, defaultConstructs, emitAll, compile, Out.ok, Out.fail,
         Dialect.isMySQL, Tri.val?, hI, hC]
     | set v => cases v <;> c13_err)

theorem succeeds_oracle (r : Req)
    (hdef : (!isIdentity r.serverDefault r.exDefault && !isComputed r.serverDefault r.exDefault ||
      oracleIdentityOk r) = true) : (implAlter .oracle r).err = none := by
  obtain ⟨table, column, schema, type_, nullable, sd, newName, comment, autoinc, exType, exNullable,
    exDefault, exComment, exAutoinc, usingE⟩ := r
  cases type_ <;> cases nullable <;> cases newName <;> cases comment <;>
    (cases sd with
     | unset => c13_err
     | drop =>
       cases exDefault with
       | unset => c13_err
       | drop => c13_err
       | set w => cases w <;> c13_err
     | set v =>
       cases v with
       | plain s =>
         cases exDefault with
         | unset => c13_err
         | drop => c13_err
         | set w => cases w <;> c13_err
       | identity a st =>
         cases exDefault with
         | unset => c13_err
         | drop => c13_err
         | set w => cases w <;> c13_err
       | computed s => c13_err)

theorem succeeds_postgresql (r : Req)
    (hdef : (!isIdentity r.serverDefault r.exDefault && !isComputed r.serverDefault r.exDefault ||
      pgIdentityOk r) = true)
    (hu : (r.usingE.isNone || r.type_.isSome) = true) : (implAlter .postgresql r).err = none := by
  obtain ⟨table, column, schema, type_, nullable, sd, newName, comment, autoinc, exType, exNullable,
    exDefault, exComment, exAutoinc, usingE⟩ := r
  cases usingE <;> cases type_ <;> cases nullable <;> cases newName <;> cases comment <;>
    (cases sd with
     | unset => c13_err
     | drop =>
       cases exDefault with
       | unset => c13_err
       | drop => c13_err
       | set w => cases w <;> c13_err
     | set v =>
       cases v with
       | plain s =>
         cases exDefault with
         | unset => c13_err
         | drop => c13_err
         | set w => cases w <;> c13_err
       | identity a st =>
         cases exDefault with
         | unset => c13_err
         | drop => c13_err
         | set w => cases w <;> c13_err
       | computed s => c13_err)

theorem succeeds_mysqlFamily (d : Dialect) (_hd : d.isMySQL = true) (r : Req) (hp : plainDefaults r = true)
    (hty : (r.type_.isSome || r.exType.isSome) = true) : (mysqlAlter d r).err = none := by
  have hpl := myDefault_plain r hp
  have hmy : ∃ ty, myTy r = some ty := by
    unfold myTy
    cases ht : r.type_ <;> cases he : r.exType <;> simp_all
  obtain ⟨ty, hmy⟩ := hmy
  rw [mysqlAlter_eq d r hp]
  simp only [plainDefaults, Bool.and_eq_true, Bool.not_eq_true'] at hp
  split
  · simp [emitAll, compile, hmy, colspec_plain _ _ _ hpl, Out.ok]
  · split
    · simp [emitAll, compile, hmy, colspec_plain _ _ _ hpl, Out.ok]
    · split
      · cases hs : r.serverDefault with
        | unset => simp [emitAll, compile, Tri.val?, Out.ok]
        | drop => simp [emitAll, compile, Tri.val?, Out.ok]
        | set v =>
          cases v with
          | plain s => simp [emitAll, compile, Tri.val?, Out.ok, renderDefault]
          | identity a s => simp [hs, isIdentity, DefVal.isIdentity] at hp
          | computed s => simp [hs, isComputed, DefVal.isComputed] at hp
      · rfl

theorem succeeds_mssql (r : Req) (hp : plainDefaults r = true) (hcm : r.comment = .unset)
    (hn : (r.nullable.isNone || r.type_.isSome || r.exType.isSome) = true) : (mssqlAlter r).err = none := by
  rw [mssqlAlter_blocks r hp, blockD_eq r hp, blockN_eq, blockA_eq]
  have ha : ∃ a, aOf r = some a := by
    unfold aOf
    cases h1 : r.nullable <;> cases h2 : r.type_ <;> cases h3 : r.exType <;> cases h4 : r.exNullable <;> simp_all
  obtain ⟨a, ha⟩ := ha
  simp [ha, hcm, Tri.given, Out.andThen]

theorem succeeds_impl (d : Dialect) (r : Req) (h : mustSucceed d r = true) : (implAlter d r).err = none := by
  simp only [mustSucceed, Bool.and_eq_true] at h
  obtain ⟨⟨⟨⟨⟨h1, h2⟩, h3⟩, h4⟩, h5⟩, -⟩ := h
  cases d with
  | default =>
    simp [Dialect.isMySQL] at h1 h2
    exact succeeds_generic _ (Or.inl rfl) r h1.1 h1.2 (by cases hc : r.comment <;> simp_all [Tri.given])
  | sqlite =>
    simp [Dialect.isMySQL] at h1 h2
    exact succeeds_generic _ (Or.inr rfl) r h1.1 h1.2 (by cases hc : r.comment <;> simp_all [Tri.given])
  | oracle => exact succeeds_oracle r (by simpa using h1)
  | postgresql => exact succeeds_postgresql r (by simpa using h1) (by simpa using h3)
  | mysql =>
    simp [Dialect.isMySQL] at h1 h4
    exact succeeds_mysqlFamily _ rfl r (by simp [plainDefaults, h1]) (by simpa using h4)
  | mariadb =>
    simp [Dialect.isMySQL] at h1 h4
    exact succeeds_mysqlFamily _ rfl r (by simp [plainDefaults, h1]) (by simpa using h4)
  | mssql =>
    simp [Dialect.isMySQL] at h1 h2 h5
    exact succeeds_mssql r (by simp [plainDefaults, h1]) (by cases hc : r.comment <;> simp_all [Tri.given])
      (by simpa using h5)

theorem succeeds (d : Dialect) (r : Req) (h : mustSucceed d r = true) : (alterColumn d r).err = none := by
  have himpl := succeeds_impl d r h
  simp only [mustSucceed, Bool.and_eq_true] at h
  obtain ⟨-, h6⟩ := h
  unfold alterColumn
  apply andThen_err_none
  · cases he : r.exType with
    | none => cases r.type_ <;> rfl
    | some et =>
      cases ht : r.type_ with
      | none => rfl
      | some t =>
        simp only [dropTypeConstraint]
        cases hck : et.ck with
        | none => rfl
        | some nm =>
          cases nm with
          | some n => cases d <;> simp [Out.ok, emitAll, compile]
          | none => cases d <;> simp_all [Out.ok, emitAll, compile, Dialect.isMySQL]
  · apply andThen_err_none _ _ himpl
    cases ht : r.type_ with
    | none => rfl
    | some t =>
      simp only [addTypeConstraint]
      cases t.ck with
      | none => rfl
      | some nm => cases d <;> simp [Out.ok, emitAll, compile]

end Lemmas.Alter
