import Lemmas.Alter.Basic
/-! a type change is complete: the old type's named CHECK is dropped, the new type's CHECK is added -/
namespace Lemmas.Alter
open Model.Alter Spec.Alter

def preOut (d : Dialect) (r : Req) : Out :=
  match r.exType, r.type_ with
  | some et, some _ => dropTypeConstraint d (tref r) r.column et
  | _, _ => Out.ok

def postOut (d : Dialect) (r : Req) : Out :=
  match r.type_ with
  | some t => addTypeConstraint d (tref r) (newColumn r) t
  | none => Out.ok

theorem alterColumn_parts (d : Dialect) (r : Req) :
    alterColumn d r = (preOut d r).andThen ((implAlter d r).andThen (postOut d r)) := rfl

theorem andThen_ok_inv (a b : Out) (h : (a.andThen b).err = none) :
    a.err = none ∧ b.err = none ∧ (a.andThen b).stmts = a.stmts ++ b.stmts := by
  unfold Out.andThen at *
  cases ha : a.err with
  | some e => simp [ha] at h
  | none => simp [ha] at h ⊢; exact h

theorem alterColumn_complete (d : Dialect) (r : Req) :
    constraintComplete d r (alterColumn d r) = true := by
  unfold constraintComplete
  cases herr : (alterColumn d r).err with
  | some e => simp
  | none =>
    rw [alterColumn_parts] at herr ⊢
    obtain ⟨-, h2, h3⟩ := andThen_ok_inv _ _ herr
    obtain ⟨-, -, h5⟩ := andThen_ok_inv _ _ h2
    simp only [Option.isSome_none, Bool.false_or, h3, h5, List.any_append, Bool.and_eq_true]
    constructor
    · cases ht : r.type_ with
      | none => rfl
      | some t =>
        cases he : r.exType with
        | none => rfl
        | some e =>
          cases hck : e.ck with
          | none => simp [hck]
          | some nm =>
            cases nm with
            | none => simp [hck]
            | some n =>
              cases d <;>
                simp [preOut, ht, he, dropTypeConstraint, hck, emitAll, compile, Out.ok, dropsTypeCk,
                  Dialect.isMySQL, isDropOf]
    · cases ht : r.type_ with
      | none => rfl
      | some t =>
        cases hck : t.ck with
        | none => simp [hck]
        | some nm =>
          cases d <;>
            simp [postOut, ht, addTypeConstraint, hck, emitAll, compile, Out.ok, addsTypeCk, isAddOf]

end Lemmas.Alter
