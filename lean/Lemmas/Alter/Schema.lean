import Lemmas.Alter.Basic
/-! every statement the model emits names the requested table and schema -/
namespace Lemmas.Alter
open Model.Alter Spec.Alter

/-- all statements of an output name table reference `t` -/
def allT (t : TRef) (o : Out) : Bool :=
  o.stmts.all (fun st => Stmt.tref st == t && (Stmt.objRefs st).all (· == t))

theorem compile_tref (d : Dialect) (t : TRef) (c : String) (k : Construct) (s : Stmt)
    (h : compile d t c k = .ok s) : Stmt.tref s = t ∧ (Stmt.objRefs s).all (· == t) = true := by
  cases k <;> cases d <;> simp [compile, Dialect.isMySQL] at h <;>
    (try (repeat' split at h)) <;> simp_all [Stmt.tref, Stmt.objRefs] <;>
    (try (subst h; simp [Stmt.tref, Stmt.objRefs]))

theorem allT_ok (t : TRef) : allT t Out.ok = true := rfl
theorem allT_fail (t : TRef) (e : Err) : allT t (Out.fail e) = true := rfl

theorem allT_andThen (t : TRef) (a b : Out) (ha : allT t a = true) (hb : allT t b = true) :
    allT t (a.andThen b) = true := by
  unfold Out.andThen
  cases a.err with
  | some e => simpa using ha
  | none =>
    simp only [allT, List.all_append, Bool.and_eq_true] at *
    exact ⟨ha, hb⟩

theorem emitAll_allT (d : Dialect) (t : TRef) (c : String) (ks : List Construct) :
    allT t (emitAll d t c ks) = true := by
  induction ks with
  | nil => rfl
  | cons k ks ih =>
    unfold emitAll
    cases hc : compile d t c k with
    | error e => rfl
    | ok s =>
      obtain ⟨h1, h2⟩ := compile_tref d t c k s hc
      simp only [allT, List.all_cons, Bool.and_eq_true, beq_iff_eq] at *
      exact ⟨⟨h1, h2⟩, ih⟩

theorem implAlter_allT (d : Dialect) (r : Req) : allT (tref r) (implAlter d r) = true := by
  cases d with
  | default => exact emitAll_allT _ _ _ _
  | sqlite => exact emitAll_allT _ _ _ _
  | oracle => exact emitAll_allT _ _ _ _
  | postgresql =>
    simp only [implAlter, pgAlter]
    split
    · rfl
    · exact emitAll_allT _ _ _ _
  | mysql =>
    simp only [implAlter, mysqlAlter]
    apply allT_andThen
    · split
      · exact emitAll_allT _ _ _ _
      · rfl
    · repeat' split
      all_goals first | rfl | exact emitAll_allT _ _ _ _
  | mariadb =>
    simp only [implAlter, mysqlAlter]
    apply allT_andThen
    · split
      · exact emitAll_allT _ _ _ _
      · rfl
    · repeat' split
      all_goals first | rfl | exact emitAll_allT _ _ _ _
  | mssql =>
    simp only [implAlter, mssqlAlter]
    split
    · rfl
    · apply allT_andThen
      · exact emitAll_allT _ _ _ _
      · apply allT_andThen
        · split
          · apply allT_andThen
            · split
              · exact emitAll_allT _ _ _ _
              · rfl
            · split
              · exact emitAll_allT _ _ _ _
              · rfl
          · rfl
        · split
          · exact emitAll_allT _ _ _ _
          · rfl

theorem typeConstraint_allT (d : Dialect) (t : TRef) (c : String) (ty : Ty) :
    allT t (dropTypeConstraint d t c ty) = true ∧ allT t (addTypeConstraint d t c ty) = true := by
  unfold dropTypeConstraint addTypeConstraint
  cases ty.ck with
  | none => exact ⟨rfl, rfl⟩
  | some nm =>
    cases nm <;> cases d <;> simp [allT, Out.ok, Out.fail, emitAll, compile, Stmt.tref, Stmt.objRefs]

theorem alterColumn_allT (d : Dialect) (r : Req) :
    allT (tref r) (alterColumn d r) = true := by
  unfold alterColumn
  apply allT_andThen
  · cases r.exType <;> cases r.type_ <;> simp [allT_ok, (typeConstraint_allT _ _ _ _).1]
  · apply allT_andThen
    · exact implAlter_allT d r
    · cases r.type_ <;> simp [allT_ok, (typeConstraint_allT _ _ _ _).2]

end Lemmas.Alter
