import Lemmas.Alter.Basic
/-! every statement the model emits names the requested table and schema — except Oracle's
`COMMENT ON COLUMN` -/
namespace Lemmas.Alter
open Model.Alter Spec.Alter

def isCommentC : Construct → Bool
  | .columnComment _ => true
  | _ => false

/-- all statements of an output name table reference `t` -/
def allT (t : TRef) (o : Out) : Bool := o.stmts.all (fun st => Stmt.tref st == t)

theorem compile_tref (d : Dialect) (t : TRef) (c : String) (k : Construct) (s : Stmt)
    (h : compile d t c k = .ok s)
    (hk : d ≠ .oracle ∨ isCommentC k = false ∨ t.schema = none) : Stmt.tref s = t := by
  cases k <;> cases d <;> simp [compile, Dialect.isMySQL, isCommentC] at h hk <;>
    (try (repeat' split at h)) <;> simp_all [Stmt.tref] <;> (try (subst h; simp [Stmt.tref]))
  cases t; simp_all

theorem allT_ok (t : TRef) : allT t Out.ok = true := rfl
theorem allT_fail (t : TRef) (e : Err) : allT t (Out.fail e) = true := rfl

theorem allT_andThen (t : TRef) (a b : Out) (ha : allT t a = true) (hb : allT t b = true) :
    allT t (a.andThen b) = true := by
  unfold Out.andThen
  cases a.err with
  | some e => simpa using ha
  | none =>
    simp only [allT, List.all_append, Bool.and_eq_true] at *
    exact ⟨ha, hb⟩

theorem emitAll_allT (d : Dialect) (t : TRef) (c : String) (ks : List Construct)
    (hk : ∀ k ∈ ks, d ≠ .oracle ∨ isCommentC k = false ∨ t.schema = none) :
    allT t (emitAll d t c ks) = true := by
  induction ks with
  | nil => rfl
  | cons k ks ih =>
    unfold emitAll
    cases hc : compile d t c k with
    | error e => rfl
    | ok s =>
      have h1 := compile_tref d t c k s hc (hk k (by simp))
      have h2 := ih (fun k' hk' => hk k' (by simp [hk']))
      simp only [allT, List.all_cons, Bool.and_eq_true, beq_iff_eq] at *
      exact ⟨h1, h2⟩

theorem emitAll_allT_notOracle (d : Dialect) (hd : d ≠ .oracle) (t : TRef) (c : String)
    (ks : List Construct) : allT t (emitAll d t c ks) = true :=
  emitAll_allT d t c ks (fun _ _ => Or.inl hd)

theorem defaultConstructs_comment (r : Req) (k : Construct) (hk : k ∈ defaultConstructs r)
    (hc : isCommentC k = true) : r.comment ≠ .unset := by
  intro h
  unfold defaultConstructs at hk
  simp only [h, List.append_nil, List.mem_append] at hk
  rcases hk with ((hk | hk) | hk) | hk
  · cases hn : r.nullable <;> simp [hn] at hk; subst hk; simp [isCommentC] at hc
  · cases hs : r.serverDefault <;> simp [hs] at hk <;> (repeat' split at hk) <;> simp at hk <;>
      (subst hk; simp [isCommentC] at hc)
  · cases ht : r.type_ <;> simp [ht] at hk; subst hk; simp [isCommentC] at hc
  · cases hn : r.newName <;> simp [hn] at hk; subst hk; simp [isCommentC] at hc

/-- Oracle's COMMENT ON COLUMN is the only statement that does not carry the schema -/
def schemaHyp (d : Dialect) (r : Req) : Prop :=
  d ≠ .oracle ∨ r.comment = .unset ∨ (tref r).schema = none

theorem defaultAlter_allT (d : Dialect) (r : Req) (h : schemaHyp d r) :
    allT (tref r) (defaultAlter d r) = true := by
  unfold defaultAlter
  apply emitAll_allT
  intro k hk
  rcases h with h | h | h
  · exact Or.inl h
  · refine Or.inr (Or.inl ?_)
    cases hc : isCommentC k with
    | false => rfl
    | true => exact absurd h (defaultConstructs_comment r k hk hc)
  · exact Or.inr (Or.inr h)

theorem implAlter_allT (d : Dialect) (r : Req) (h : schemaHyp d r) :
    allT (tref r) (implAlter d r) = true := by
  cases d with
  | default => exact defaultAlter_allT _ r h
  | sqlite => exact defaultAlter_allT _ r h
  | oracle => exact defaultAlter_allT _ r h
  | postgresql =>
    simp only [implAlter, pgAlter]
    split
    · rfl
    · exact emitAll_allT_notOracle _ (by decide) _ _ _
  | mysql =>
    simp only [implAlter, mysqlAlter]
    apply allT_andThen
    · split
      · exact emitAll_allT_notOracle _ (by decide) _ _ _
      · rfl
    · repeat' split
      all_goals first | rfl | exact emitAll_allT_notOracle _ (by decide) _ _ _
  | mariadb =>
    simp only [implAlter, mysqlAlter]
    apply allT_andThen
    · split
      · exact emitAll_allT_notOracle _ (by decide) _ _ _
      · rfl
    · repeat' split
      all_goals first | rfl | exact emitAll_allT_notOracle _ (by decide) _ _ _
  | mssql =>
    simp only [implAlter, mssqlAlter]
    split
    · rfl
    · apply allT_andThen
      · exact emitAll_allT_notOracle _ (by decide) _ _ _
      · apply allT_andThen
        · split
          · apply allT_andThen
            · split
              · exact emitAll_allT_notOracle _ (by decide) _ _ _
              · rfl
            · split
              · exact emitAll_allT_notOracle _ (by decide) _ _ _
              · rfl
          · rfl
        · split
          · exact emitAll_allT_notOracle _ (by decide) _ _ _
          · rfl

theorem typeConstraint_allT (d : Dialect) (t : TRef) (c : String) (ty : Ty) :
    allT t (dropTypeConstraint d t c ty) = true ∧ allT t (addTypeConstraint d t c ty) = true := by
  unfold dropTypeConstraint addTypeConstraint
  cases ty.ck with
  | none => exact ⟨rfl, rfl⟩
  | some nm =>
    cases nm <;> cases d <;> simp [allT, Out.ok, Out.fail, emitAll, compile, Stmt.tref]

theorem alterColumn_allT (d : Dialect) (r : Req) (h : schemaHyp d r) :
    allT (tref r) (alterColumn d r) = true := by
  unfold alterColumn
  apply allT_andThen
  · cases r.exType <;> cases r.type_ <;> simp [allT_ok, (typeConstraint_allT _ _ _ _).1]
  · apply allT_andThen
    · exact implAlter_allT d r h
    · cases r.type_ <;> simp [allT_ok, (typeConstraint_allT _ _ _ _).2]

end Lemmas.Alter
