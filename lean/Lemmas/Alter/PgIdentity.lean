import Lemmas.Alter.Basic
/-! PostgreSQL identity columns: the transitions the identity visitor supports
(`None -> Identity` with the absence stated, `Identity -> None`, and an identity column whose
default is not touched: whole-output theorem; `Identity -> Identity`: the ALTER statement built
from the option diff takes an identity column to the requested identity) -/
namespace Lemmas.Alter
open Model.Alter Spec.Alter

/-- the identity transitions `visit_identity_column` (postgresql) is written for -/
def identitySupported (r : Req) : Bool :=
  match r.serverDefault, r.exDefault with
  | .set (.identity _ _ _), .drop => true
  | .drop, .set (.identity _ _ _) => true
  | .unset, .set (.identity _ _ _) => true
  | _, _ => false

theorem exact_impl_postgresql_identity (r : Req) (init : ColState)
    (hs : identitySupported r = true) (ha : agrees r init = true) :
    exactOk .postgresql r init (implAlter .postgresql r) = true := by
  obtain ⟨table, column, schema, type_, nullable, sd, newName, comment, autoinc, exType, exNullable,
    exDefault, exComment, exAutoinc, usingE⟩ := r
  obtain ⟨name, ty, n, dflt, c, ai⟩ := init
  simp only [agrees, Bool.and_eq_true] at ha
  obtain ⟨⟨⟨⟨⟨hname, -⟩, -⟩, hd⟩, -⟩, -⟩ := ha
  simp only [beq_iff_eq] at hname
  subst hname
  cases sd with
  | unset =>
    cases exDefault with
    | set v =>
      cases usingE <;> cases type_ <;> cases nullable <;> cases newName <;> cases comment <;> c13_unfold
    | unset => simp [identitySupported] at hs
    | drop => simp [identitySupported] at hs
  | drop =>
    cases exDefault with
    | set v =>
      cases v with
      | identity ia is ie =>
        cases usingE <;> cases type_ <;> cases nullable <;> cases newName <;> cases comment <;> c13_unfold
      | plain s => simp [identitySupported] at hs
      | computed s => simp [identitySupported] at hs
    | unset => simp [identitySupported] at hs
    | drop => simp [identitySupported] at hs
  | set v =>
    cases v with
    | identity ma ms me =>
      cases exDefault with
      | drop =>
        cases usingE <;> cases type_ <;> cases nullable <;> cases newName <;> cases comment <;> c13_unfold
      | set w =>
        cases w with
        | identity ia is ie => simp [identitySupported] at hs
        | plain s => simp [identitySupported] at hs
        | computed s => simp [identitySupported] at hs
      | unset => simp [identitySupported] at hs
    | plain s => simp [identitySupported] at hs
    | computed s => simp [identitySupported] at hs

theorem extra_all_ok (me ie : List (String × String)) :
    me.all (fun kv => (me.filter (fun kv => !(ie.contains kv)) ++ ie).contains kv) = true := by
  rw [List.all_eq_true]
  intro kv hkv
  by_cases h : ie.contains kv = true
  · simp only [List.contains_iff_mem] at h ⊢
    exact List.mem_append_right _ h
  · simp only [List.contains_iff_mem] at h ⊢
    apply List.mem_append_left
    simp [List.mem_filter, hkv, h]

/-- `Identity -> Identity`: the statement built from the option diff (`SET GENERATED ...`,
`SET <option> ...` for every option the request sets differently, `SET START WITH n`) takes an
identity column with the stated options to the requested identity and touches nothing else -/
theorem pg_identity_alter_ok (t : TRef) (s : ColState) (ma ia : Bool) (ms is : Option Nat)
    (me ie : List (String × String))
    (hd : s.default = some (.identity ia is ie)) :
    ∃ st, compile .postgresql t s.name (.identityDefault (some (.identity ma ms me)) (.set (.identity ia is ie))) = .ok st ∧
      defaultIs (applyStmt s st).default (.identity ma ms me) = true ∧
      applyStmt s st = { s with default := (applyStmt s st).default } := by
  obtain ⟨name, ty, n, dflt, c, ai⟩ := s
  simp only at hd
  subst hd
  cases ma <;> cases ia <;> cases ms <;> cases is <;>
    simp [compile, identOpts, Tri.val?, DefVal.isIdentity, applyStmt, Stmt.col, effect, defaultIs] <;>
    (try (split <;> simp_all [applyStmt, Stmt.col, effect, defaultIs])) <;>
    (try (intro a b h; by_cases h2 : (a, b) ∈ ie <;> simp_all))

end Lemmas.Alter
