import Lemmas.Alter.Constraints
import Lemmas.Alter.Complete
/-! constraint statements appear exactly when a type change with a CHECK-bearing type is requested -/
namespace Lemmas.Alter
open Model.Alter Spec.Alter

/-- the request asks for a type change that involves a type-bound CHECK the dialect handles -/
def wantsConstraintStmt (d : Dialect) (r : Req) : Bool :=
  match r.type_ with
  | none => false
  | some t =>
    (dropsTypeCk d && (match r.exType with
      | some e => (match e.ck with | some (some _) => true | _ => false)
      | none => false)) ||
    (addsTypeCk d && t.ck.isSome)

theorem any_isConstraint_of_noCk (o : Out) (h : noCk o = true) : o.stmts.any isConstraint = false := by
  simp only [noCk, List.all_eq_true] at h
  rw [Bool.eq_false_iff]
  intro hc
  simp only [List.any_eq_true] at hc
  obtain ⟨st, hst, hi⟩ := hc
  have := h st hst
  simp [hi] at this

theorem constraints_iff_impl (d : Dialect) (r : Req) (hok : (alterColumn d r).err = none) :
    (alterColumn d r).stmts.any isConstraint = wantsConstraintStmt d r := by
  rw [alterColumn_parts] at hok ⊢
  obtain ⟨h1, h2, h3⟩ := andThen_ok_inv _ _ hok
  obtain ⟨-, -, h5⟩ := andThen_ok_inv _ _ h2
  rw [h3, h5]
  simp only [List.any_append, any_isConstraint_of_noCk _ (implAlter_noCk d r), Bool.false_or]
  unfold wantsConstraintStmt
  cases ht : r.type_ with
  | none => cases he : r.exType <;> simp [preOut, postOut, ht, he, Out.ok]
  | some t =>
    have hpost : (postOut d r).stmts.any isConstraint = (addsTypeCk d && t.ck.isSome) := by
      simp only [postOut, ht, addTypeConstraint]
      cases hck : t.ck with
      | none => simp [Out.ok]
      | some nm => cases d <;> simp [Out.ok, emitAll, compile, addsTypeCk, isConstraint]
    rw [hpost]
    congr 1
    cases he : r.exType with
    | none => simp [preOut, ht, he, Out.ok]
    | some e =>
      cases hck : e.ck with
      | none => simp [preOut, ht, he, dropTypeConstraint, hck, Out.ok]
      | some nm =>
        cases nm with
        | some n =>
          cases d <;> simp [preOut, ht, he, dropTypeConstraint, hck, Out.ok, emitAll, compile, dropsTypeCk,
            Dialect.isMySQL, isConstraint]
        | none =>
          -- an unnamed constraint cannot be dropped: on the dropping dialects the call raised (excluded by `hok`)
          simp only [preOut, ht, he, dropTypeConstraint, hck] at h1 ⊢
          cases d <;> simp_all [Out.ok, Out.fail, emitAll, compile, dropsTypeCk, Dialect.isMySQL]

end Lemmas.Alter
