import Lemmas.Alter.PgIdentity
/-! identity requests on PostgreSQL and Oracle, every supported direction (ADD GENERATED, the
option-diff ALTER, DROP IDENTITY, Oracle's MODIFY ... GENERATED ... AS IDENTITY (...)), for a request
that changes the server default only -/
namespace Lemmas.Alter
open Model.Alter Spec.Alter

/-- only the server default is requested -/
def defaultOnly (r : Req) : Bool :=
  r.type_.isNone && r.nullable.isNone && r.newName.isNone && !r.comment.given && r.usingE.isNone

macro "c13_ident" : tactic =>
  `(tactic| simp_all [implAlter, defaultAlter, pgAlter, defaultConstructs, emitAll, compile, Out.ok, Out.fail,
      exactOk, keepOk, requestedOk, agrees, final, applyStmt, Stmt.col, effect, restatesAll, restatesTyNull,
      Dialect.isMySQL, Tri.given, Tri.val?, normC, isComputed, isIdentity, DefVal.isComputed, DefVal.isIdentity,
      renderDefault, defaultIs, identOpts, pgIdentityOk, oracleIdentityOk, defaultOnly])

theorem exact_identity_only_pg (r : Req) (init : ColState) (ho : defaultOnly r = true)
    (hi : pgIdentityOk r = true) (ha : agrees r init = true) :
    exactOk .postgresql r init (implAlter .postgresql r) = true := by
  obtain ⟨table, column, schema, type_, nullable, sd, newName, comment, autoinc, exType, exNullable,
    exDefault, exComment, exAutoinc, usingE⟩ := r
  obtain ⟨name, ty, n, dflt, c, ai⟩ := init
  cases type_ <;> cases nullable <;> cases newName <;> cases comment <;> cases usingE <;>
    simp [defaultOnly, Tri.given] at ho
  cases sd with
  | unset => cases exDefault <;> c13_ident
  | drop =>
    cases exDefault with
    | set w => cases w <;> c13_ident
    | unset => c13_ident
    | drop => c13_ident
  | set v =>
    cases v with
    | plain s => cases exDefault <;> c13_ident
    | computed s => cases exDefault <;> c13_ident
    | identity ma ms me =>
      cases exDefault with
      | unset => c13_ident
      | drop => c13_ident
      | set w =>
        cases w with
        | plain s => c13_ident
        | computed s => c13_ident
        | identity ia is ie =>
          cases ma <;> cases ia <;> cases ms <;> cases is <;> c13_ident <;>
            (try (split <;> simp_all)) <;>
            (try (intro a b h; by_cases h2 : (a, b) ∈ ie <;> simp_all))

theorem exact_identity_only_oracle (r : Req) (init : ColState) (ho : defaultOnly r = true)
    (hi : oracleIdentityOk r = true) (ha : agrees r init = true) :
    exactOk .oracle r init (implAlter .oracle r) = true := by
  obtain ⟨table, column, schema, type_, nullable, sd, newName, comment, autoinc, exType, exNullable,
    exDefault, exComment, exAutoinc, usingE⟩ := r
  obtain ⟨name, ty, n, dflt, c, ai⟩ := init
  cases type_ <;> cases nullable <;> cases newName <;> cases comment <;> cases usingE <;>
    simp [defaultOnly, Tri.given] at ho
  cases sd with
  | unset => cases exDefault <;> c13_ident
  | drop =>
    cases exDefault with
    | set w => cases w <;> c13_ident
    | unset => c13_ident
    | drop => c13_ident
  | set v =>
    cases v with
    | plain s => cases exDefault <;> c13_ident
    | computed s => cases exDefault <;> c13_ident
    | identity ma ms me =>
      cases exDefault with
      | unset => cases ms <;> c13_ident
      | drop => cases ms <;> c13_ident
      | set w => cases w <;> cases ms <;> c13_ident

end Lemmas.Alter
