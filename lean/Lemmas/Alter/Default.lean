import Lemmas.Alter.Basic
namespace Lemmas.Alter
open Model.Alter Spec.Alter

theorem exact_impl_default (r : Req) (init : ColState)
    (hp : plainDefaults r = true) (ha : agrees r init = true) :
    exactOk .default r init (implAlter .default r) = true := by
  obtain ⟨table, column, schema, type_, nullable, sd, newName, comment, autoinc, exType, exNullable,
    exDefault, exComment, exAutoinc, usingE⟩ := r
  obtain ⟨name, ty, n, dflt, c, ai⟩ := init
  have hname : name = column := by
    simp only [agrees, Bool.and_eq_true, beq_iff_eq] at ha
    exact ha.1.1.1.1.1
  subst hname
  clear ha
  simp only [plainDefaults, Bool.and_eq_true, Bool.not_eq_true'] at hp
  obtain ⟨hI, hC⟩ := hp
  cases type_ <;> cases nullable <;> cases newName <;> cases comment <;>
    (cases sd with
     | unset => clear hI hC; c13_unfold
     | drop => simp [implAlter, defaultAlter, defaultConstructs, emitAll, compile, Out.ok, Out.fail,
        exactOk, keepOk, requestedOk, final, applyStmt, Stmt.col, effect, restatesAll, restatesTyNull,
        Dialect.isMySQL, Tri.given, Tri.val?, normC, hI, hC]
     | set v => cases v <;> c13_unfold)
end Lemmas.Alter
