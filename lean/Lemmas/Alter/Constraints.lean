import Lemmas.Alter.Address
/-!
The schema-type CHECK constraint is only touched together with a type change: the dialect's
`alter_column` never emits a constraint statement, `toimpl.alter_column` drops the constraint of
the stated existing type only under `if existing_type and type_:` and adds the one of the new type
only under `if type_:`.
-/
namespace Lemmas.Alter
open Model.Alter Spec.Alter

def ckConstruct : Construct → Bool
  | .dropConstraint _ | .addConstraint _ => true
  | _ => false

/-- no statement of the output is a constraint statement -/
def noCk (o : Out) : Bool := o.stmts.all (fun st => !isConstraint st)

theorem compile_noCk (d : Dialect) (t : TRef) (c : String) (k : Construct) (s : Stmt)
    (h : compile d t c k = .ok s) (hk : ckConstruct k = false) : isConstraint s = false := by
  cases k <;> cases d <;> simp [compile, Dialect.isMySQL, ckConstruct] at h hk <;>
    (try (repeat' split at h)) <;> simp_all [isConstraint] <;> (try (subst h; simp [isConstraint]))

theorem noCk_ok : noCk Out.ok = true := rfl
theorem noCk_fail (e : Err) : noCk (Out.fail e) = true := rfl

theorem noCk_andThen (a b : Out) (ha : noCk a = true) (hb : noCk b = true) : noCk (a.andThen b) = true := by
  unfold Out.andThen
  cases a.err with
  | some e => simpa using ha
  | none =>
    simp only [noCk, List.all_append, Bool.and_eq_true] at *
    exact ⟨ha, hb⟩

theorem emitAll_noCk (d : Dialect) (t : TRef) (c : String) (ks : List Construct)
    (hk : ∀ k ∈ ks, ckConstruct k = false) : noCk (emitAll d t c ks) = true := by
  induction ks with
  | nil => rfl
  | cons k ks ih =>
    unfold emitAll
    cases hc : compile d t c k with
    | error e => rfl
    | ok s =>
      have h1 := compile_noCk d t c k s hc (hk k (by simp))
      have h2 := ih (fun k' hk' => hk k' (by simp [hk']))
      simp only [noCk, List.all_cons, Bool.and_eq_true, h1, Bool.not_false, true_and] at *
      exact h2

theorem defaultConstructs_noCk (r : Req) : ∀ k ∈ defaultConstructs r, ckConstruct k = false := by
  intro k hk
  rw [defaultConstructs_split] at hk
  unfold front nameTail at hk
  simp only [List.mem_append] at hk
  rcases hk with (((hk | hk) | hk) | hk) | hk
  · cases hn : r.nullable <;> simp [hn] at hk; subst hk; rfl
  · cases hs : r.serverDefault <;> simp [hs] at hk <;> (repeat' split at hk) <;> simp at hk <;>
      (subst hk; rfl)
  · cases ht : r.type_ <;> simp [ht] at hk; subst hk; rfl
  · cases hc : r.comment <;> simp [hc] at hk <;> (subst hk; rfl)
  · cases hn : r.newName <;> simp [hn] at hk; subst hk; rfl

theorem implAlter_noCk (d : Dialect) (r : Req) : noCk (implAlter d r) = true := by
  cases d with
  | default => exact emitAll_noCk _ _ _ _ (defaultConstructs_noCk r)
  | sqlite => exact emitAll_noCk _ _ _ _ (defaultConstructs_noCk r)
  | oracle => exact emitAll_noCk _ _ _ _ (defaultConstructs_noCk r)
  | postgresql =>
    simp only [implAlter, pgAlter]
    split
    · rfl
    · apply emitAll_noCk
      intro k hk
      simp only [List.mem_append] at hk
      rcases hk with hk | hk
      · cases ht : r.type_ <;> simp [ht] at hk; subst hk; rfl
      · exact defaultConstructs_noCk _ k hk
  | mysql =>
    show noCk (mysqlAlter _ r) = true
    rw [mysqlAlter_shape]
    apply noCk_andThen
    · split
      · exact emitAll_noCk _ _ _ _ (defaultConstructs_noCk _)
      · rfl
    · repeat' split
      all_goals first
        | rfl
        | (apply emitAll_noCk; intro k hk; simp at hk; subst hk; rfl)
  | mariadb =>
    show noCk (mysqlAlter _ r) = true
    rw [mysqlAlter_shape]
    apply noCk_andThen
    · split
      · exact emitAll_noCk _ _ _ _ (defaultConstructs_noCk _)
      · rfl
    · repeat' split
      all_goals first
        | rfl
        | (apply emitAll_noCk; intro k hk; simp at hk; subst hk; rfl)
  | mssql =>
    simp only [implAlter, mssqlAlter]
    split
    · rfl
    · apply noCk_andThen
      · exact emitAll_noCk _ _ _ _ (defaultConstructs_noCk _)
      · apply noCk_andThen
        · split
          · apply noCk_andThen
            · split
              · apply emitAll_noCk; intro k hk; simp at hk; subst hk; rfl
              · rfl
            · split
              · apply emitAll_noCk; intro k hk; simp at hk; subst hk; rfl
              · rfl
          · rfl
        · split
          · apply emitAll_noCk; intro k hk; simp at hk; subst hk; rfl
          · rfl

theorem constraintOk_of_noCk (r : Req) (o : Out) (h : noCk o = true) : constraintOk r o.stmts = true := by
  simp only [noCk, constraintOk, List.all_eq_true] at *
  intro st hst
  have := h st hst
  cases st <;> simp_all [isConstraint, constraintStmtOk]

theorem constraintOk_andThen (r : Req) (a b : Out) (ha : constraintOk r a.stmts = true)
    (hb : constraintOk r b.stmts = true) : constraintOk r (a.andThen b).stmts = true := by
  unfold Out.andThen
  cases a.err with
  | some e => simpa using ha
  | none =>
    simp only [constraintOk, List.all_append, Bool.and_eq_true] at *
    exact ⟨ha, hb⟩

theorem alterColumn_constraintOk (d : Dialect) (r : Req) :
    constraintOk r (alterColumn d r).stmts = true := by
  unfold alterColumn
  apply constraintOk_andThen
  · cases he : r.exType with
    | none => cases r.type_ <;> rfl
    | some et =>
      cases ht : r.type_ with
      | none => rfl
      | some t =>
        simp only [dropTypeConstraint]
        cases hck : et.ck with
        | none => rfl
        | some nm =>
          cases nm <;> cases d <;>
            simp [constraintOk, constraintStmtOk, Out.ok, Out.fail, emitAll, compile, he, ht, hck]
  · apply constraintOk_andThen
    · exact constraintOk_of_noCk r _ (implAlter_noCk d r)
    · cases ht : r.type_ with
      | none => rfl
      | some t =>
        simp only [addTypeConstraint]
        cases hck : t.ck with
        | none => rfl
        | some nm =>
          cases d <;> simp [constraintOk, constraintStmtOk, Out.ok, emitAll, compile, ht, hck]

end Lemmas.Alter
