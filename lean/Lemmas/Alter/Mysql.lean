import Lemmas.Alter.Basic
/-!
MySQL / MariaDB: the output is one statement — `CHANGE` or `MODIFY` (both restate the column
definition), or `ALTER COLUMN ... SET/DROP DEFAULT`, or nothing, or an exception.  The restated
column is brought into a closed form (`myFin`) and the property is read off attribute by attribute.
-/
namespace Lemmas.Alter
open Model.Alter Spec.Alter

def myTy (r : Req) : Option Ty :=
  match r.type_ with
  | some t => some t
  | none => r.exType

def myNull (r : Req) : Bool :=
  match r.nullable with
  | some n => n
  | none => r.exNullable.getD true

def myDefault (r : Req) : Tri DefVal := if r.serverDefault.given then r.serverDefault else r.exDefault

def myAutoinc (r : Req) : Option Bool :=
  match r.autoinc with
  | some a => some a
  | none => r.exAutoinc

def myComment (r : Req) : Option String :=
  match r.comment with
  | .unset => r.exComment
  | c => c.val?

def myPlainText : Tri DefVal → Option String
  | .set (.plain s) => some s
  | _ => none

/-- the column as restated by `CHANGE` / `MODIFY` -/
def myFin (r : Req) (ty : Ty) : ColState :=
  { name := r.newName.getD r.column, ty := ty.name, nullable := myNull r,
    default := (myPlainText (myDefault r)).map DefVal.plain,
    comment := normC (myComment r), autoinc := myAutoinc r == some true }

theorem ok_andThen (b : Out) : Out.ok.andThen b = b := by
  cases b; simp [Out.ok, Out.andThen]

theorem mysqlAlter_eq (d : Dialect) (r : Req) (hp : plainDefaults r = true) :
    mysqlAlter d r =
      if r.newName.isSome || functionalDefault (myTy r) r.serverDefault then
        emitAll d (tref r) r.column
          [.mysqlChange (r.newName.getD r.column) (myTy r) (myNull r) (myDefault r) (myAutoinc r) (myComment r)]
      else if r.nullable.isSome || r.type_.isSome || r.autoinc.isSome || r.comment.given then
        emitAll d (tref r) r.column
          [.mysqlModify (myTy r) (myNull r) (myDefault r) (myAutoinc r) (myComment r)]
      else if r.serverDefault.given then
        emitAll d (tref r) r.column [.mysqlAlterDefault r.serverDefault.val?]
      else Out.ok := by
  simp only [plainDefaults, Bool.and_eq_true, Bool.not_eq_true'] at hp
  unfold mysqlAlter
  simp only [hp.1, hp.2, Bool.or_false, Bool.false_eq_true, if_false, ok_andThen]
  rfl

theorem myDefault_plain (r : Req) (hp : plainDefaults r = true) (v : DefVal) (h : myDefault r = .set v) :
    ∃ s, v = .plain s := by
  simp only [plainDefaults, Bool.and_eq_true, Bool.not_eq_true'] at hp
  obtain ⟨hI, hC⟩ := hp
  unfold myDefault at h
  have hv : v.isIdentity = false ∧ v.isComputed = false := by
    cases hs : r.serverDefault <;> cases he : r.exDefault <;>
      simp_all [Tri.given, isIdentity, isComputed]
  cases v <;> simp_all [DefVal.isIdentity, DefVal.isComputed]

theorem colspec_plain (dflt : Tri DefVal) (ai : Option Bool) (cm : Option String)
    (h : ∀ v, dflt = .set v → ∃ s, v = .plain s) :
    mysqlColspec dflt ai cm = .ok (ai == some true, myPlainText dflt, normC cm) := by
  unfold mysqlColspec
  cases dflt with
  | unset => cases cm <;> simp [myPlainText, normC]
  | drop => cases cm <;> simp [myPlainText, normC]
  | set v =>
    obtain ⟨s, rfl⟩ := h v rfl
    cases cm <;> simp [myPlainText, normC, renderDefault]

theorem final_change (init : ColState) (r : Req) (ty : Ty) (hname : init.name = r.column) :
    final init [.mysqlChange (tref r) r.column (r.newName.getD r.column) ty.name (myNull r)
      (myAutoinc r == some true) (myPlainText (myDefault r)) (normC (myComment r))] = myFin r ty := by
  have hn : normC (normC (myComment r)) = normC (myComment r) := by
    cases myComment r with
    | none => rfl
    | some c => by_cases hc : c = "" <;> simp [normC, hc]
  simp [final, applyStmt, Stmt.col, effect, hname, myFin, hn]

theorem final_modify (init : ColState) (r : Req) (ty : Ty) (hname : init.name = r.column)
    (hnn : r.newName = none) :
    final init [.mysqlModify (tref r) r.column ty.name (myNull r)
      (myAutoinc r == some true) (myPlainText (myDefault r)) (normC (myComment r))] = myFin r ty := by
  have hn : normC (normC (myComment r)) = normC (myComment r) := by
    cases myComment r with
    | none => rfl
    | some c => by_cases hc : c = "" <;> simp [normC, hc]
  simp [final, applyStmt, Stmt.col, effect, hname, myFin, hn, hnn]

/-- the restated column is "existing overridden by requested" -/
theorem restated_ok (d : Dialect) (r : Req) (init : ColState) (ty : Ty)
    (hp : plainDefaults r = true) (ha : agrees r init = true) (hty : myTy r = some ty)
    (stmts : List Stmt) (h1 : stmts.any restatesAll = true) (h2 : stmts.any restatesTyNull = true) :
    keepOk r init (myFin r ty) stmts = true ∧ requestedOk d r (myFin r ty) = true := by
  simp only [agrees, Bool.and_eq_true] at ha
  obtain ⟨⟨⟨⟨⟨a1, a2⟩, a3⟩, a4⟩, a5⟩, a6⟩ := ha
  simp only [plainDefaults, Bool.and_eq_true, Bool.not_eq_true'] at hp
  obtain ⟨hI, hC⟩ := hp
  simp only [keepOk, requestedOk, h1, h2, Bool.true_and, Bool.and_eq_true, myFin]
  refine ⟨⟨⟨⟨⟨?_, ?_⟩, ?_⟩, ?_⟩, ?_⟩, ⟨⟨⟨⟨⟨?_, ?_⟩, ?_⟩, ?_⟩, ?_⟩, ?_⟩⟩
  · -- type kept
    unfold myTy at hty
    cases ht : r.type_ <;> cases he : r.exType <;> simp_all
  · -- nullability kept
    unfold myNull
    cases hn : r.nullable <;> cases he : r.exNullable <;> simp_all
  · -- default kept
    unfold myDefault
    cases hs : r.serverDefault <;> cases he : r.exDefault <;> simp_all [Tri.given, myPlainText]
    rename_i v
    cases v <;> simp_all [isIdentity, isComputed, DefVal.isIdentity, DefVal.isComputed]
  · -- comment kept
    unfold myComment
    cases hc : r.comment <;> cases he : r.exComment <;> simp_all [Tri.given, Tri.val?]
  · -- auto-increment kept
    unfold myAutoinc
    cases hc : r.autoinc <;> cases he : r.exAutoinc <;> simp_all
  · -- requested type
    unfold myTy at hty
    cases ht : r.type_ <;> simp_all
  · unfold myNull
    cases hn : r.nullable <;> simp_all
  · -- requested default
    unfold myDefault
    cases hs : r.serverDefault with
    | unset => rfl
    | drop => simp [Tri.given, myPlainText]
    | set v =>
      cases v <;> simp_all [Tri.given, myPlainText, defaultIs, isIdentity, isComputed, DefVal.isIdentity,
        DefVal.isComputed]
  · cases hn : r.newName <;> simp
  · unfold myComment
    cases hc : r.comment <;> simp_all [Tri.val?, normC]
  · unfold myAutoinc
    cases hc : r.autoinc <;> simp_all

theorem exact_impl_mysqlFamily (d : Dialect) (_hd : d.isMySQL = true) (r : Req) (init : ColState)
    (hp : plainDefaults r = true) (ha : agrees r init = true) :
    exactOk d r init (mysqlAlter d r) = true := by
  have hname : init.name = r.column := by
    simp only [agrees, Bool.and_eq_true, beq_iff_eq] at ha
    exact ha.1.1.1.1.1
  have hpl := myDefault_plain r hp
  rw [mysqlAlter_eq d r hp]
  by_cases hC : (r.newName.isSome || functionalDefault (myTy r) r.serverDefault) = true
  · -- CHANGE
    rw [if_pos hC]
    cases hty : myTy r with
    | none => simp [emitAll, compile, Out.fail, exactOk, final, keepOk_self]
    | some ty =>
      obtain ⟨k, q⟩ := restated_ok d r init ty hp ha hty
        [.mysqlChange (tref r) r.column (r.newName.getD r.column) ty.name (myNull r)
          (myAutoinc r == some true) (myPlainText (myDefault r)) (normC (myComment r))]
        (by simp [restatesAll]) (by simp [restatesTyNull])
      simp only [emitAll, compile, colspec_plain _ _ _ hpl, Out.ok, exactOk, final_change init r ty hname,
        k, q, Bool.true_and, Bool.or_true]
  · rw [if_neg hC]
    simp only [Bool.or_eq_true, not_or, Bool.not_eq_true] at hC
    have hnn : r.newName = none := by
      cases h : r.newName <;> simp_all
    by_cases hM : (r.nullable.isSome || r.type_.isSome || r.autoinc.isSome || r.comment.given) = true
    · -- MODIFY
      rw [if_pos hM]
      cases hty : myTy r with
      | none => simp [emitAll, compile, Out.fail, exactOk, final, keepOk_self]
      | some ty =>
        obtain ⟨k, q⟩ := restated_ok d r init ty hp ha hty
          [.mysqlModify (tref r) r.column ty.name (myNull r)
            (myAutoinc r == some true) (myPlainText (myDefault r)) (normC (myComment r))]
          (by simp [restatesAll]) (by simp [restatesTyNull])
        simp only [emitAll, compile, colspec_plain _ _ _ hpl, Out.ok, exactOk,
          final_modify init r ty hname hnn, k, q, Bool.true_and, Bool.or_true]
    · rw [if_neg hM]
      simp only [Bool.or_eq_true, not_or, Bool.not_eq_true] at hM
      obtain ⟨⟨⟨m1, m2⟩, m3⟩, m4⟩ := hM
      have e1 : r.nullable = none := by cases h : r.nullable <;> simp_all
      have e2 : r.type_ = none := by cases h : r.type_ <;> simp_all
      have e3 : r.autoinc = none := by cases h : r.autoinc <;> simp_all
      have e4 : r.comment = .unset := by cases h : r.comment <;> simp_all [Tri.given]
      simp only [plainDefaults, Bool.and_eq_true, Bool.not_eq_true'] at hp
      -- ALTER COLUMN ... SET/DROP DEFAULT, or nothing
      cases hs : r.serverDefault with
      | unset =>
        simp [hs, Tri.given, Out.ok, exactOk, final, keepOk_self, requestedOk, e1, e2, e3, e4, hnn, hname]
      | drop =>
        simp [hs, Tri.given, Tri.val?, emitAll, compile, Out.ok, exactOk, final, applyStmt, Stmt.col, effect,
          hname, keepOk, requestedOk, e1, e2, e3, e4, hnn, restatesAll, restatesTyNull]
      | set v =>
        cases v with
        | plain s =>
          simp [hs, Tri.given, Tri.val?, emitAll, compile, renderDefault, Out.ok, exactOk, final, applyStmt,
            Stmt.col, effect, hname, keepOk, requestedOk, e1, e2, e3, e4, hnn, restatesAll, restatesTyNull,
            defaultIs]
        | identity a s e => simp [hs, isIdentity, DefVal.isIdentity] at hp
        | computed s => simp [hs, isComputed, DefVal.isComputed] at hp

theorem exact_impl_mysql (r : Req) (init : ColState)
    (hp : plainDefaults r = true) (ha : agrees r init = true) :
    exactOk .mysql r init (implAlter .mysql r) = true :=
  exact_impl_mysqlFamily .mysql rfl r init hp ha

theorem exact_impl_mariadb (r : Req) (init : ColState)
    (hp : plainDefaults r = true) (ha : agrees r init = true) :
    exactOk .mariadb r init (implAlter .mariadb r) = true :=
  exact_impl_mysqlFamily .mariadb rfl r init hp ha

end Lemmas.Alter
