import Lemmas.Alter.Mysql
/-!
Addressing: every statement refers to the column by the name it has at that point of the script.
`AddrEnd c o n`: the statements of `o`, run on a column called `c`, are all well addressed, and if
`o` did not raise the column is called `n` afterwards.  The predicate composes along
`Out.andThen`; the renamesCol constructs (`ColumnName`, `MySQLChangeColumn`) only occur last.
-/
namespace Lemmas.Alter
open Model.Alter Spec.Alter

/-- the column's name after a list of statements -/
def endName (c : String) (l : List Stmt) : String := l.foldl nextName c

def AddrEnd (c : String) (o : Out) (n : String) : Prop :=
  addressOk c o.stmts = true ∧ (o.err = none → endName c o.stmts = n)

theorem addressOk_append (c : String) (a b : List Stmt) :
    addressOk c (a ++ b) = (addressOk c a && addressOk (endName c a) b) := by
  induction a generalizing c with
  | nil => simp [addressOk, endName]
  | cons x xs ih => simp [addressOk, endName, ih, Bool.and_assoc]

theorem endName_append (c : String) (a b : List Stmt) :
    endName c (a ++ b) = endName (endName c a) b := by
  simp [endName, List.foldl_append]

theorem addrEnd_ok (c : String) : AddrEnd c Out.ok c := ⟨rfl, fun _ => rfl⟩

theorem addrEnd_fail (c : String) (e : Err) (n : String) : AddrEnd c (Out.fail e) n :=
  ⟨rfl, fun h => by simp [Out.fail] at h⟩

theorem addrEnd_andThen (c m n : String) (a b : Out) (ha : AddrEnd c a m) (hb : AddrEnd m b n) :
    AddrEnd c (a.andThen b) n := by
  unfold Out.andThen
  cases hae : a.err with
  | some e => exact ⟨ha.1, fun h => by simp [hae] at h⟩
  | none =>
    have hm := ha.2 hae
    refine ⟨?_, fun h => ?_⟩
    · simp only [addressOk_append, hm, ha.1, hb.1, Bool.and_self]
    · simp only [endName_append, hm]
      exact hb.2 h

/-- constructs that rename the column -/
def renamesCol : Construct → Bool
  | .columnName _ | .mysqlChange .. => true
  | _ => false

theorem compile_stays (d : Dialect) (t : TRef) (c : String) (k : Construct) (s : Stmt)
    (h : compile d t c k = .ok s) (hk : renamesCol k = false) :
    (match Stmt.colRef s with | some x => x == c | none => true) = true ∧ nextName c s = c := by
  cases k <;> cases d <;> simp [compile, Dialect.isMySQL, renamesCol] at h hk <;>
    (try (repeat' split at h)) <;> simp_all [Stmt.colRef, Stmt.col, nextName] <;>
    (try (subst h; simp [Stmt.colRef, Stmt.col, nextName]))

/-- a list of non-renamesCol constructs leaves the name alone -/
theorem emitAll_stays (d : Dialect) (t : TRef) (c : String) (ks : List Construct)
    (hk : ∀ k ∈ ks, renamesCol k = false) : AddrEnd c (emitAll d t c ks) c := by
  induction ks with
  | nil => exact addrEnd_ok c
  | cons k ks ih =>
    unfold emitAll
    cases hc : compile d t c k with
    | error e => exact addrEnd_fail c e c
    | ok s =>
      obtain ⟨h1, h2⟩ := compile_stays d t c k s hc (hk k (by simp))
      obtain ⟨i1, i2⟩ := ih (fun k' hk' => hk k' (by simp [hk']))
      refine ⟨?_, fun h => ?_⟩
      · simp only [addressOk, h2, i1, Bool.and_true]
        exact h1
      · simp only [endName, List.foldl_cons, h2]
        exact i2 h

theorem emitAll_append (d : Dialect) (t : TRef) (c : String) (a b : List Construct) :
    emitAll d t c (a ++ b) = (emitAll d t c a).andThen (emitAll d t c b) := by
  induction a with
  | nil => simp only [List.nil_append, emitAll, ok_andThen]
  | cons k ks ih =>
    simp only [List.cons_append, emitAll]
    cases hc : compile d t c k with
    | error e => simp [Out.fail, Out.andThen]
    | ok s =>
      simp only [ih]
      unfold Out.andThen
      cases h : (emitAll d t c ks).err <;> simp [h]

/-- `ColumnName` as the only construct -/
theorem emit_rename (d : Dialect) (t : TRef) (c n : String) :
    AddrEnd c (emitAll d t c [.columnName n]) n := by
  unfold emitAll
  by_cases hm : d.isMySQL = true
  · simp only [compile, hm, if_true]
    exact addrEnd_fail c _ n
  · simp only [compile, hm, Bool.false_eq_true, if_false, emitAll]
    exact ⟨by simp [addressOk, Stmt.colRef, Stmt.col, Out.ok], fun _ => by simp [endName, nextName, Out.ok]⟩

/-- `MySQLChangeColumn` as the only construct -/
theorem emit_change (d : Dialect) (t : TRef) (c n : String) (ty : Option Ty) (nl : Bool)
    (df : Tri DefVal) (ai : Option Bool) (cm : Option String) :
    AddrEnd c (emitAll d t c [.mysqlChange n ty nl df ai cm]) n := by
  unfold emitAll
  cases ty with
  | none => simp only [compile]; exact addrEnd_fail c _ n
  | some ty =>
    simp only [compile]
    cases hcs : mysqlColspec df ai cm with
    | error e => exact addrEnd_fail c _ n
    | ok v =>
      obtain ⟨a, ds, cmm⟩ := v
      simp only [emitAll]
      exact ⟨by simp [addressOk, Stmt.colRef, Stmt.col, Out.ok], fun _ => by simp [endName, nextName, Out.ok]⟩

/-- everything `DefaultImpl.alter_column` builds before the rename -/
def front (r : Req) : List Construct :=
  (match r.nullable with
    | some n => [.columnNullable n r.exType]
    | none => []) ++
  (match r.serverDefault with
    | .unset => []
    | sd =>
      if isComputed sd r.exDefault then [.computedDefault]
      else if isIdentity sd r.exDefault then [.identityDefault sd.val? r.exDefault]
      else [.columnDefault sd.val?]) ++
  (match r.type_ with
    | some t => [.columnType t]
    | none => []) ++
  (match r.comment with
    | .unset => []
    | c => [.columnComment c.val?])

def nameTail (r : Req) : List Construct :=
  match r.newName with
  | some n => [.columnName n]
  | none => []

theorem defaultConstructs_split (r : Req) : defaultConstructs r = front r ++ nameTail r := rfl

theorem front_not_renamesCol (r : Req) : ∀ k ∈ front r, renamesCol k = false := by
  intro k hk
  unfold front at hk
  simp only [List.mem_append] at hk
  rcases hk with ((hk | hk) | hk) | hk
  · cases hn : r.nullable <;> simp [hn] at hk; subst hk; rfl
  · cases hs : r.serverDefault <;> simp [hs] at hk <;> (repeat' split at hk) <;> simp at hk <;>
      (subst hk; rfl)
  · cases ht : r.type_ <;> simp [ht] at hk; subst hk; rfl
  · cases hc : r.comment <;> simp [hc] at hk <;> (subst hk; rfl)

/-- `DefaultImpl.alter_column`: well addressed, the rename comes last -/
theorem defaultConstructs_addr (d : Dialect) (t : TRef) (r : Req) :
    AddrEnd r.column (emitAll d t r.column (defaultConstructs r)) (r.newName.getD r.column) := by
  rw [defaultConstructs_split, emitAll_append]
  apply addrEnd_andThen _ r.column
  · exact emitAll_stays _ _ _ _ (front_not_renamesCol r)
  · unfold nameTail
    cases hn : r.newName with
    | none => exact addrEnd_ok _
    | some n => exact emit_rename d t r.column n

/-- the same with the rename suppressed (`name` not passed on) -/
theorem defaultConstructs_stays (d : Dialect) (t : TRef) (c : String) (r : Req) (hn : r.newName = none) :
    AddrEnd c (emitAll d t c (defaultConstructs r)) c := by
  apply emitAll_stays
  intro k hk
  rw [defaultConstructs_split] at hk
  simp only [nameTail, hn, List.append_nil] at hk
  exact front_not_renamesCol r k hk

theorem mysqlAlter_shape (d : Dialect) (r : Req) :
    mysqlAlter d r =
      (if isIdentity r.serverDefault r.exDefault || isComputed r.serverDefault r.exDefault then
         emitAll d (tref r) r.column (defaultConstructs { r with newName := none, comment := .unset })
       else Out.ok).andThen
      (if r.newName.isSome || functionalDefault (myTy r) r.serverDefault then
        emitAll d (tref r) r.column
          [.mysqlChange (r.newName.getD r.column) (myTy r) (myNull r) (myDefault r) (myAutoinc r) (myComment r)]
      else if r.nullable.isSome || r.type_.isSome || r.autoinc.isSome || r.comment.given then
        emitAll d (tref r) r.column
          [.mysqlModify (myTy r) (myNull r) (myDefault r) (myAutoinc r) (myComment r)]
      else if r.serverDefault.given then
        emitAll d (tref r) r.column [.mysqlAlterDefault r.serverDefault.val?]
      else Out.ok) := rfl

theorem mysqlAlter_addr (d : Dialect) (r : Req) :
    AddrEnd r.column (mysqlAlter d r) (r.newName.getD r.column) := by
  rw [mysqlAlter_shape]
  apply addrEnd_andThen _ r.column
  · split
    · exact defaultConstructs_stays _ _ _ _ rfl
    · exact addrEnd_ok _
  · by_cases hC : (r.newName.isSome || functionalDefault (myTy r) r.serverDefault) = true
    · rw [if_pos hC]
      exact emit_change _ _ _ _ _ _ _ _ _
    · rw [if_neg hC]
      have hnn : r.newName = none := by
        cases h : r.newName <;> simp_all
      rw [hnn]
      simp only [Option.getD_none]
      split
      · apply emitAll_stays; intro k hk; simp at hk; subst hk; rfl
      · split
        · apply emitAll_stays; intro k hk; simp at hk; subst hk; rfl
        · exact addrEnd_ok _

theorem implAlter_addr (d : Dialect) (r : Req) :
    AddrEnd r.column (implAlter d r) (r.newName.getD r.column) := by
  cases d with
  | default => exact defaultConstructs_addr _ _ r
  | sqlite => exact defaultConstructs_addr _ _ r
  | oracle => exact defaultConstructs_addr _ _ r
  | postgresql =>
    simp only [implAlter, pgAlter]
    split
    · exact addrEnd_fail _ _ _
    · rw [emitAll_append]
      apply addrEnd_andThen _ r.column
      · apply emitAll_stays
        intro k hk
        cases ht : r.type_ <;> simp [ht] at hk
        subst hk; rfl
      · exact defaultConstructs_addr .postgresql (tref r) { r with type_ := none }
  | mysql => exact mysqlAlter_addr _ r
  | mariadb => exact mysqlAlter_addr _ r
  | mssql =>
    simp only [implAlter, mssqlAlter]
    split
    · exact addrEnd_fail _ _ _
    · apply addrEnd_andThen _ r.column
      · exact defaultConstructs_stays _ _ _ _ rfl
      · apply addrEnd_andThen _ r.column
        · split
          · apply addrEnd_andThen _ r.column
            · split
              · apply emitAll_stays; intro k hk; simp at hk; subst hk; rfl
              · exact addrEnd_ok _
            · split
              · apply emitAll_stays; intro k hk; simp at hk; subst hk; rfl
              · exact addrEnd_ok _
          · exact addrEnd_ok _
        · cases hn : r.newName with
          | none => exact addrEnd_ok _
          | some n => exact emit_rename _ _ _ n

theorem dropTypeConstraint_addr (d : Dialect) (t : TRef) (c : String) (ty : Ty) :
    AddrEnd c (dropTypeConstraint d t c ty) c := by
  unfold dropTypeConstraint
  cases ty.ck with
  | none => exact addrEnd_ok _
  | some nm =>
    cases d <;> first
      | exact addrEnd_ok _
      | (apply emitAll_stays; intro k hk; simp at hk; subst hk; rfl)

/-- the constraint of the new type is built on the name the column has after the alter -/
theorem addTypeConstraint_addr (d : Dialect) (t : TRef) (c : String) (ty : Ty) :
    AddrEnd c (addTypeConstraint d t c ty) c := by
  unfold addTypeConstraint
  cases ty.ck with
  | none => exact addrEnd_ok _
  | some nm =>
    cases d <;> first
      | exact addrEnd_ok _
      | (apply emitAll_stays; intro k hk; simp at hk; subst hk; rfl)

theorem newColumn_eq (r : Req) (h : r.newName ≠ some "") : newColumn r = r.newName.getD r.column := by
  unfold newColumn
  cases hn : r.newName with
  | none => rfl
  | some n =>
    have : n ≠ "" := fun e => h (by rw [hn, e])
    simp [this]

theorem alterColumn_addr (d : Dialect) (r : Req) (h : r.newName ≠ some "") :
    AddrEnd r.column (alterColumn d r) (r.newName.getD r.column) := by
  unfold alterColumn
  apply addrEnd_andThen _ r.column
  · cases r.exType <;> cases r.type_ <;> first
      | exact addrEnd_ok _
      | exact dropTypeConstraint_addr _ _ _ _
  · apply addrEnd_andThen _ (r.newName.getD r.column)
    · exact implAlter_addr d r
    · rw [newColumn_eq r h]
      cases r.type_ with
      | none => exact addrEnd_ok _
      | some t => exact addTypeConstraint_addr _ _ _ _

end Lemmas.Alter
