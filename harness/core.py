"""Shared plumbing of the verification harness.

The harness runs under /venv/bin/python (alembic is imported from /repo's working tree,
the package is installed there in development mode).  One property = one module under
harness/props/ exposing

    PROPERTY   = "Cxx"
    DRIVER     = "drv_<workstream>"               # lean_exe answering this property's ops
    THEOREMS   = ["Cxx.some_theorem", ...]        # Lean names proved in lean/Props/Cxx.lean
    PARTIAL    = {"Cxx.x_partial": "what the full statement would need"}   (optional)
    TRUSTED    = ["..."]                          # property specific trusted-base items
    RULE       = "how cases are generated and what makes one non-trivial"
    def run(ctx)                                   # correspondence + spec-on-impl
    def search(ctx)                                # optional deeper failing-input search
    def check_witness(ctx, finding) -> str|None    # replays a known finding; returns what fails
    def classify(failure) -> finding id | None     # signature matching of a failure
    def replay(ctx, case) -> dict                  # re-executes a stored replay
"""
from __future__ import annotations

import fcntl
import hashlib
import json
import os
import random
import re
import shutil
import subprocess
import sys
import time
from collections import Counter, defaultdict

VERIF = os.path.dirname(os.path.dirname(os.path.abspath(__file__)))
LEAN = os.path.join(VERIF, "lean")
BIN = os.path.join(LEAN, ".lake", "build", "bin")
ALLOWED_AXIOMS = {"propext", "Classical.choice", "Quot.sound"}
BANNED = re.compile(
    r"\bsorry\b|\badmit\b|^\s*axiom\s|native_decide|bv_decide|implemented_by|\bunsafe\s|maxHeartbeats\s+0\b",
    re.M,
)

GENERIC_TRUSTED = [
    "Lean 4.33.0 kernel (axioms allowed: propext, Classical.choice, Quot.sound; audited by #print axioms on every run)",
    "Lean compiler/runtime evaluating the kernel-checked model definitions inside the amdriver executable",
    "the correspondence harness (generators, adapters calling the real code from /repo, canonicalisers, diff): agreement is established on the generated inputs only",
    "hand-written Lean model of the anchored Python functions (tied to /repo by the correspondence check, not generated from source)",
]


def log(*a):
    print(*a, file=sys.stderr, flush=True)


def strip_lean_comments(src: str) -> str:
    out = []
    i = 0
    depth = 0
    n = len(src)
    while i < n:
        if src.startswith("/-", i):
            depth += 1
            i += 2
            continue
        if depth and src.startswith("-/", i):
            depth -= 1
            i += 2
            continue
        if depth:
            i += 1
            continue
        if src.startswith("--", i):
            j = src.find("\n", i)
            i = n if j < 0 else j
            continue
        if src[i] == '"':
            j = i + 1
            while j < n and src[j] != '"':
                j += 2 if src[j] == "\\" else 1
            out.append('""')
            i = j + 1
            continue
        out.append(src[i])
        i += 1
    return "".join(out)


class Driver:
    """Pipes JSON lines to the compiled Lean driver and returns the JSON answers."""

    def __init__(self, exe):
        self.exe = exe
        self.path = os.path.join(BIN, exe)
        self.calls = 0

    def ask(self, ops):
        if not ops:
            return []
        if not os.path.exists(self.path):
            raise RuntimeError("driver not built: " + self.path)
        data = "\n".join(json.dumps(o, ensure_ascii=True) for o in ops) + "\n"
        p = subprocess.run([self.path], input=data.encode(), stdout=subprocess.PIPE, stderr=subprocess.PIPE)
        if p.returncode != 0:
            raise RuntimeError("driver failed rc=%s: %s" % (p.returncode, p.stderr.decode()[-2000:]))
        lines = p.stdout.decode().splitlines()
        if len(lines) != len(ops):
            raise RuntimeError("driver answered %d lines for %d ops; stderr=%s" % (len(lines), len(ops), p.stderr.decode()[-2000:]))
        self.calls += len(ops)
        return [json.loads(l) for l in lines]

    def ask1(self, op):
        return self.ask([op])[0]


class Ctx:
    def __init__(self, prop, tier, seed, exe="drv_txn"):
        self.prop = prop
        self.tier = tier
        self.seed = seed
        self.drv = Driver(exe)
        self.evaluations = 0
        self.traces = 0
        self._nontrivial = set()
        self.samples = []
        self.hists = defaultdict(Counter)
        self.disagreements = []
        self.failures = []
        self.notes = []
        self.extra = {}
        self.exhaustive = False
        self.max_samples = 6
        self.deadline = None

    @property
    def thorough(self):
        return self.tier == "thorough"

    def rng(self, name):
        h = hashlib.sha256(("%s/%s/%s" % (self.prop, self.seed, name)).encode()).digest()
        return random.Random(int.from_bytes(h[:8], "big"))

    def evaluation(self, n=1):
        self.evaluations += n

    def trace_ok(self, n=1):
        self.traces += n

    def nontrivial(self, key):
        if not isinstance(key, (str, int, tuple)):
            key = json.dumps(key, sort_keys=True, default=str)
        if isinstance(key, str) and len(key) > 80:
            key = hashlib.sha1(key.encode()).hexdigest()
        self._nontrivial.add(key)

    def sample(self, obj):
        if len(self.samples) < self.max_samples:
            self.samples.append(obj)

    def hist(self, name, key, n=1):
        self.hists[name][str(key)] += n

    def disagree(self, op, input, impl, model, note=""):
        self.disagreements.append({"op": op, "input": input, "impl": impl, "model": model, "note": note})

    def fail(self, input, what, impl=None, tags=()):
        """A property failure observed on the real code (spec oracle false on implementation output)."""
        self.failures.append({"input": input, "what": what, "impl": impl, "tags": list(tags)})

    def note(self, s):
        self.notes.append(s)


def _sh(cmd, cwd=None, timeout=3600):
    p = subprocess.run(cmd, cwd=cwd, stdout=subprocess.PIPE, stderr=subprocess.STDOUT, timeout=timeout)
    return p.returncode, p.stdout.decode(errors="replace")


def lake_build(targets):
    os.makedirs(os.path.join(LEAN, ".lake"), exist_ok=True)
    with open(os.path.join(LEAN, ".lake", "verif.lock"), "w") as lk:
        fcntl.flock(lk, fcntl.LOCK_EX)
        rc, out = _sh(["lake", "build"] + targets, cwd=LEAN)
    return rc == 0, out


def leanchecker(module):
    """thorough tier: the toolchain's independent re-checker replays the compiled declarations of the property module
    (and whatever it imports) through the kernel.  -> (ok, output)"""
    if shutil.which("leanchecker") is None:
        return None, "leanchecker not on PATH"
    rc, out = _sh(["lake", "env", "leanchecker", module], cwd=LEAN)
    return rc == 0, out[-2000:]


def import_closure(module):
    """files of the project reachable from `module` through `import` lines"""
    seen, todo, files = set(), [module], []
    while todo:
        mod = todo.pop()
        if mod in seen:
            continue
        seen.add(mod)
        path = os.path.join(LEAN, *mod.split(".")) + ".lean"
        if not os.path.exists(path):
            continue  # core / Mathlib
        files.append(path)
        for line in open(path, encoding="utf-8"):
            m = re.match(r"\s*(?:public\s+)?import\s+([A-Za-z0-9_.]+)", line)
            if m:
                todo.append(m.group(1))
    return files


def audit(prop, theorems):
    """Returns dict theorem -> {'ok': bool, 'axioms': [...], 'why': str}."""
    res = {}
    # static grep over the Lean sources this property's theorems are built from: the import
    # closure of Props/<Cxx>.lean inside the project (other workstreams' files are not ours to judge)
    banned_hits = []
    for p in import_closure("Props.%s" % prop):
        src = strip_lean_comments(open(p, encoding="utf-8").read())
        for m in BANNED.finditer(src):
            banned_hits.append("%s: %s" % (os.path.relpath(p, LEAN), m.group(0).strip()))
    adir = os.path.join(LEAN, ".audit")
    os.makedirs(adir, exist_ok=True)
    path = os.path.join(adir, "Audit_%s.lean" % prop)
    with open(path, "w") as f:
        f.write("import Props.%s\n" % prop)
        for t in theorems:
            f.write("#print axioms %s\n" % t)
    rc, out = _sh(["lake", "env", "lean", path], cwd=LEAN)
    out = "\n".join(l for l in out.splitlines() if "WARNING" not in l)
    flat = re.sub(r"\s+", " ", out)
    for t in theorems:
        m = re.search(r"'%s' depends on axioms: \[([^\]]*)\]" % re.escape(t), flat)
        if m:
            ax = [a.strip() for a in m.group(1).split(",") if a.strip()]
            bad = [a for a in ax if a not in ALLOWED_AXIOMS]
            res[t] = {"ok": not bad, "axioms": ax, "why": "" if not bad else "disallowed axioms: %s" % bad}
        elif re.search(r"'%s' does not depend on any axioms" % re.escape(t), flat):
            res[t] = {"ok": True, "axioms": [], "why": ""}
        else:
            res[t] = {"ok": False, "axioms": [], "why": "theorem not found or audit failed: " + out[-400:]}
    if banned_hits:
        for t in res:
            res[t]["ok"] = False
            res[t]["why"] += " banned construct in sources: %s" % banned_hits[:5]
    return res, banned_hits


def load_findings(prop):
    """known_findings/<Cxx>.json: {"findings": [{id, property, status: open|fixed, signature, what_fails, witness}]}
    Committed, never written at run time."""
    p = os.path.join(VERIF, "known_findings", "%s.json" % prop)
    if not os.path.exists(p):
        return []
    data = json.load(open(p))
    return [f for f in data.get("findings", []) if f.get("property", prop) == prop]


def write_replay(prop, payload):
    os.makedirs(os.path.join(VERIF, "replays"), exist_ok=True)
    blob = json.dumps(payload, sort_keys=True, default=str, indent=1)
    h = hashlib.sha1(blob.encode()).hexdigest()[:12]
    rel = "replays/%s-%s.json" % (prop, h)
    with open(os.path.join(VERIF, rel), "w") as f:
        f.write(blob)
    return rel


def source_fingerprint(path):
    """hash of a Python file's AST without docstrings / positions (formatting-insensitive)"""
    import ast
    import hashlib

    try:
        tree = ast.parse(open(path, encoding="utf-8").read())
    except Exception as e:  # unparsable source is a difference too
        return "unparsable:%s" % type(e).__name__
    for node in ast.walk(tree):
        body = getattr(node, "body", None)
        if isinstance(node, (ast.Module, ast.ClassDef, ast.FunctionDef, ast.AsyncFunctionDef)) and body \
                and isinstance(body[0], ast.Expr) and isinstance(getattr(body[0], "value", None), ast.Constant) \
                and isinstance(body[0].value.value, str):
            node.body = body[1:] or [ast.Pass()]
    return hashlib.sha256(ast.dump(tree, include_attributes=False).encode()).hexdigest()[:24]


def changed_anchor_files(prop):
    """anchored source files of `prop` whose code differs from the tree the model was written
    against (fingerprints.json).  [] when nothing differs or nothing is recorded."""
    p = os.path.join(VERIF, "fingerprints.json")
    if not os.path.exists(p):
        return []
    try:
        rec = json.load(open(p)).get(prop, {})
        import alembic

        root = os.path.dirname(os.path.dirname(os.path.abspath(alembic.__file__)))
    except Exception:
        return []
    out = []
    for f, h in sorted(rec.items()):
        q = os.path.join(root, f)
        if not os.path.isfile(q) or source_fingerprint(q) != h:
            out.append(f)
    return out


def write_evidence(prop, ev):
    # a run against another checkout (VERIF_REPO=<scratch worktree>, used to evaluate seeded
    # regressions) must not overwrite the evidence that describes /repo
    other = os.environ.get("VERIF_REPO")
    d = "evidence" if not other or os.path.realpath(other) == os.path.realpath("/repo") else os.path.join("replays", "evidence-other-checkout")
    os.makedirs(os.path.join(VERIF, d), exist_ok=True)
    with open(os.path.join(VERIF, d, "%s.json" % prop), "w") as f:
        json.dump(ev, f, indent=1, sort_keys=True, default=str)
