"""Filesystem side of C19: generate a layout plan, materialise it in a scratch directory,
read the *real* tree back into the abstract filesystem the Lean model works on, and run the
real ScriptDirectory on it.

Nothing here hard-codes /repo: alembic is whatever `import alembic` gives (VERIF_REPO aware).
"""
from __future__ import annotations

import importlib
import importlib.machinery
import os
import py_compile
import shutil
import sys
import tempfile
import warnings

from alembic import util as alembic_util
from alembic.config import Config
from alembic.script import Script
from alembic.script import ScriptDirectory
from alembic.script import base as script_base

sys.dont_write_bytecode = True

TAG = sys.implementation.cache_tag  # e.g. cpython-312
PYO_LOADABLE = ".pyo" in importlib.machinery.BYTECODE_SUFFIXES  # False on CPython >= 3.5

STEMS = ["a1", "b2", "c3", "d4", "abc123", "0ff1ce", "r_x", "x.y", "notes"]
SPECIAL_STEMS = ["__init__", ".#a1", ".#lock", "__init__"]
INIT_PREFIXED = ["__init__x", "__init___v2"]
# ordinary revision files whose names start with something unusual: only `.#` (lock) and the module `__init__` are excluded
LEADING = [".a3_local", "#b3_wip", ".x", "#", "_u", "-d", "~t", "0", "A1", "@at", "x#y", "x.#y", "# sp", "é"]
PLAIN_FILES = ["README", "xpy", "env.cfg", "script.py.mako", "a1.txt", "b2.py.bak", "c3.orig", "d4.pyx", "data.pyc.old"]
SUBDIR_NAMES = ["sub", "sub2", "deep", "pkg", "zz"]


# --------------------------------------------------------------------------------------
# plan generation: a plan is a JSON-able dict, fully determines the scratch tree
# --------------------------------------------------------------------------------------

def _source(content, helper=None):
    if isinstance(content, dict) and content.get("needs"):
        # importable only when prepend_sys_path puts <root>/lib on sys.path
        return "import %s\nrevision = %r\ndown_revision = None\n" % (helper, content["rev"])
    if content == "broken":
        return "raise RuntimeError('broken revision module')\n"
    if content == "noRev":
        return "down_revision = None\n"
    return "revision = %r\ndown_revision = None\n" % content["rev"]


def gen_plan(rng, special=0.25, sizes=(1, 3)):
    """dirs: list of relative dir paths; files: list of {path, kind: src|pyc|plain, content};
    links: list of {path, target, dir: bool}; locations: list of relative paths or None (default)."""
    dirs = ["scripts"]
    ids = []
    counter = [0]

    def fresh():
        counter[0] += 1
        return "r%d" % counter[0]

    def pick_content():
        x = rng.random()
        if x < 0.012:
            return "broken"
        if x < 0.03:
            return "noRev"
        if ids and x < 0.20:
            return {"rev": rng.choice(ids)}
        i = fresh()
        ids.append(i)
        return {"rev": i}

    # sibling directories whose paths share a textual prefix (va / va_ext / va2) or not (va / vb / vc)
    family = ["va", "va_ext", "va2"] if rng.random() < 0.4 else ["va", "vb", "vc"]
    tops = family[: rng.randint(*sizes)]
    if rng.random() < 0.35:
        tops.append("scripts/versions")
    if rng.random() < 0.04:
        tops.append("k__pycache__")
    real_dirs = []
    for t in tops:
        real_dirs.append(t)
        # nested sub-directories
        frontier = [t]
        for depth in range(3):
            nxt = []
            for d in frontier:
                for nm in rng.sample(SUBDIR_NAMES, rng.choice([0, 0, 1, 1, 2])):
                    if len(real_dirs) < 8:
                        if rng.random() < 0.05:
                            nm = nm + "__pycache__"
                        elif rng.random() < 0.03:
                            nm = "b2.py"  # a *directory* that os.path.exists() finds as the ".py sibling" of b2.pyc
                        real_dirs.append(d + "/" + nm)
                        nxt.append(d + "/" + nm)
            frontier = nxt
    dirs += real_dirs
    files = []
    seen_paths = set()

    def add(path, kind, content):
        if path in seen_paths or path in real_dirs:
            return
        seen_paths.add(path)
        files.append({"path": path, "kind": kind, "content": content})

    need_cache = set()
    for d in real_dirs:
        nstems = rng.choice([0, 1, 2, 2, 3, 4])
        for _ in range(nstems):
            st = rng.choice(SPECIAL_STEMS) if rng.random() < special else rng.choice(STEMS)
            if rng.random() < 0.06:
                st = rng.choice(INIT_PREFIXED)  # ordinary revision files (regression guard for fixed finding C19-F13)
            elif rng.random() < 0.12:
                st = rng.choice(LEADING)
            base = pick_content()
            forms = set()
            r = rng.random()
            if r < 0.45:
                forms.add("py")
            elif r < 0.60:
                forms.update(["py", "pyc"])
            elif r < 0.70:
                forms.add("pyc")
            elif r < 0.76:
                forms.update(["pyc", "pyo"])
            elif r < 0.78:
                forms.add("pyo")
            elif r < 0.92:
                forms.add("cache")
            else:
                forms.update(rng.sample(["py", "py", "pyc", "pyc", "pyo", "cache", "cache2", "txt"], rng.randint(1, 4)))
            if rng.random() < 0.2:
                forms.add("cache")
            if rng.random() < 0.06:
                forms.add("cache2")
            if rng.random() < 0.06:
                forms.add("txt")

            def compiled_content():
                # a compiled form usually carries the same id as its source, but half of the time a
                # different one, so that "which form was loaded" is observable
                if rng.random() < 0.5 or not isinstance(base, dict):
                    return base
                return pick_content()

            for f in sorted(forms):
                if f == "py":
                    add("%s/%s.py" % (d, st), "src", base)
                elif f == "pyc":
                    add("%s/%s.pyc" % (d, st), "pyc", compiled_content())
                elif f == "pyo":
                    add("%s/%s.pyo" % (d, st), "pyc", compiled_content())
                elif f == "cache":
                    need_cache.add(d)
                    add("%s/__pycache__/%s.%s.pyc" % (d, st, TAG), "pyc", compiled_content())
                elif f == "cache2":
                    need_cache.add(d)
                    add("%s/__pycache__/%s.%s.pyc" % (d, st, rng.choice(["cpython-311", TAG + ".opt-1"])), "pyc", compiled_content())
                elif f == "txt":
                    add("%s/%s.txt" % (d, st.split(".")[0] or "dot"), "plain", None)
        for nm in rng.sample(PLAIN_FILES, rng.choice([0, 0, 1, 2])):
            add("%s/%s" % (d, nm), "plain", None)
    for d in sorted(need_cache):
        dirs.append(d + "/__pycache__")
    # symlinks
    links = []
    file_paths = [f["path"] for f in files]
    if file_paths and rng.random() < 0.35:
        for k in range(rng.randint(1, 2)):
            tgt = rng.choice(file_paths)
            d = rng.choice(real_dirs)
            ext = os.path.splitext(tgt)[1] if rng.random() < 0.7 else rng.choice([".py", ".txt", ".pyc"])
            links.append({"path": "%s/ln%d%s" % (d, k, ext), "target": tgt, "dir": False})
    aliases = []
    if rng.random() < 0.3:
        tgt = rng.choice(real_dirs)
        links.append({"path": "alias0", "target": tgt, "dir": True})
        aliases.append("alias0")
    symsubs = []
    if rng.random() < 0.2:
        d = rng.choice(real_dirs)
        tgt = rng.choice(real_dirs)
        links.append({"path": "%s/lsub" % d, "target": tgt, "dir": True})
        symsubs.append("%s/lsub" % d)
    # version locations
    cands = real_dirs + aliases + symsubs
    locations = None
    if not ("scripts/versions" in real_dirs and rng.random() < 0.4):
        n = rng.choice([1, 1, 2, 2, 3])
        locations = []
        while len(locations) < n:
            if locations and rng.random() < 0.5:
                # something related to an earlier choice: an ancestor, a descendant, itself, a symlinked
                # sub-directory of it, or a *sibling* whose path merely starts with the same text (va / va_ext)
                prev = rng.choice(locations)
                rel = [c for c in cands if c.startswith(prev + "/") or prev.startswith(c + "/") or c == prev]
                sib = [c for c in cands if c != prev and (c.startswith(prev) or prev.startswith(c))
                       and not (c.startswith(prev + "/") or prev.startswith(c + "/"))]
                locations.append(rng.choice(sib if sib and rng.random() < 0.5 else (rel or cands)))
            else:
                locations.append(rng.choice(cands))
        if rng.random() < 0.05:
            locations.insert(rng.randint(0, len(locations)), "missing_dir")
    return {"dirs": dirs, "files": files, "links": links, "locations": locations}


# --------------------------------------------------------------------------------------
# materialise
# --------------------------------------------------------------------------------------

class Scratch:
    """A plan materialised below a fresh temporary directory (outside /repo and /verif)."""

    def __init__(self, plan):
        self.plan = plan
        self.root = os.path.realpath(tempfile.mkdtemp(prefix="c19_"))
        # the scratch root is itself an importable package (unique name) so that locations can be
        # written as package resources "<token>:va"; `helper` is the module prepend_sys_path makes importable
        self.token = os.path.basename(self.root)
        self.helper = "h_" + self.token
        self.content = {}  # realpath -> content (what importing the file yields)
        build = os.path.join(self.root, "_build")
        os.makedirs(build)
        try:
            for d in plan["dirs"]:
                os.makedirs(os.path.join(self.root, d), exist_ok=True)
            n = 0
            for f in plan["files"]:
                dest = os.path.join(self.root, f["path"])
                os.makedirs(os.path.dirname(dest), exist_ok=True)
                if f["kind"] == "helper":
                    dest = os.path.join(os.path.dirname(dest), self.helper + ".py")
                    with open(dest, "w") as fh:
                        fh.write("x = 1\n")
                    self.content[dest] = "broken"
                elif f["kind"] == "plain":
                    with open(dest, "w") as fh:
                        fh.write("not python {{{\n")
                    self.content[dest] = "broken"
                elif f["kind"] == "src":
                    with open(dest, "w") as fh:
                        fh.write(_source(f["content"], self.helper))
                    self.content[dest] = f["content"]
                else:
                    n += 1
                    src = os.path.join(build, "m%d.py" % n)
                    with open(src, "w") as fh:
                        fh.write(_source(f["content"], self.helper))
                    # CHECKED_HASH: a source file next to a cache entry compiled from *different*
                    # text is never shadowed by it (timestamp pycs could validate by accident)
                    py_compile.compile(src, cfile=dest, doraise=True,
                                       invalidation_mode=py_compile.PycInvalidationMode.CHECKED_HASH)
                    c = f["content"]
                    if dest.endswith(".pyo") and not PYO_LOADABLE:
                        c = "broken"  # importlib has no loader for .pyo on this interpreter
                    self.content[dest] = c
            for l in plan["links"]:
                p = os.path.join(self.root, l["path"])
                if not os.path.lexists(p):
                    os.symlink(os.path.join(self.root, l["target"]), p)
            with open(os.path.join(self.root, "__init__.py"), "w") as fh:
                fh.write("")
        except BaseException:
            self.close()
            raise
        shutil.rmtree(build)
        importlib.invalidate_caches()

    def close(self):
        shutil.rmtree(self.root, ignore_errors=True)

    def __enter__(self):
        return self

    def __exit__(self, *a):
        self.close()

    # ---- reading the real tree back -------------------------------------------------

    def scan(self):
        """canonical numbering of every real directory and regular file below the root"""
        self.dir_id = {}
        self.node_id = {}
        self.nodes = []
        exists = []
        for cur, dirs, files in os.walk(self.root):
            dirs.sort()
            did = self.dir_id.setdefault(cur, len(self.dir_id))
            names = [n for n in sorted(os.listdir(cur)) if os.path.exists(os.path.join(cur, n))]
            exists.append({"dir": did, "names": names})
            for f in sorted(files):
                p = os.path.join(cur, f)
                if os.path.islink(p):
                    continue
                self.node_id[p] = len(self.nodes)
                c = self.content.get(p, "broken")
                self.nodes.append({"dir": did, "name": f, "content": c, "path": os.path.relpath(p, self.root)})
        return {"nodes": [{k: v for k, v in n.items() if k != "path"} for n in self.nodes], "exists": exists}

    def _entry(self, d, name):
        real = os.path.realpath(os.path.join(d, name))
        if real not in self.node_id:
            raise RuntimeError("entry resolves outside the scanned tree: %s -> %s" % (name, real))
        return {"name": name, "node": self.node_id[real]}

    def scan_location(self, path, name=None):
        """what os.walk(path, followlinks=False) sees, as the model's Dir (None if path is missing)"""
        if not os.path.isdir(path):
            return None
        name = os.path.basename(path) if name is None else name
        files, subs = [], []
        with os.scandir(path) as it:
            ents = list(it)
        for e in ents:
            if e.is_dir():
                if not e.is_symlink():
                    subs.append(e.name)
                elif e.name == "__pycache__":
                    subs.append(e.name)
            else:
                files.append(e.name)
        files.sort()
        if not name.endswith("__pycache__"):
            subs.sort()  # `dirs.sort()` is skipped by the `continue` for cache-named directories
        out = {"name": name, "files": [self._entry(path, f) for f in files], "subs": []}
        for s in subs:
            sp = os.path.join(path, s)
            if s == "__pycache__":
                # entries in os.listdir order (that is what the implementation iterates over)
                cf = [n for n in os.listdir(sp) if not os.path.isdir(os.path.join(sp, n))]
                sub = {"name": s, "files": [self._entry(sp, f) for f in cf], "subs": []}
                if not os.path.islink(sp):
                    inner = self.scan_location(sp, s)
                    sub["subs"] = inner["subs"]
                out["subs"].append(sub)
            else:
                out["subs"].append(self.scan_location(sp, s))
        return out


# --------------------------------------------------------------------------------------
# the implementation
# --------------------------------------------------------------------------------------

def location_strings(sc, plan, st):
    """how each configured location is written in the option string, and the absolute path it means"""
    out = []
    for p in plan["locations"]:
        absp = os.path.join(sc.root, p)
        if st.get("resource") and st.get("sep") not in (":", "os"):
            # package resource (coerce_resource_to_filename): "pkg:dir/sub", or every path segment as its own
            # colon token "pkg:dir:sub" - both denote <package directory>/dir/sub
            rel = p.replace("/", ":") if st["resource"] == "colon" else p
            out.append(("%s:%s" % (sc.token, rel), absp))
        elif st.get("relative"):
            out.append((p + ("/" if st.get("slash") else ""), absp))   # relative to the working directory (run_impl chdirs to the root)
        elif st.get("delivery") == "ini" and st.get("here"):
            out.append(("%(here)s/" + p + ("/" if st.get("slash") else ""), absp))  # ConfigParser interpolation of the ini directory
        else:
            out.append((absp + ("/" if st.get("slash") else ""), absp))
    return out


def make_config(sc, plan, st, joined):
    """Builds the Config the way a user would: programmatically (`Config()` + set_main_option) or from a real
    alembic.ini (optionally another section, %(here)s, multi-line values).  `joined` = the version_locations
    option string (None = option absent)."""
    sep = st.get("sep") if joined is not None else None
    script_location = os.path.join(sc.root, "scripts")
    if st.get("script_resource") == "colon":
        script_location = "%s:scripts" % sc.token
    elif st.get("script_resource"):
        script_location = "%s:scripts" % sc.token
    elif st.get("relative"):
        script_location = "scripts"
    opts = [("script_location", script_location)]
    if joined is not None:
        opts.append(("version_locations", joined))
    elif st.get("empty_option"):
        opts.append(("version_locations", ""))  # falsy option value = option absent
    if sep is not None:
        opts.append(("version_path_separator", sep))
    # a false setting is either spelled "false" or simply absent
    if st["recursive"] or not st.get("omit_false"):
        opts.append(("recursive_version_locations", "true" if st["recursive"] else "false"))
    if st["sourceless"] or not st.get("omit_false"):
        opts.append(("sourceless", "true" if st["sourceless"] else "false"))
    if st.get("extras"):
        opts.append(("truncate_slug_length", "20"))
    if st.get("prepend"):
        opts.append(("prepend_sys_path", st["prepend"].replace("{root}", sc.root)))
    if st.get("delivery") == "ini":
        section = st.get("section") or "alembic"
        if st.get("here") and not st.get("script_resource") and not st.get("relative"):
            opts[0] = ("script_location", "%(here)s/scripts")
        lines = ["[%s]" % section]
        for k, v in opts:
            lines.append("%s = %s" % (k, v.replace("\n", "\n    ")))
        if st.get("extras"):
            lines += ["", "[post_write_hooks]", "hooks = black", "black.type = console_scripts"]
        ini = os.path.join(sc.root, "alembic.ini")
        with open(ini, "w") as fh:
            fh.write("\n".join(lines) + "\n")
        return Config(ini, ini_section=section)
    cfg = Config()
    for k, v in opts:
        cfg.set_main_option(k, v)
    return cfg


def exc_kind(e):
    if isinstance(e, alembic_util.CommandError) and "Could not determine revision id" in str(e):
        return "noRevisionId"
    if isinstance(e, alembic_util.CommandError):
        return "CommandError:" + str(e)[:80]
    return "loadFailed"


def _purge_modules(scratch):
    for k in [k for k in sys.modules if k == scratch.token or k.startswith(scratch.token + ".") or k == scratch.helper]:
        del sys.modules[k]


def run_impl(scratch, cfg, st=None):
    """Runs the real ScriptDirectory; returns the observable outcome in the model's vocabulary.
    sys.path / sys.modules are restored afterwards (from_config prepends to sys.path for good)."""
    st = st or {}
    saved = list(sys.path)
    sys.path.insert(0, os.path.dirname(scratch.root))  # makes the scratch package importable (resource locations)
    base_path = list(sys.path)
    cwd = os.getcwd()
    try:
        if st.get("relative"):
            os.chdir(scratch.root)
        try:
            return _run_impl(scratch, cfg, st, base_path)
        except Exception as e:  # noqa - an unexpected exception of the implementation is a result, not a harness crash
            import traceback

            return {"config_err": "unexpected %s: %s" % (type(e).__name__, str(e)[:200]), "traceback": traceback.format_exc()[-1500:]}
    finally:
        os.chdir(cwd)
        sys.path[:] = saved
        _purge_modules(scratch)


def _run_impl(scratch, cfg, st, base_path):
    out = {}
    with warnings.catch_warnings(record=True) as w:
        warnings.simplefilter("always")
        try:
            out["vl_option"] = cfg.get_main_option("version_locations")
            out["prepend_option"] = cfg.get_main_option("prepend_sys_path")
            sd = ScriptDirectory.from_config(cfg)
            tail = sys.path[len(sys.path) - len(base_path):] if len(sys.path) >= len(base_path) else None
            out["sys_path_new"] = list(sys.path[: len(sys.path) - len(base_path)]) if tail == base_path else None
            out["sys_path_head"] = list(sys.path[:6])
            out["version_locations"] = None if sd.version_locations is None else [str(x) for x in sd.version_locations]
            # memoized property: resolves package resources, may raise for a location the implementation mangled
            out["resolved"] = [str(x) for x in sd._version_locations]
            out["truncate_slug_length"] = sd.truncate_slug_length
        except Exception as e:
            out["config_err"] = "%s: %s" % (type(e).__name__, str(e)[:200])
            return out
        captured = []
        orig = sd.revision_map._generator

        def gen():
            for s in orig():
                captured.append(s)
                yield s

        sd.revision_map._generator = gen
        if st.get("from_path"):
            # Script._from_path on every regular file of the scratch tree (what generate_revision uses to re-read a file)
            res = []
            for n in scratch.nodes:
                try:
                    sc_ = Script._from_path(sd, os.path.join(scratch.root, n["path"]))
                    res.append(None if sc_ is None else ["ok", sc_.revision])
                except Exception as e:
                    res.append(["err", exc_kind(e)])
            out["from_path"] = res
        try:
            keys = [k for k in sd.revision_map._revision_map.keys() if isinstance(k, str)]
        except Exception as e:  # a loud failure: the whole history refuses to load
            out["err"] = exc_kind(e)
            out["exc"] = "%s: %s" % (type(e).__name__, str(e)[:200])
            return out
        try:
            out["walk"] = [s.revision for s in sd.walk_revisions()]
        except Exception as e:
            out["walk"] = "%s: %s" % (type(e).__name__, str(e)[:120])
    loaded = []
    for s in captured:
        real = os.path.realpath(s.path)
        loaded.append([scratch.node_id.get(real, -1), s.revision])
    twice, dup, other = [], [], []
    for x in w:
        m = str(x.message)
        if m.startswith("File ") and "loaded twice! ignoring" in m:
            p = m[len("File "):m.index(" loaded twice!")]
            twice.append(scratch.node_id.get(p, -1))
        elif m.startswith("Revision ") and m.endswith(" is present more than once"):
            dup.append(m[len("Revision "):-len(" is present more than once")])
        else:
            other.append(m)
    out.update({"loaded": loaded, "keys": keys, "twice": twice, "dupWarn": dup, "other_warnings": other})
    return out


REGEXES = {
    "sourceless": script_base._sourceless_rev_file,
    "source": script_base._only_source_rev_file,
    "legacy": script_base._legacy_rev,
    "prepend": script_base._split_on_space_comma_colon,
}

