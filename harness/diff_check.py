"""Checks shared by C06 and C07: reflect-table validation, the pair pipeline (quiet /
correspondence / converge), the mutation pipeline (detect), failure tagging."""
from __future__ import annotations

import copy
import re

import sqlalchemy as sa

from . import diff_gen as G
from . import diff_schema as S

BINDLIKE = re.compile(r"(?<![:\w\x5c]):(\w+)(?!:)")


def find_col(schema, t, c):
    for tb in schema["tables"]:
        if tb["name"] == t:
            for col in tb["cols"]:
                if col["name"] == c:
                    return col
    return None


def default_tags(d):
    if d is None:
        return ["default:none"]
    tags = []
    if d["kind"] == "func":
        return ["default:func"]
    if d["kind"] == "str":
        tags.append("default:str-plain" if G.str_plain(d["v"]) else "default:str-nonplain")
    else:
        tags.append("default:expr-plain" if G.expr_plain(d["v"]) else "default:expr-nonplain")
    if BINDLIKE.search(d["v"]):
        tags.append("default:bindlike")
    return tags


def op_tags(op, a, b):
    """structural facts about the object a residual / unrelated op names (for classify)"""
    tags = ["op:" + op["k"]]
    if op["k"] in ("add_fk", "remove_fk"):
        with_schema = {t["name"] for s in (a, b) for t in s["tables"] if t.get("schema")}
        if op.get("t") in with_schema or op.get("reftable") in with_schema:
            tags.append("fk-default-schema")
    if op["k"] in ("modify_default", "modify_type", "modify_nullable"):
        cb = find_col(b, op["t"], op["c"])
        ca = find_col(a, op["t"], op["c"])
        for side, col in (("md", cb), ("db", ca)):
            if col is None:
                continue
            tags += ["%s-%s" % (side, x) for x in default_tags(col.get("default"))]
            tags.append("%s-type:%s" % (side, "unreflectable" if G.effective_ty(col["ty"])["fam"] in S.UNREFLECTABLE else "reflectable"))
            if col["ty"]["fam"] == "Enum" and (col["ty"].get("variant") or {}).get("dialect") == "sqlite":
                tags.append("%s-type:enum-with-sqlite-variant" % side)
    return tags


def pair_wf(a, b):
    """the property's class for a pair: both schemas in the class (constraint signatures distinct) and no
    dropped table is still referenced by a surviving table of A"""
    if not (G.schema_wf(a) and G.schema_wf(b)):
        return False
    # primary-key membership of a surviving column must not change: autogenerate documents that it does not detect
    # primary key changes, so such a pair (only the independently generated B's produce it) is outside the property
    # (= Spec.Diff.PkStable; the driver's pkStableB is compared with this on every pair)
    return pk_stable(a, b) and _no_dropped_referenced(a, b)


def pk_stable(a, b):
    for ta in a["tables"]:
        tb = next((t for t in b["tables"] if t["name"] == ta["name"]), None)
        if tb is None:
            continue
        pka = {c["name"] for c in ta["cols"] if c.get("pk")}
        pkb = {c["name"] for c in tb["cols"] if c.get("pk")}
        common = {c["name"] for c in ta["cols"]} & {c["name"] for c in tb["cols"]}
        if pka & common != pkb & common:
            return False
    return True


def _no_dropped_referenced(a, b):
    bn = {t["name"] for t in b["tables"]}
    dropped = {t["name"] for t in a["tables"]} - bn
    for t in a["tables"]:
        if t["name"] in bn:
            for f in t["fks"]:
                if f["reftable"] in dropped:
                    return False
    return True


def sqlite_can_alter(ops, a, b):
    """ops SQLite can execute without batch mode (ALTER ADD COLUMN with restrictions, CREATE/DROP
    INDEX/TABLE)"""
    for o in ops:
        k = o["k"]
        if k in ("add_table", "remove_table", "add_index", "remove_index"):
            continue
        if k == "remove_column":
            # ALTER TABLE DROP COLUMN (SQLite >= 3.35) for a column no key / index / constraint / generated column uses
            c = find_col(a, o["t"], o["c"])
            if c and not c.get("pk") and not c.get("computed") and not G.col_in_use(a, o["t"], o["c"]):
                continue
            return False
        if k == "add_column":
            c = find_col(b, o["t"], o["c"])
            if c and not c.get("pk") and not (c.get("default") and c["default"]["kind"] == "func") and (c["nullable"] or (c.get("default") and c["default"]["kind"] == "str")) and \
                    not (c.get("default") and c["default"]["kind"] == "expr" and not re.match(r"^('.*'|-?[0-9.]+|NULL|TRUE|FALSE)$", c["default"]["v"])):
                continue
            return False
        return False
    return True


# --- reflect tables --------------------------------------------------------------------------------


def check_reflect_tables(ctx, rng, n_draws=3):
    """model `ddlTy`/`reflTy`/compare_type-on-itself and the default tables, entry by entry,
    against the live SQLite inspector and the real comparison functions"""
    eng = S.new_engine()
    items = []
    for fam, (mk, arities) in S.CATALOGUE.items():
        for ar in arities:
            for _ in range(n_draws if ar else 1):
                if fam == "Enum":
                    args = [rng.randint(1, 60)]
                elif ar == 0:
                    args = []
                elif ar == 1:
                    args = [rng.randint(1, 5000)]
                else:
                    p = rng.randint(1, 60)
                    args = [p, rng.randint(0, p)]
                items.append({"fam": fam, "args": args})
                if fam in S.COLLATABLE:
                    items.append({"fam": fam, "args": args, "coll": rng.choice(S.COLLATIONS)})
    ans = ctx.drv.ask([{"op": "diff.type", **ty} for ty in items])
    with eng.connect() as conn:
        mctx = S.configure(conn, sa.MetaData())
        for ty, m in zip(items, ans):
            t = S.mk_type(ty)
            ddl, refl, _ = S.ddl_and_reflected(conn, t)
            # the real compare_type on (reflected type, metadata type)
            md = sa.MetaData()
            tb = sa.Table("_p", md, sa.Column("c", t))
            md.create_all(conn)
            insp_col = sa.inspect(conn).get_columns("_p")[0]
            real = mctx.impl.compare_type(sa.Column("c", insp_col["type"]), tb.c.c)
            md.drop_all(conn)
            impl = {"ddl": ddl, "refl": refl, "cmp": bool(real)}
            ctx.evaluation()
            ctx.hist("reflect.type", ty["fam"])
            if "err" in m or any(m.get(k) != impl[k] for k in impl):
                ctx.disagree("diff.type", ty, impl, m, "type table entry differs from the live inspector")
            else:
                ctx.trace_ok()
        defaults = [{"kind": "str", "v": v} for v in G.STR_PLAIN + G.STR_ODD] + [{"kind": "expr", "v": v} for v in G.EXPR_PLAIN + G.EXPR_ODD]
        for _ in range(12):
            defaults.append({"kind": "str", "v": "".join(rng.choice("abc XYZ019_-.,;!?()[]'\"") for _ in range(rng.randint(0, 7)))})
        ans = ctx.drv.ask([{"op": "diff.default", "d": d} for d in defaults])
        for d, m in zip(defaults, ans):
            md = sa.MetaData()
            tb = sa.Table("_p", md, sa.Column("c", sa.String(40), server_default=S.mk_default(d)))
            try:
                md.create_all(conn)
            except Exception as e:
                conn.rollback()
                ctx.hist("reflect.default", "invalid-sql")
                continue
            stored = conn.exec_driver_sql("pragma table_info(_p)").fetchall()[0][4]
            info = {"default": sa.inspect(conn).get_columns("_p")[0]["default"]}
            mctx.impl.autogen_column_reflect(None, None, info)
            from alembic.autogenerate.compare import _render_server_default_for_compare

            class _AC:
                dialect = conn.dialect

            rendered = _render_server_default_for_compare(tb.c.c.server_default, _AC)
            real = mctx.impl.compare_server_default(None, tb.c.c, rendered, info["default"])
            md.drop_all(conn)
            impl = {"stored": stored, "insp": info["default"], "cmp": bool(real)}
            ctx.evaluation()
            ctx.hist("reflect.default", d["kind"] + ("" if G.default_plain(d) else "-nonplain"))
            if "err" in m or any(m.get(k) != impl[k] for k in impl):
                ctx.disagree("diff.default", d, impl, m, "default table entry differs from live SQLite / the real comparison")
            else:
                ctx.trace_ok()


# --- live reflection dump (to validate Model.Apply) ------------------------------------------------------


def live_dump(conn):
    import warnings

    with warnings.catch_warnings():
        warnings.simplefilter("ignore")
        return _live_dump(conn)


def _live_dump(conn):
    insp = sa.inspect(conn)
    tc = conn.dialect.type_compiler
    out = {}
    for tn in insp.get_table_names():
        raw = {r[1]: r[4] for r in conn.exec_driver_sql('pragma table_info("%s")' % tn).fetchall()}
        cols = [{"name": c["name"], "type": tc.process(c["type"]), "nullable": bool(c["nullable"]), "default": raw.get(c["name"])} for c in insp.get_columns(tn)]
        uqs = sorted((u["name"], tuple(u["column_names"])) for u in insp.get_unique_constraints(tn))
        ixs = sorted((i["name"], tuple(i["column_names"]), bool(i["unique"])) for i in insp.get_indexes(tn))
        fks = sorted((f["name"], tuple(f["constrained_columns"]), f["referred_table"], tuple(f["referred_columns"])) for f in insp.get_foreign_keys(tn))
        out[tn] = {"cols": sorted(cols, key=lambda c: c["name"]), "uqs": uqs, "ixs": ixs, "fks": fks}
    return out


def model_dump(db):
    out = {}
    for t in db:
        out[t["name"]] = {
            "cols": sorted(t["cols"], key=lambda c: c["name"]),
            "uqs": sorted((u["name"], tuple(u["cols"])) for u in t["uqs"]),
            "ixs": sorted((i["name"], tuple(i["cols"]), bool(i["unique"])) for i in t["ixs"]),
            "fks": sorted((f["name"], tuple(f["cols"]), f["reftable"], tuple(f["refcols"])) for f in t["fks"]),
        }
    return out


# --- pair pipeline (C06) ----------------------------------------------------------------------------------


def order_b(b, mdb):
    """tables of b in MetaData.sorted_tables order (the order the implementation iterates)"""
    order = S.md_table_order(mdb)
    by = {t["name"]: t for t in b["tables"]}
    return {"tables": [by[n] for n in order]}


def run_pair(ctx, a, b, ct, cd, batch, pending, compare_model=True):
    """quiet + correspondence + converge for one (A, B, settings).  Returns a summary string."""
    inp = {"a": a, "b": b, "ct": ct, "cd": cd, "batch": batch}
    flags = sorted(G.schema_flags(a) | G.schema_flags(b))
    if "default-func" in flags or "computed-nullable-unset" in flags or "fk-default-schema" in flags:
        compare_model = False  # SQL function defaults are judged by the implementation-side oracle only
    in_class = not flags and pair_wf(a, b)
    mda, mdb = S.build_metadata(a), S.build_metadata(b)
    eng = S.new_engine()
    try:
        conn = S.fresh_db(eng, mda)
    except Exception as e:
        ctx.hist("pair.outcome", "create-failed")
        return "create-failed"
    try:
        ctx.evaluation()
        # (ii) quiet
        try:
            mq, _, ops_q = S.produce(conn, mda, ct, cd, batch)
            pending.append(("quiet", inp, ops_q, None))
            if batch and ct is True and cd is True:
                # the public entry point must report the same thing as produce_migrations().upgrade_ops.as_diffs()
                import warnings as _w
                from alembic.autogenerate import compare_metadata

                with _w.catch_warnings():
                    _w.simplefilter("ignore")
                    via_cm = S.canon_diffs(mq, compare_metadata(mq, mda))
                if via_cm != ops_q:
                    ctx.disagree("compare_metadata", inp, via_cm, ops_q, "compare_metadata differs from produce_migrations")
            # (i) correspondence of the diff
            mctx, script, ops = S.produce(conn, mdb, ct, cd, batch)
        except Exception as e:
            if pair_wf(a, b):
                ctx.fail(inp, "autogenerate-error: autogenerate raises (%s: %s)" % (type(e).__name__, str(e)[:300]),
                         tags=["batch:%s" % batch, "exc:%s" % type(e).__name__] + flags)
            return "autogenerate-error"
        if compare_model:
            pending.append(("diff", {**inp, "b": order_b(b, mdb)}, ops, in_class))
        kinds = sorted({o["k"] for o in ops})
        for k in kinds:
            ctx.hist("pair.opkind", k)
        ctx.hist("pair.nops", min(len(ops), 12))
        if not batch and not sqlite_can_alter(ops, a, b):
            # SQLite cannot ALTER some of these ops: the non-batch upgrade must refuse (NotImplementedError / a
            # database error), not silently skip work; if it does run through, it is judged like any other upgrade
            try:
                src = S.exec_upgrade(conn, mctx, script)
            except Exception as e:
                ctx.hist("pair.outcome", "nonbatch-refused:%s" % type(e).__name__)
                return "skip"
            refused = False
        else:
            refused = None
        # (iii) converge: execute the rendered upgrade, diff again
        try:
            if refused is None:
                src = S.exec_upgrade(conn, mctx, script)
        except Exception as e:
            if pair_wf(a, b):
                extra = []
                acols = {t["name"]: {c["name"] for c in t["cols"]} for t in a["tables"]}
                if any(t["name"] in acols and not (acols[t["name"]] & {c["name"] for c in t["cols"]}) for t in b["tables"]):
                    extra.append("table-without-common-column")
                if any(ix.get("desc") for t in b["tables"] for ix in t["ixs"]):
                    extra.append("index-desc")
                ctx.fail(inp, "upgrade-error: the rendered upgrade does not run (%s: %s)" % (type(e).__name__, str(e)[:300]),
                         impl={"ops": ops}, tags=["batch:%s" % batch, "exc:%s" % type(e).__name__] + extra + flags)
            else:
                ctx.hist("pair.outcome", "upgrade-error-outside-class")
            return "upgrade-error"
        # the second autogenerate: half of the runs on a fresh MigrationContext (what the command line does), half
        # through the SAME context that produced the first diff and executed the upgrade (API use)
        same_ctx = (len(ops) + len(a["tables"]) + (1 if batch else 0) + (1 if ct is True else 0)) % 2 == 0
        ctx.hist("pair.second_diff", "same-context" if same_ctx else "fresh-context")
        try:
            if same_ctx:
                ops2 = S.produce_again(mctx, mdb)
            else:
                _, _, ops2 = S.produce(conn, mdb, ct, cd, batch)
        except Exception as e:
            if pair_wf(a, b):
                ctx.fail(inp, "converge-error: the second autogenerate raises after the upgrade (%s: %s)" % (type(e).__name__, str(e)[:300]),
                         impl={"first": ops, "src": src}, tags=["batch:%s" % batch, "exc:%s" % type(e).__name__] + flags)
            return "converge-error"
        pending.append(("converge", inp, ops2, {"first": ops, "src": src, "second_diff_context": "same" if same_ctx else "fresh"}))
        if compare_model and in_class:
            pending.append(("db", {**inp, "b": order_b(b, mdb)}, live_dump(conn), {"recreated": getattr(S.exec_upgrade, "recreated", None)}))
        ctx.hist("pair.outcome", "ok" if not ops2 else "residual")
        if ops:
            ctx.nontrivial((repr(ct), repr(cd), batch, repr(S.normalise_order(ops))))
        return "ok"
    finally:
        conn.close()
        eng.dispose()


def flush_pairs(ctx, pending):
    reqs = []
    for kind, inp, ops, extra in pending:
        if kind in ("quiet", "converge"):
            reqs.append({"op": "diff.spec_quiet", "ops": ops})
        elif kind == "diff":
            reqs.append({"op": "diff.diff", "a": inp["a"], "b": inp["b"], **S.cfg_json(inp["ct"], inp["cd"])})
        elif kind == "db":
            reqs.append({"op": "diff.converge", "a": inp["a"], "b": inp["b"], **S.cfg_json(inp["ct"], inp["cd"])})
    ans = ctx.drv.ask(G.to_model(reqs))
    for (kind, inp, ops, extra), m in zip(pending, ans):
        if kind in ("quiet", "converge"):
            if "err" in m:
                ctx.disagree("diff.spec_quiet", inp, ops, m, "implementation ops outside the model vocabulary")
                continue
            if m.get("holds") is not True and not pair_wf(inp["a"], inp["b"]):
                ctx.hist("pair.outcome", "residual-outside-property-class")
            elif m.get("holds") is not True:
                for o in ops:
                    what = ("quiet: autogenerate reports %s against the database created from the same model" if kind == "quiet"
                            else "converge: after running the generated upgrade a second autogenerate still reports %s") % o
                    ctx.fail({**inp, "residual": o}, what, impl={"ops": ops, **(extra or {})},
                             tags=[kind, "batch:%s" % inp["batch"]] + op_tags(o, inp["a"], inp["a"] if kind == "quiet" else inp["b"]))
        elif kind == "diff":
            mo = m.get("ops")
            if "pkStable" in m and m["pkStable"] != pk_stable(inp["a"], inp["b"]):
                ctx.disagree("diff.pkStable", inp, pk_stable(inp["a"], inp["b"]), m["pkStable"], "class predicate PkStable: harness and Lean differ")
            if mo is None or S.normalise_order(mo) != S.normalise_order(ops):
                ctx.disagree("diff.diff", inp, S.normalise_order(ops), mo if mo is None else S.normalise_order(mo),
                             "in-class" if extra else "outside-class")
            else:
                ctx.trace_ok()
        elif kind == "db":
            if "err" in m or model_dump(m["db"]) != ops or m["second"] != []:
                ctx.disagree("diff.converge", inp, ops, m.get("db"), "database after the upgrade differs from Model.Apply (or the model does not converge)")
            elif inp["batch"] and extra and extra.get("recreated") is not None and sorted(m.get("recreates", [])) != extra["recreated"] \
                    and not any(c.get("computed") for sch in (inp["a"], inp["b"]) for t in sch["tables"] for c in t["cols"]):
                # (a persisted Computed column is a further reason to recreate, outside the model's column vocabulary)
                ctx.disagree("diff.batchRecreates", inp, extra["recreated"], sorted(m.get("recreates", [])),
                             "tables recreated by the batch blocks differ from Model.Diff.recreatedTables")
            else:
                ctx.trace_ok()
    pending.clear()


# --- mutation pipeline (C07) -----------------------------------------------------------------------------------


def family_of(conn, ty):
    txt = conn.dialect.type_compiler.process(S.mk_type(ty))
    w = re.match(r"^\w+", txt).group(0).upper()
    return "NUMERIC" if w == "DECIMAL" else w


def default_value(d):
    """Python twin of Spec.Diff.defaultValue (cross-checked against the driver)"""
    if d is None:
        return None
    if d["kind"] == "str":
        return d["v"]
    if d["kind"] == "func":
        return "<func %s>" % d["v"]
    e = d["v"].strip(" \t\n\r")
    if len(e) >= 2 and e[0] == "(" and e[-1] == ")":
        e = e[1:-1].strip(" \t\n\r")
    if len(e) >= 3 and e[0] == "'" and e[-1] == "'":
        e = e[1:-1]
    return e


def applicable(conn, a, desc):
    """the applicability side conditions of the documented catalogue that need values"""
    m = desc["m"]
    if m == "changeType":
        old = find_col(a, desc["t"], desc["c"])["ty"]
        return G.effective_ty(old)["fam"] not in S.UNREFLECTABLE and family_of(conn, old) != family_of(conn, desc["ty"])
    if m == "changeDefault":
        old = find_col(a, desc["t"], desc["c"]).get("default")
        return default_value(old) != default_value(desc["default"])
    return True


def callable_setting(rng, schemas, p_false=0.2):
    """a comparison callable as data: False ("treat as unchanged") on a random ~20% of the columns, None elsewhere"""
    cols = sorted({(t["name"], c["name"]) for s in schemas for t in s["tables"] for c in t["cols"]})
    return {"callable": [[t, c, False] for t, c in cols if rng.random() < p_false]}


def mutation_settings(rng, a, b, desc):
    """the configuration axis of C07: (compare_type, compare_server_default) as True or as callables.
    Returns None when the callable itself suppresses the change (not applicable)."""
    r = rng.random()
    if r < 0.5:
        return True, True
    if r < 0.75:
        return {"callable": []}, {"callable": []}          # callables that always defer (answer None)
    ct, cd = callable_setting(rng, [a, b]), callable_setting(rng, [a, b])
    for setting, kind in ((ct, "changeType"), (cd, "changeDefault")):
        if desc["m"] == kind:
            hit = [e for e in setting["callable"] if e[0] == desc["t"] and e[1] == desc["c"]]
            if hit:
                if rng.random() < 0.5:
                    return None                                 # the user's callable says "unchanged": nothing to detect
                hit[0][2] = True                                # ... or says "changed" (truthfully)
    return ct, cd


def run_mutation(ctx, a, desc, b, pending, rng=None):
    settings = mutation_settings(rng, a, b, desc) if rng is not None else (True, True)
    if settings is None:
        ctx.hist("mut.outcome", "suppressed-by-callable:" + desc["m"])
        return
    ct, cd = settings
    inp = {"a": a, "m": desc, "ct": ct, "cd": cd}
    ctx.hist("mut.settings", "ct=%s cd=%s" % tuple("callable(%d verdicts)" % len(x["callable"]) if isinstance(x, dict) else x for x in (ct, cd)))
    mda, mdb = S.build_metadata(a), S.build_metadata(b)
    eng = S.new_engine()
    try:
        conn = S.fresh_db(eng, mda)
    except Exception:
        ctx.hist("mut.outcome", "create-failed")
        return
    try:
        if not applicable(conn, a, desc):
            ctx.hist("mut.outcome", "not-applicable:" + desc["m"])
            return
        ctx.evaluation()
        try:
            _, _, ops = S.produce(conn, mdb, ct, cd, True)
        except Exception as e:
            # a crash is the strongest form of not reporting the change
            ctx.hist("mut.kind", desc["m"])
            ctx.fail(inp, "missed: autogenerate raised %s: %s for change %s" % (type(e).__name__, str(e)[:200], desc["m"]),
                     tags=["missed", "mut:" + desc["m"], "exc:" + type(e).__name__])
            return
        ctx.hist("mut.kind", desc["m"])
        ctx.nontrivial((desc["m"], repr(S.normalise_order(ops))))
        pending.append((inp, {"tables": [t for t in order_b(b, mdb)["tables"]]}, ops))
    finally:
        conn.close()
        eng.dispose()


def flush_mutations(ctx, pending):
    reqs = []
    for inp, b, ops in pending:
        reqs.append({"op": "diff.spec_detect", "a": inp["a"], "m": inp["m"], "ops": ops})
        reqs.append({"op": "diff.diff", "a": inp["a"], "b": b, **S.cfg_json(inp.get("ct", True), inp.get("cd", True))})
    ans = ctx.drv.ask(G.to_model(reqs))
    for i, (inp, b, ops) in enumerate(pending):
        s, m = ans[2 * i], ans[2 * i + 1]
        flags = sorted(G.schema_flags(inp["a"]) | G.schema_flags(b))
        if "err" in s:
            ctx.disagree("diff.spec_detect", inp, ops, s, "implementation ops / mutation outside the model vocabulary")
        elif s.get("holds") is not True:
            if not s.get("reported"):
                tags = ["missed", "mut:" + inp["m"]["m"]]
                if inp["m"]["m"] == "dropTableRefs":
                    with_schema = {t["name"] for t in inp["a"]["tables"] if t.get("schema")}
                    if inp["m"]["t"] in with_schema or any(t["name"] in with_schema for t in inp["a"]["tables"]
                                                           for g in t["fks"] if g["reftable"] == inp["m"]["t"]):
                        tags.append("fk-default-schema")
                if inp["m"]["m"] in ("addFK", "dropFK"):
                    with_schema = {t["name"] for t in inp["a"]["tables"] if t.get("schema")}
                    fk = inp["m"].get("fk") or next((f for t in inp["a"]["tables"] if t["name"] == inp["m"]["t"] for f in t["fks"] if f["name"] == inp["m"].get("n")), None)
                    if inp["m"]["t"] in with_schema or (fk and fk["reftable"] in with_schema):
                        tags.append("fk-default-schema")
                if inp["m"]["m"] == "changeDefault":
                    old = find_col(inp["a"], inp["m"]["t"], inp["m"]["c"]).get("default")
                    tags += ["old-" + x for x in default_tags(old)] + ["new-" + x for x in default_tags(inp["m"]["default"])]
                ctx.fail(inp, "missed: change %s is not reported (ops: %s)" % (inp["m"]["m"], ops), impl={"ops": ops}, tags=tags)
            for idx in s.get("unrelated", []):
                o = ops[idx]
                ctx.fail({**inp, "unrelated": o}, "unrelated: the upgrade for change %s also contains %s" % (inp["m"]["m"], o),
                         impl={"ops": ops}, tags=["unrelated", "mut:" + inp["m"]["m"]] + op_tags(o, inp["a"], b))
        mo = m.get("ops")
        if "fk-default-schema" in flags:
            pass  # known finding C07-MAINFK: the model does not mirror the defect; the oracle above still judges
        elif mo is None or S.normalise_order(mo) != S.normalise_order(ops):
            ctx.disagree("diff.diff", {**inp, "b": b}, S.normalise_order(ops), mo and S.normalise_order(mo), "mutation")
        else:
            ctx.trace_ok()
    pending.clear()
