"""C12 generators: histories with migration bodies (JSON op lists, see offline_impl.run_ops).

Every revision owns the objects it creates (names carry the revision id), may add columns /
indexes / rows to tables of its ancestors (which exist whenever the revision runs, in any
branch interleaving), and its downgrade undoes the schema changes in reverse order.  All
values are literals; nothing reads from the database.
"""
from __future__ import annotations

from .gen_graph import anc_closure, gen_history, maximal

NAME_POOL = [
    "t", "users", "Order", "select", "my table", 'we"ird', "semi;colon", "it's", "dash--dash", "ünï",
    "日本", "1st", "a.b", "x%y", "UPPER", "table", "group", "q?m", "par(en)", "back\\slash", "new\nline", "😀",
]
PLAIN_NAMES = ["t", "users", "acct", "item", "log", "Order", "select", "my table", 'we"ird', "semi;colon", "it's", "dash--dash"]
STR_ATOMS = [
    "a", "b", "Z", " ", "'", "''", '"', "\\", ";", "--", "\n", "\r\n", "%", "%s", "?", ":", ":x", "é", "ü", "日本", "😀", " ",
    "/*", "*/", "NULL", "0", ");", "'; DROP TABLE x; --", "\\'", "$", "`", "[", "]", "\x7f", " ", "\x01",
]
TYPES_LANG = ["Integer", "Text", "String(50)", "String(7)"]
TYPES_ALL = TYPES_LANG + ["Float", "Numeric(10,3)", "Date", "DateTime", "Boolean", "Numeric(20,6)"]


# what sqlalchemy.text() treats specially, in forms that are legal inside an op.execute() string literal:
# the documented \\:name escape of a literal colon, '::', a colon not followed by a word / glued to a word,
# percent signs, positional markers
TEXT_ATOMS = ["\\:intro", "x\\:y", "\\:a \\:b", "\\: ", "::", "a::b", "a:b", "a: b", "t:1", "%", "%%", "%s", "100%", "%d%%", "?", "?1", "$1", "@x"]
# bind-looking tokens that are NOT escaped (user error per the text() docs; see finding C12-BINDTEXT)
BIND_ATOMS = [" :x ", ":name", "%(x)s", " :x1"]


def gen_str(rng, tabs=False, for_text=False):
    """for_text: False = a bound value; "plain" = inside an op.execute() text, colons removed;
    "text" = the same plus TEXT_ATOMS; "bind" = plus unescaped bind-looking tokens"""
    n = rng.choice([0, 1, 1, 2, 3, 3, 5, 8])
    atoms = STR_ATOMS + (["\t", "a\tb"] if tabs else [])
    parts = [rng.choice(atoms) for _ in range(n)]
    if for_text:
        # sqlalchemy.text() would read :name as a bind parameter, also inside quotes
        parts = [x.replace(":", "") for x in parts]
        if for_text in ("text", "bind"):
            for _ in range(rng.choice([0, 1, 1, 2, 2])):
                # the escape forms (first four atoms) twice as often as the rest
                parts.insert(rng.randint(0, len(parts)), rng.choice(TEXT_ATOMS[:4] + TEXT_ATOMS))
        if for_text == "bind" and rng.random() < 0.5:
            parts.insert(rng.randint(0, len(parts)), rng.choice(BIND_ATOMS))
    return "".join(parts)


def gen_value(rng, typ, nullable=True, tabs=False, for_text=False):
    if nullable and rng.random() < 0.15:
        return {"k": "null"}
    base = typ.split("(")[0]
    if base == "Integer":
        return {"k": "int", "v": rng.choice([0, 1, -1, 7, 42, -300, 2**31, -(2**31), 2**63 - 1, -(2**63) + 1, rng.randint(-10**6, 10**6)])}
    if base in ("Text", "String"):
        return {"k": "str", "v": gen_str(rng, tabs, for_text)}
    if base == "Float":
        return {"k": "float", "v": repr(rng.choice([0.0, 1.5, -2.25, 1e-07, 3.0, 1e20, 123456.789, -1e-05, 0.1, 2.5e-12, rng.uniform(-1e6, 1e6)]))}
    if base == "Numeric":
        return {"k": "dec", "v": rng.choice(["1.500", "-12.345", "0.001", "10", "0", "1234567.891", "-0.5", "1E+2", "3.140"])}
    if base == "Date":
        return {"k": "date", "v": rng.choice(["0001-01-01", "2024-02-29", "9999-12-31", "1969-12-31", "2000-01-01"])}
    if base == "DateTime":
        return {"k": "datetime", "v": rng.choice(["2020-01-02T03:04:05", "0001-01-01T00:00:00", "1999-12-31T23:59:59.999999", "2024-02-29T12:00:00.000123"])}
    if base == "Boolean":
        return {"k": "bool", "v": rng.random() < 0.5}
    raise ValueError(typ)


def sql_ident(n):
    return '"%s"' % n.replace('"', '""')


_PREP = None


def sa_quote(n):
    """the identifier as SQLAlchemy's SQLite preparer writes it (canonical statement texts)"""
    global _PREP
    if _PREP is None:
        from sqlalchemy.dialects import sqlite

        _PREP = sqlite.dialect().identifier_preparer
    return _PREP.quote(n)


def sql_lit(v):
    k = v["k"]
    if k == "null":
        return "NULL"
    if k == "int":
        return str(v["v"])
    if k == "str":
        return "'%s'" % v["v"].replace("'", "''")
    raise ValueError(k)


class BodyGen:
    def __init__(self, rng, hist, lang_only=False, tabs=False, plain_names=False, hetero=False, bindtext=False):
        self.rng = rng
        # string literals inside op.execute() texts: in-language bodies keep to what the Lean model reads
        self.text_mode = "plain" if lang_only else ("bind" if bindtext else "text")
        self.hetero = hetero
        self.hist = hist
        self.lang_only = lang_only
        self.tabs = tabs
        self.names = PLAIN_NAMES if plain_names else NAME_POOL
        self.counter = 0
        self.nextid = 1
        self.created = {}  # rev -> list of table dicts that survive the upgrade
        self.added = {}  # rev -> list of (table name, col dict)

    def uniq(self, rev, base=None):
        self.counter += 1
        base = base if base is not None else self.rng.choice(self.names)
        if self.tabs and self.rng.random() < 0.05:
            base += "\t"
        return "%s_%s_%d" % (base, rev, self.counter)

    def gen_default(self, typ, constant_only=False):
        """a server default for the column type (None: the type gets none here)"""
        rng = self.rng
        base = typ.split("(")[0]
        if base in ("Text", "String"):
            opts = [{"kind": "str", "v": rng.choice(["dflt", "it's", "a;b", "--x", "", "ü", "NULL", "0"])}]
            if not constant_only:
                opts.append({"kind": "text", "v": rng.choice(["('x' || 'y')", "(lower('ABC'))"])})
        elif base == "Integer":
            opts = [{"kind": "text", "v": rng.choice(["7", "0", "-3"])}, {"kind": "str", "v": "42"}]
            if not constant_only:
                opts.append({"kind": "text", "v": "(40 + 2)"})
        elif base == "Float":
            opts = [{"kind": "text", "v": rng.choice(["1.5", "0.25"])}]
        elif base == "Boolean":
            opts = [{"kind": "text", "v": rng.choice(["1", "0"])}]
        else:
            return None
        return rng.choice(opts)

    def gen_col(self, rev, nullable_only=False, add_column=False):
        typ = self.rng.choice(TYPES_LANG if self.lang_only else TYPES_ALL)
        c = {"name": self.uniq(rev, self.rng.choice(self.names + ["c", "val", "name"])), "type": typ,
             "nullable": True if nullable_only else self.rng.random() < 0.75}
        if not self.lang_only and not add_column:
            r = self.rng.random()
            if r < 0.08:
                c["index"] = True   # Column(index=True): create_table emits CREATE INDEX ix_<table>_<col> after the table
        if not self.lang_only and self.rng.random() < (0.5 if add_column else 0.3):
            d = self.gen_default(typ, constant_only=add_column)
            if d is not None:
                c["default"] = d
                if add_column:  # SQLite accepts ADD COLUMN ... NOT NULL when there is a non-NULL constant default
                    c["nullable"] = self.rng.random() < 0.6
        return c

    def gen_table(self, rev):
        cols = [{"name": "id", "type": "Integer", "nullable": False}]
        if not self.lang_only and self.rng.random() < 0.5:
            cols[0]["pk"] = True
        elif not self.lang_only and self.rng.random() < 0.15:
            cols[0]["unique"] = True  # inline UNIQUE (id values are unique)
        for _ in range(self.rng.choice([0, 1, 2, 2, 3, 5])):
            cols.append(self.gen_col(rev))
        t = {"name": self.uniq(rev), "cols": cols}
        if not self.lang_only:
            if self.rng.random() < 0.1:
                t["checks"] = [{"text": self.rng.choice(["id >= 0", "id <> -1 AND id < 100000000", "id = id"]),
                                "name": self.rng.choice([None, "ck_" + rev, "ck;odd name"])}]
            fk_targets = [x for r in self.created.values() for x in r if "." not in x["name"] and x["cols"][0].get("pk")]
            if fk_targets and self.rng.random() < 0.1:
                cols.append({"name": self.uniq(rev, "ref"), "type": "Integer", "nullable": True,
                             "fk": "%s.id" % self.rng.choice(fk_targets)["name"]})
        return t

    def cols_of(self, table, anc, extra):
        cols = list(table["cols"])
        for r in anc:
            for tn, c in self.added.get(r, []):
                if tn == table["name"]:
                    cols.append(c)
        for tn, c in extra:
            if tn == table["name"]:
                cols.append(c)
        return cols

    def gen_rows(self, cols, for_text=False, hetero=False):
        """rows of one bulk_insert: the same key set in every row (nullable columns may be omitted
        from all of them) unless `hetero` (rows with different key sets: see finding C12-HETERO)"""
        rows = []
        # a key may be left out when the column is nullable or has a server default (the default applies)
        omitted = {c["name"] for c in cols if (c["nullable"] or c.get("default")) and c["name"] != "id"
                   and self.rng.random() < (0.3 if c.get("default") else 0.2)}
        for _ in range(self.rng.choice([0, 1, 1, 2, 3, 6])):
            row = {}
            for c in cols:
                if c["name"] == "id":
                    row["id"] = {"k": "int", "v": self.nextid}
                    self.nextid += 1
                elif c["name"] in omitted or (hetero and (c["nullable"] or c.get("default")) and self.rng.random() < 0.3):
                    continue  # omitted column
                elif c.get("default") and c["nullable"] and self.rng.random() < 0.35:
                    row[c["name"]] = {"k": "null"}  # explicit None although the column has a default: NULL must be stored
                else:
                    row[c["name"]] = gen_value(self.rng, c["type"], c["nullable"], self.tabs, for_text)
            rows.append(row)
        return rows

    def gen_execute(self, table, cols):
        rng = self.rng
        tcols = [c for c in cols if c["type"].split("(")[0] in ("Integer", "Text", "String") and c["name"] != "id"]
        kind = rng.choice(["update", "delete", "insert"]) if tcols else rng.choice(["delete", "insert"])
        tn = sql_ident(table["name"])
        if kind == "update":
            c = rng.choice(tcols)
            txt = "UPDATE %s SET %s = %s WHERE id %s %d" % (tn, sql_ident(c["name"]), sql_lit(gen_value(rng, c["type"], c["nullable"], self.tabs, self.text_mode)),
                                                           rng.choice(["=", ">", "<>"]), rng.randint(0, max(1, self.nextid)))
        elif kind == "delete":
            txt = "DELETE FROM %s WHERE id = %d" % (tn, rng.randint(0, max(1, self.nextid)))
        else:
            use = [c for c in cols if c["name"] == "id" or not c["nullable"] or (c in tcols and rng.random() < 0.6)]
            use = [c for c in use if c["name"] == "id" or c in tcols]
            if any((not c["nullable"]) and not c.get("default") and c not in use for c in cols):
                txt = "DELETE FROM %s WHERE id = -1" % tn
            else:
                vals = []
                for c in use:
                    if c["name"] == "id":
                        vals.append(str(self.nextid))
                        self.nextid += 1
                    else:
                        vals.append(sql_lit(gen_value(rng, c["type"], c["nullable"], self.tabs, self.text_mode)))
                if rng.random() < 0.5:  # exactly the text SQLAlchemy would write: the model's recogniser reads it as an INSERT
                    return {"op": "execute", "text": "INSERT INTO %s (%s) VALUES (%s)" % (
                        sa_quote(table["name"]), ", ".join(sa_quote(c["name"]) for c in use), ", ".join(vals))}
                txt = "INSERT INTO %s (%s) VALUES (%s)" % (tn, ", ".join(sql_ident(c["name"]) for c in use), ", ".join(vals))
        deco = rng.random()
        if deco < 0.1:
            txt += ";"
        elif deco < 0.2:
            txt = "\n  " + txt + "  \n"
        elif deco < 0.27:
            txt = txt.replace(" SET ", "\tSET ").replace(" WHERE ", "\n\tWHERE ").replace(" VALUES ", "\tVALUES ")
        elif deco < 0.32:
            txt = txt.replace("UPDATE", "update").replace("DELETE FROM", "delete from").replace("INSERT INTO", "insert into")
        o = {"op": "execute", "text": txt}
        if not self.lang_only and rng.random() < 0.35:
            o["as_text"] = True  # op.execute(sa.text(...)) instead of a plain string
        if not self.lang_only:
            r = rng.random()
            if r < 0.12:
                o["execution_options"] = rng.choice([{"c12_marker": 1}, {"no_parameters": True}, {"stream_results": False}])
            if rng.random() < 0.12:
                o["via"] = "context"  # op.get_context().execute(...)
        return o

    def gen_execute_expr(self, table, cols):
        """op.execute(<insert/update/delete construct>) with bound values of every generated type"""
        rng = self.rng
        kind = rng.choice(["insert", "insert", "update", "delete"])
        o = {"op": "execute_expr", "kind": kind, "table": table["name"], "cols": [{"name": c["name"], "type": c["type"]} for c in cols]}
        if kind == "insert":
            rows = []
            while not rows:
                rows = self.gen_rows(cols)
            o["values"] = rows[0]
        elif kind == "update":
            cs = [c for c in cols if c["name"] != "id"]
            if not cs:
                o["kind"] = "delete"
            else:
                c = rng.choice(cs)
                o["values"] = {c["name"]: gen_value(rng, c["type"], c["nullable"], self.tabs)}
        if o["kind"] != "insert":
            o["where_id"] = rng.randint(0, max(1, self.nextid))
        return o

    def bulk(self, table, cols):
        multi = self.rng.random() < 0.7
        # heterogeneous key sets: always with multiinsert=False, with multiinsert=True only when asked for
        hetero = (self.rng.random() < 0.25) if not multi else (self.hetero and self.rng.random() < 0.3)
        rows = self.gen_rows(cols, hetero=hetero)
        used = [c for c in cols if any(c["name"] in r for r in rows)] or cols[:1]
        if self.rng.random() < 0.3:
            used = cols
        o = {"op": "bulk_insert", "table": table["name"], "cols": [{"name": c["name"], "type": c["type"]} for c in used],
             "rows": rows, "multiinsert": multi}
        if not self.lang_only and self.rng.random() < 0.12:
            # a real sa.Table whose columns have key != name; the rows are keyed by the keys (JSON rows stay keyed by name)
            ks = {}
            for i, c in enumerate(used):
                if self.rng.random() < 0.6:
                    ks[c["name"]] = self.rng.choice(["attr%d", "k %d", "Key_%d", "id_%d"]) % i
            if ks:
                o["keys"] = ks
        elif not self.lang_only and self.rng.random() < 0.1:
            # ad-hoc sa.table() with UNTYPED columns: the values reach pysqlite / the literal renderer as plain Python objects
            o["untyped"] = True
            for r in rows:
                for c in cols:
                    if c["name"] in r and c["name"] != "id" and r[c["name"]]["k"] != "null" and self.rng.random() < 0.35:
                        r[c["name"]] = self.rng.choice([
                            {"k": "datetime", "v": "2024-03-03T09:30:00"}, {"k": "datetime", "v": "2024-03-03T09:30:00.000123"},
                            {"k": "date", "v": "2024-02-29"}, {"k": "bool", "v": True}, {"k": "bytes", "v": "00ff27"},
                            {"k": "int", "v": 7}, {"k": "str", "v": "plain ü"}, {"k": "float", "v": "1.5"}])
        return o

    def wrap_autocommit(self, ops):
        """with probability ~1/5 put a contiguous run of the body into `with op.get_context().autocommit_block():`
        (any position: first, middle, last statements; sometimes an empty block)"""
        rng = self.rng
        if rng.random() >= 0.2:
            return ops
        n = len(ops)
        i = rng.randint(0, n)
        j = rng.randint(i, min(n, i + rng.choice([0, 1, 1, 2, 3])))
        return ops[:i] + [{"op": "autocommit", "ops": ops[i:j]}] + ops[j:]

    def gen_rev(self, rev, anc):
        """anc: ancestors of rev (excluding rev)"""
        rng = self.rng
        up, undo = [], []
        own, added_here = [], []
        self.created[rev] = own
        self.added[rev] = added_here

        def avail():
            return [t for r in anc for t in self.created.get(r, [])] + own

        for _ in range(rng.choice([0, 1, 2, 3, 3, 4, 6])):
            av = avail()
            kind = rng.choice(["create", "create", "add_column", "index", "bulk", "bulk", "bulk", "execute", "execute", "temp"])
            if kind == "create" or not av:
                t = self.gen_table(rev)
                own.append(t)
                up.append({"op": "create_table", "name": t["name"], "cols": t["cols"], "checks": t.get("checks", [])})
                undo.append({"op": "drop_table", "name": t["name"]})
                if rng.random() < 0.7:
                    up.append(self.bulk(t, t["cols"]))
                continue
            t = rng.choice(av)
            cols = self.cols_of(t, anc, added_here)
            if kind == "add_column":
                c = self.gen_col(rev, nullable_only=True, add_column=True)
                added_here.append((t["name"], c))
                up.append({"op": "add_column", "table": t["name"], "col": c})
                undo.append({"op": "drop_column", "table": t["name"], "col": c["name"]})
                if c.get("default") and rng.random() < 0.7:  # rows that use / override / null the new default
                    up.append(self.bulk(t, self.cols_of(t, anc, added_here)))
            elif kind == "index":
                base = t["cols"]
                k = rng.randint(1, min(2, len(base)))
                ix = self.uniq(rev, rng.choice(["ix", "idx;1", "IX", "index"]))
                unique = (not self.lang_only) and rng.random() < 0.1 and all(c["name"] == "id" for c in base[:1]) and k == 1
                cs = ["id"] if unique else [c["name"] for c in rng.sample(base, k)]
                o = {"op": "create_index", "name": ix, "table": t["name"], "cols": cs, "unique": unique}
                if not self.lang_only:
                    r = rng.random()
                    tx = [c for c in base if c["type"].split("(")[0] in ("Text", "String")]
                    if r < 0.15 and tx:   # expression index: sa.text() element (util.sqla_compat._textual_index_column)
                        o["cols"] = [{"expr": "lower(%s)" % sql_ident(rng.choice(tx)["name"])}] + (["id"] if rng.random() < 0.5 else [])
                    elif r < 0.3:         # partial index
                        o["where"] = rng.choice(["id > 3", "id IS NOT NULL", "id % 2 = 0"])
                up.append(o)
                undo.append({"op": "drop_index", "name": ix, "table": t["name"]})
            elif kind == "bulk":
                up.append(self.bulk(t, cols))
            elif kind == "execute":
                if not self.lang_only and rng.random() < 0.3:
                    up.append(self.gen_execute_expr(t, cols))
                else:
                    up.append(self.gen_execute(t, cols))
            elif kind == "temp":
                tt = self.gen_table(rev)
                up.append({"op": "create_table", "name": tt["name"], "cols": tt["cols"], "checks": tt.get("checks", [])})
                up.append(self.bulk(tt, tt["cols"]))
                if not self.lang_only and rng.random() < 0.35 and not any(c.get("index") for c in tt["cols"]):
                    new = self.uniq(rev, rng.choice(["renamed", "re named", "Re;named"]))
                    up.append({"op": "rename_table", "name": tt["name"], "new": new})
                    tt = dict(tt, name=new)
                    up.append(self.bulk(tt, tt["cols"]))
                if rng.random() < 0.5:
                    ix = self.uniq(rev, "tix")
                    up.append({"op": "create_index", "name": ix, "table": tt["name"], "cols": ["id"], "unique": False})
                    if rng.random() < 0.5:
                        up.append({"op": "drop_index", "name": ix, "table": tt["name"]})
                up.append({"op": "drop_table", "name": tt["name"]})
        up = self.wrap_autocommit(up)
        # downgrade: optional data operations on what still exists, then undo in reverse
        down = []
        av = avail()
        if av and rng.random() < 0.5:
            t = rng.choice(av)
            cols = self.cols_of(t, anc, added_here)
            down.append(self.bulk(t, cols) if rng.random() < 0.5 else self.gen_execute(t, cols))
        if self.lang_only:
            # drop_column is outside the modelled language: keep the column on downgrade
            undo = [u for u in undo if u["op"] != "drop_column"]
        down.extend(reversed(undo))
        down = self.wrap_autocommit(down)
        return {"up": up, "down": down}


def topo(hist):
    par = {r["id"]: list(r.get("down", [])) + list(r.get("deps", [])) for r in hist}
    out, seen = [], set()

    def visit(x):
        if x in seen:
            return
        seen.add(x)
        for p in par[x]:
            visit(p)
        out.append(x)

    for r in hist:
        visit(r["id"])
    return out


def gen_bodies(rng, hist, **kw):
    g = BodyGen(rng, hist, **kw)
    bodies = {}
    for rid in topo(hist):
        anc = anc_closure(hist, [rid]) - {rid}
        bodies[rid] = g.gen_rev(rid, sorted(anc))
    return bodies


def gen_case(rng, max_n, real=False, lang_only=False, tabs=False, hetero=False, bindtext=False):
    shape = rng.choice(["linear", "linear", "branched", "merged", "merged", "deps"])
    n = rng.randint(1, max_n)
    if shape == "linear":
        hist = gen_history(rng, n, labels=False, deps=False, p_root=0.0, p_merge=0.0)
        # gen_history picks a random earlier parent: force a chain
        ids = [r["id"] for r in sorted(hist, key=lambda r: len(anc_closure(hist, [r["id"]])))]
        hist = [{"id": x, "down": [ids[i - 1]] if i else [], "deps": [], "labels": []} for i, x in enumerate(ids)]
        rng.shuffle(hist)
    elif shape == "branched":
        hist = gen_history(rng, n, labels=False, deps=False, p_root=0.15, p_merge=0.0)
    elif shape == "merged":
        hist = gen_history(rng, n, labels=False, deps=False, p_root=0.15, p_merge=0.45)
    else:
        hist = gen_history(rng, n, labels=False, deps=True, p_root=0.2, p_merge=0.3)
    ids = [r["id"] for r in hist]
    # a fraction of the histories declares branch labels (any revision may declare one; unique names)
    labelled = rng.random() < 0.35
    if labelled:
        for i, r in enumerate(hist):
            if rng.random() < 0.4:
                r["labels"] = ["%s%d" % (rng.choice(["ledger", "lbl_x", "Billing", "l"]), i)]
    bodies = gen_bodies(rng, hist, lang_only=lang_only, tabs=tabs, hetero=hetero, bindtext=bindtext, plain_names=lang_only and rng.random() < 0.5)
    cmd = rng.choice(["upgrade", "upgrade", "upgrade", "downgrade", "downgrade"])

    def state(nonempty):
        k = rng.choice([1, 1, 1, 2, 3]) if nonempty else rng.choice([0, 0, 1, 1, 2])
        if real:
            k = min(k, 1)
        roots = rng.sample(ids, min(k, len(ids)))
        return maximal(hist, anc_closure(hist, roots))

    if cmd == "upgrade":
        start = state(False)
        if real and len(start) > 1:
            start = start[:1]
        target = rng.choice(["heads", "heads", "head", rng.choice(ids), rng.choice(ids), "+1", "+2"])
    else:
        start = state(True)
        if real and len(start) > 1:
            start = start[:1]
        anc = sorted(anc_closure(hist, start))
        target = rng.choice(["base", "base", rng.choice(anc), rng.choice(anc), "-1", "-2"])
    # how the user spells the revisions: the range start (offline only; online the database is simply at that state)
    # by full id, by the branch label the start revision declares, by label@id, or by a unique prefix (>= 4 characters);
    # the target (same string online and offline) by full id, by prefix, or as label@head
    by_id = {r["id"]: r for r in hist}

    def prefix(rid):
        for k in range(4, len(rid)):
            if sum(1 for x in ids if x.startswith(rid[:k])) == 1:
                return rid[:k]
        return None

    def spell_start(rid):
        lb = by_id[rid].get("labels") or []
        r = rng.random()
        if lb and r < 0.75:
            return lb[0] if rng.random() < 0.8 else "%s@%s" % (lb[0], rid)
        if prefix(rid) and r < 0.8:
            return prefix(rid)
        return rid

    start_spelled = [spell_start(x) if (by_id[x].get("labels") or rng.random() < 0.6) else x for x in start]
    if target in by_id and prefix(target) and rng.random() < 0.3:
        target = prefix(target)
    all_labels = [l for r in hist for l in (r.get("labels") or [])]
    if cmd == "upgrade" and all_labels and rng.random() < 0.25:
        target = "%s@head" % rng.choice(all_labels)
    return {"shape": shape, "hist": hist, "bodies": bodies, "cmd": cmd, "start": start, "start_spelled": start_spelled, "target": target}


def in_language(ops):
    """is a body inside the migration-body language of the Lean model?  (autocommit blocks are transparent for
    the model: it has no transaction layer, and on SQLite they add nothing to the --sql output)"""
    from .offline_impl import flat_ops

    for o in flat_ops(ops):
        k = o["op"]
        if k == "create_table":
            if o.get("checks") or any(c.get("pk") or c.get("default") or c.get("index") or c.get("unique") or c.get("fk")
                                      or c["type"] not in TYPES_LANG for c in o["cols"]):
                return False
        elif k == "add_column":
            if o["col"].get("pk") or o["col"].get("default") or o["col"]["type"] not in TYPES_LANG:
                return False
        elif k == "create_index":
            if o.get("unique") or o.get("where") or any(isinstance(c, dict) for c in o["cols"]):
                return False
        elif k == "bulk_insert":
            if o.get("malformed") or o.get("untyped") or o.get("keys") or any(c["type"] not in TYPES_LANG for c in o["cols"]):
                return False
            if any(v["k"] not in ("null", "int", "str") for r in o["rows"] for v in r.values()):
                return False
        elif k == "execute":
            if ":" in o["text"] or o.get("as_text") or o.get("via") or o.get("execution_options"):  # text()'s colon handling is not modelled
                return False
        elif k in ("drop_table", "drop_index"):
            pass
        else:
            return False
    return True
