"""End-to-end `alembic stamp` runs (C05): a real script directory made by `command.init` (generic
template, shipped env.py untouched), real revision files, a SQLite *file* database, and
`alembic.command.stamp(cfg, targets, purge=...)`.  The version table is read back through a fresh
sqlite3 connection after the command returned, i.e. only what was committed counts.

The in-process runner of harness/rev_corr.py drives `_stamp_revs` + `HeadMaintainer` on one open
connection; what it cannot see is everything `command.stamp` adds around them: env.py, the
transaction the statements run in, `--purge` (`MigrationContext._ensure_version_table(purge=True)`),
and reading the current heads from the database.
"""
from __future__ import annotations

import contextlib
import io
import json
import logging
import os
import shutil
import sqlite3
import tempfile
import warnings

from . import gen_graph, rev_impl, revfake

REV_FILE = '''"""rev %(rid)s"""
revision = %(rid)r
down_revision = %(down)s
branch_labels = %(labels)s
depends_on = %(deps)s


def upgrade():
    pass


def downgrade():
    pass
'''


def _tup(l):
    if not l:
        return "None"
    if len(l) == 1:
        return repr(l[0])
    return repr(tuple(l))


TWO_DB_ENV_PY = (
    "# the multidb pattern, reduced: one command, one configure()/run_migrations() per database\n"
    "from alembic import context\n"
    "from sqlalchemy import create_engine\n"
    "for url in context.config.attributes['urls']:\n"
    "    eng = create_engine(url)\n"
    "    with eng.connect() as conn:\n"
    "        context.configure(connection=conn, target_metadata=None)\n"
    "        with context.begin_transaction():\n"
    "            context.run_migrations()\n"
    "    eng.dispose()\n"
)


class Env:
    def __init__(self, hist, two_db=False):
        from alembic import command
        from alembic.config import Config

        self.dir = tempfile.mkdtemp(prefix="verif_c05_")
        self.db = os.path.join(self.dir, "db.sqlite")
        self.dbs = [self.db] + ([os.path.join(self.dir, "db2.sqlite")] if two_db else [])
        ini = os.path.join(self.dir, "alembic.ini")
        cfg = Config(ini)
        cfg.set_main_option("script_location", os.path.join(self.dir, "scripts"))
        with contextlib.redirect_stdout(io.StringIO()):
            cfg.stdout = io.StringIO()
            command.init(cfg, os.path.join(self.dir, "scripts"))
        cfg = Config(ini)
        cfg.stdout = io.StringIO()
        cfg.set_main_option("script_location", os.path.join(self.dir, "scripts"))
        cfg.set_main_option("sqlalchemy.url", "sqlite:///" + self.db)
        self.cfg = cfg
        if two_db:
            with open(os.path.join(self.dir, "scripts", "env.py"), "w") as f:
                f.write(TWO_DB_ENV_PY)
            cfg.attributes["urls"] = ["sqlite:///" + d for d in self.dbs]
        vdir = os.path.join(self.dir, "scripts", "versions")
        for r in hist:
            with open(os.path.join(vdir, "%s_.py" % r["id"]), "w") as f:
                f.write(REV_FILE % {"rid": r["id"], "down": _tup(r["down"]), "deps": _tup(r.get("deps")),
                                    "labels": _tup(r.get("labels"))})

    def close(self):
        shutil.rmtree(self.dir, ignore_errors=True)

    def rows(self, k=0):
        """in the order the table hands them out (what get_current_heads sees)"""
        con = sqlite3.connect(self.dbs[k])
        try:
            try:
                return [r[0] for r in con.execute("select version_num from alembic_version")]
            except sqlite3.OperationalError:
                return None  # no version table
        finally:
            con.close()

    def set_rows(self, rows, k=0):
        con = sqlite3.connect(self.dbs[k])
        try:
            con.execute("create table if not exists alembic_version (version_num varchar(32) not null, "
                        "constraint alembic_version_pkc primary key (version_num))")
            con.execute("delete from alembic_version")
            for r in rows:
                con.execute("insert into alembic_version values (?)", (r,))
            con.commit()
        finally:
            con.close()

    def stamp(self, targets, purge):
        from alembic import command

        lvl = logging.root.manager.disable
        logging.disable(logging.CRITICAL)
        try:
            with warnings.catch_warnings():
                warnings.simplefilter("ignore")
                with rev_impl.alarm(20):
                    command.stamp(self.cfg, list(targets) if len(targets) != 1 else targets[0], purge=purge)
            return {"ok": True}
        except BaseException as e:  # noqa
            return {"err": rev_impl.err_name(e)}
        finally:
            logging.disable(lvl)
            for name in ("", "alembic", "sqlalchemy", "sqlalchemy.engine"):
                lg = logging.getLogger(name)
                lg.handlers[:] = []
                lg.setLevel(logging.WARNING)


def file_order(hist):
    return sorted(hist, key=lambda r: "%s_.py" % r["id"])


def e2e_targets(rng, hist):
    ids = [r["id"] for r in hist]
    labels = [l for r in hist for l in r.get("labels", [])]
    pool = [["heads"], ["base"], ["base"]] + [[i] for i in ids]
    if len(ids) >= 2:
        pool += [rng.sample(ids, 2) for _ in range(2)]
    for l in labels:
        pool.append([l + "@head"])
    for i in [x for x in ids if len(x) > 4][:3]:
        pool.append([i[:-1]])
    return pool


def run(ctx, rng, n_graphs, cmds_per_graph):
    """returns nothing; reports through ctx"""
    cases = []
    for _ in range(n_graphs):
        hist = gen_graph.gen_history(rng, rng.randint(2, 7), labels=rng.random() < 0.4, deps=rng.random() < 0.5)
        # the real directory is read in sorted file-name order; give the model the same order
        hist = file_order(hist)
        sd, info = rev_impl.load(hist)
        if sd is None:
            continue
        two_db = rng.random() < 0.3
        env = Env(hist, two_db=two_db)
        try:
            if two_db:
                # the second database starts somewhere else
                env.set_rows(gen_graph.reachable_state(rng, hist), 1)
            for k in range(cmds_per_graph):
                before = env.rows() or []
                before2 = (env.rows(1) or []) if two_db else None
                purge = rng.random() < (0.65 if two_db else 0.4)
                bogus = False
                if purge and rng.random() < 0.3:
                    # what --purge is for: a row that names no revision
                    before = before + ["deadbeef"]
                    env.set_rows(before)
                    bogus = True
                targets = rng.choice(e2e_targets(rng, hist))
                res = env.stamp(targets, purge)
                after = env.rows()
                c = {"revs": hist, "normOrder": info["normOrder"], "before": before, "targets": targets,
                     "purge": purge, "bogus": bogus, "res": res, "after": after}
                if two_db:
                    c["dbRows"], c["db"] = [before, before2], 0
                    cases.append(dict(c, before=before2, bogus=False, after=env.rows(1), db=1))
                cases.append(c)
        finally:
            env.close()
    judge(ctx, cases)


def judge(ctx, cases):
    if not cases:
        return
    ops = []
    for c in cases:
        ops.append({"op": "rev.cmd", "revs": c["revs"], "normOrder": c["normOrder"], "cmd": "stamp",
                    "rows": [] if c["purge"] else c["before"], "targets": c["targets"]})
    models = ctx.drv.ask(ops)
    spec_ops, spec_meta = [], []
    for c, m in zip(cases, models):
        ctx.evaluation()
        ctx.hist("e2e_stamp", ("purge" if c["purge"] else "plain") + ("+bogus-row" if c["bogus"] else ""))
        inp = {"e2e": True, "revs": c["revs"], "normOrder": c["normOrder"], "rows": c["before"], "cmd": "stamp",
               "targets": c["targets"], "purge": c["purge"]}
        if c.get("dbRows") is not None:
            # one command, two databases (env.py configures and migrates each in turn); this one is number `db`
            inp["dbRows"], inp["db"] = c["dbRows"], c["db"]
            ctx.hist("e2e_stamp_two_databases", "database %d" % (c["db"] + 1))
        start = [] if c["purge"] else c["before"]
        if "err" in m or "loadErr" in m or "stepErr" in m:
            want = {"err": m.get("err") or m.get("stepErr") or m.get("loadErr")}
        else:
            want = {"rows": sorted(m["trace"][-1]["rows"]) if m["trace"] else sorted(start)}
        if "err" in c["res"]:
            got = {"err": c["res"]["err"]}
        else:
            got = {"rows": sorted(c["after"]) if c["after"] is not None else []}
        if ("err" in got) != ("err" in want) or ("rows" in got and got["rows"] != want["rows"]):
            ctx.disagree("e2e.stamp", inp, got, want)
        else:
            ctx.trace_ok()
        if "rows" in got:
            ctx.nontrivial(("e2e", json.dumps(c["revs"], sort_keys=True), tuple(c["before"]), json.dumps(c["targets"]), c["purge"]))
            for t in c["targets"]:
                spec_ops.append({"op": "rev.spec.targets", "revs": c["revs"], "ident": t})
                spec_meta.append((inp, got, start))
        elif c["purge"] and c["bogus"] is False and "err" in got and "err" not in want:
            pass
    if not spec_ops:
        return
    ans = ctx.drv.ask(spec_ops)
    k = 0
    second, second_meta = [], []
    while k < len(ans):
        inp, got, start = spec_meta[k]
        n = len(inp["targets"])
        group = ans[k:k + n]
        k += n
        if all("targets" in g for g in group):
            dests = []
            for g in group:
                for t in g["targets"]:
                    if t not in dests:
                        dests.append(t)
            h = {"revs": inp["revs"]}
            second.append({"op": "rev.spec.antichain", **h, "rows": start})
            second_meta.append(("pre", inp, got, dests))
            second.append({"op": "rev.spec.antichain", **h, "rows": dests})
            second_meta.append(("pre2", inp, got, dests))
            second.append({"op": "rev.spec.stamp", **h, "rows": start, "dests": dests, "rows2": got["rows"]})
            second_meta.append(("stamp", inp, got, dests))
    if second:
        pre_ok = True
        for (kind, inp, got, dests), a in zip(second_meta, ctx.drv.ask(second)):
            if kind == "pre":
                pre_ok = a.get("holds") is True
            elif kind == "pre2":
                pre_ok = pre_ok and a.get("holds") is True
            elif pre_ok and a.get("holds") is not True:
                ctx.fail(inp, "stamp-rows(e2e): after `alembic stamp%s %s` the committed version table holds %s, which is not "
                         "(rows minus lineage of the destinations) plus the destinations %s"
                         % (" --purge" if inp["purge"] else "", " ".join(inp["targets"]), got["rows"], dests),
                         impl=got, tags=["e2e", "purge" if inp["purge"] else "plain"])


def replay_case(ctx, inp):
    """re-run one recorded e2e case; returns the list of failures it produces"""
    inp = dict(inp, revs=file_order(inp["revs"]))
    _sd, info = rev_impl.load(inp["revs"])
    inp["normOrder"] = info["normOrder"]
    two = inp.get("dbRows") is not None
    env = Env(inp["revs"], two_db=two)
    try:
        if two:
            env.set_rows(inp["dbRows"][0], 0)
            env.set_rows(inp["dbRows"][1], 1)
        else:
            env.set_rows(inp["rows"])
        res = env.stamp(inp["targets"], inp.get("purge", False))
        after = env.rows(inp.get("db", 0))
    finally:
        env.close()
    c = {"revs": inp["revs"], "normOrder": inp.get("normOrder", {}), "before": inp["rows"], "targets": inp["targets"],
         "purge": inp.get("purge", False), "bogus": "deadbeef" in inp["rows"], "res": res, "after": after}
    if two:
        c["dbRows"], c["db"] = inp["dbRows"], inp["db"]
    judge(ctx, [c])
