"""Implementation side of the batch workstream (C10, C11).

Drives the real `Operations(MigrationContext.configure(conn)).batch_alter_table(...)` on a
real SQLite database (file in a temp dir, so that a fresh connection can inspect it),
captures the emitted statement sequence through SQLAlchemy's `before_cursor_execute` event
(also used for fault injection), and observes the database through the inspector and raw
`SELECT *` before and after, in the abstract vocabulary shared with the Lean model
(lean/Model/Batch/Types.lean):

  table  = {name, cols:[{name,ty,aff,nullable,default,dval,pk}], pk:{name,cols}|None,
            uniques:[{name,cols}], checks:[{name,text,mentions,pred}],
            fks:[{name,cols,rtable,rcols}], indexes:[{name,cols,unique}], rows:[[value]]}
  value  = None | {"i":int} | {"r":repr(float)} | {"t":str} | {"b":hex}
  op     = add_column | drop_column | alter_column | add_unique | add_check | add_fk | add_pk
           | drop_constraint | create_index | drop_index
"""
from __future__ import annotations

import os
import re
import shutil
import tempfile
import warnings

import sqlalchemy as sa
from sqlalchemy import event
from sqlalchemy.dialects import sqlite as sqlite_dialect

from alembic.migration import MigrationContext
from alembic.operations import Operations

_DIALECT = sqlite_dialect.dialect()

# ------------------------------------------------------------------------------- types

TYPE_TOKENS = ["INTEGER", "BIGINT", "SMALLINT", "VARCHAR(20)", "VARCHAR(50)", "TEXT", "FLOAT",
               "NUMERIC(10, 2)", "BOOLEAN", "DATETIME", "DATE", "BLOB"]


def sa_type(tok):
    t = tok.upper()
    m = re.match(r"VARCHAR\((\d+)\)", t)
    if m:
        return sa.String(int(m.group(1)))
    m = re.match(r"NUMERIC\((\d+), (\d+)\)", t)
    if m:
        return sa.Numeric(int(m.group(1)), int(m.group(2)))
    return {
        "INTEGER": sa.Integer, "BIGINT": sa.BigInteger, "SMALLINT": sa.SmallInteger, "TEXT": sa.Text,
        "FLOAT": sa.Float, "BOOLEAN": sa.Boolean, "DATETIME": sa.DateTime, "DATE": sa.Date,
        "BLOB": sa.LargeBinary, "JSON": sa.JSON, "NUMERIC": sa.Numeric, "VARCHAR": sa.String,
    }[t]()


def type_token(t):
    return str(t.compile(dialect=_DIALECT))


def type_aff(t):
    """the token cast_for_batch_migrate compares: type._type_affinity; JSON is special-cased there"""
    if isinstance(t, sa.JSON):
        return "JSON"
    a = t._type_affinity
    return a.__name__ if a is not None else "None"


def aff_of_token(tok):
    return type_aff(sa_type(tok))


# ------------------------------------------------------------------------------- values

def enc_value(v):
    if v is None:
        return None
    if isinstance(v, bool):
        return {"i": int(v)}
    if isinstance(v, int):
        return {"i": v}
    if isinstance(v, float):
        return {"r": repr(v)}
    if isinstance(v, str):
        return {"t": v}
    if isinstance(v, (bytes, memoryview)):
        return {"b": bytes(v).hex()}
    return {"t": "?" + repr(v)}


def dec_value(j):
    if j is None:
        return None
    if "i" in j:
        return j["i"]
    if "r" in j:
        return float(j["r"])
    if "t" in j:
        return j["t"]
    if "b" in j:
        return bytes.fromhex(j["b"])
    raise ValueError(j)


def norm_default(text):
    """`DEFAULT ((2))` is reflected as "(2)" and re-emitted as `DEFAULT (2)` (reflected "2"): redundant outer parentheses
    are not part of the definition"""
    if text is None:
        return None
    s = text.strip()
    while s.startswith("(") and s.endswith(")"):
        depth = 0
        for i, ch in enumerate(s):
            depth += ch == "("
            depth -= ch == ")"
            if depth == 0 and i < len(s) - 1:
                return s
        s = s[1:-1].strip()
    return s


def default_value(text):
    """value SQLite stores for a column default written as `text` (simple literals only)"""
    if text is None:
        return None
    s = text.strip()
    while s.startswith("(") and s.endswith(")"):
        s = s[1:-1].strip()
    if re.fullmatch(r"-?\d+", s):
        return {"i": int(s)}
    if re.fullmatch(r"-?\d+\.\d+", s):
        return {"r": repr(float(s))}
    if s.startswith("'") and s.endswith("'"):
        return {"t": s[1:-1].replace("''", "'")}
    if s.upper() == "NULL":
        return None
    return {"t": "?default:" + s}


# ------------------------------------------------------------------------------- SQL text

def q(name):
    return _DIALECT.identifier_preparer.quote(name)


_PRED = re.compile(r"^\(?\s*(\w+)\s*(>=|<=|!=|>|<|=)\s*(-?\d+)\s*\)?$")


def parse_pred(text):
    m = _PRED.match(text.strip())
    if not m:
        return None
    return {"col": m.group(1), "op": m.group(2), "k": int(m.group(3))}


def mentions_of(text, universe):
    ids = set(re.findall(r"[A-Za-z_][A-Za-z_0-9]*", re.sub(r"'(?:[^']|'')*'", " ", text)))
    return sorted(i for i in ids if i in universe)


def sp(schema):
    """`aux.` prefix of a name in an ATTACHed database"""
    return "%s." % q(schema) if schema else ""


def create_table_sql(t):
    parts = []
    for c in t["cols"]:
        s = "%s %s" % (q(c["name"]), c["ty"])
        if c.get("computed"):
            s += " GENERATED ALWAYS AS (%s) %s" % (c["computed"], "STORED" if c.get("persisted") else "VIRTUAL")
        if not c["nullable"]:
            s += " NOT NULL"
        if c["default"] is not None:
            # literals as they are, anything else in parentheses (SQLite requires them around an expression)
            d = c["default"]
            lit = re.fullmatch(r"-?\d+(\.\d+)?|'(?:[^']|'')*'|NULL|CURRENT_(TIMESTAMP|DATE|TIME)|\(.*\)", d.strip())
            s += " DEFAULT %s" % (d if lit else "(%s)" % d)
        parts.append(s)
    if t["pk"]:
        pre = "CONSTRAINT %s " % q(t["pk"]["name"]) if t["pk"]["name"] else ""
        parts.append("%sPRIMARY KEY (%s)" % (pre, ", ".join(q(c) for c in t["pk"]["cols"])))
    for u in t["uniques"]:
        pre = "CONSTRAINT %s " % q(u["name"]) if u["name"] else ""
        parts.append("%sUNIQUE (%s)" % (pre, ", ".join(q(c) for c in u["cols"])))
    for k in t["checks"]:
        pre = "CONSTRAINT %s " % q(k["name"]) if k["name"] else ""
        parts.append("%sCHECK (%s)" % (pre, k["text"]))
    for f in t["fks"]:
        pre = "CONSTRAINT %s " % q(f["name"]) if f["name"] else ""
        parts.append("%sFOREIGN KEY(%s) REFERENCES %s (%s)" % (
            pre, ", ".join(q(c) for c in f["cols"]), q(f["rtable"]), ", ".join(q(c) for c in f["rcols"])))
    return "CREATE TABLE %s%s (\n\t%s\n)" % (sp(t.get("schema")), q(t["name"]), ", \n\t".join(parts))


def index_sql(tname, ix, schema=None):
    return "CREATE %sINDEX %s%s ON %s (%s)%s" % ("UNIQUE " if ix["unique"] else "", sp(schema), q(ix["name"]), q(tname),
                                               ", ".join(q(c) for c in ix["cols"]),
                                               " WHERE %s" % ix["where"] if ix.get("where") else "")


def norm_where(w):
    return None if w is None else " ".join(str(w).split())


def sa_table(t, metadata=None):
    """the same abstract table as a SQLAlchemy Table (for copy_from)"""
    m = metadata or sa.MetaData()
    args = []
    for c in t["cols"]:
        kw = {"nullable": c["nullable"]}
        if c["default"] is not None:
            kw["server_default"] = sa.text(c["default"])
        if c.get("computed"):
            args.append(sa.Column(c["name"], sa_type(c["ty"]), sa.Computed(c["computed"], persisted=bool(c.get("persisted"))), **kw))
            continue
        ident = t.get("identity")
        if ident and t["pk"] and t["pk"]["cols"] == [c["name"]] and c["ty"].upper() in ("INTEGER", "BIGINT", "SMALLINT"):
            # copy_from only (reflection never produces these): the integer primary key declared with Identity(always=True),
            # a plain Identity(), or autoincrement=True.  SQLite ignores the IDENTITY clause: a plain INTEGER PRIMARY KEY.
            if ident == "autoincrement":
                args.append(sa.Column(c["name"], sa_type(c["ty"]), autoincrement=True, **kw))
            else:
                args.append(sa.Column(c["name"], sa_type(c["ty"]), sa.Identity(always=(ident == "always")), **kw))
            continue
        args.append(sa.Column(c["name"], sa_type(c["ty"]), **kw))
    if t["pk"]:
        args.append(sa.PrimaryKeyConstraint(*t["pk"]["cols"], name=t["pk"]["name"]))
    for u in t["uniques"]:
        args.append(sa.UniqueConstraint(*u["cols"], name=u["name"]))
    for k in t["checks"]:
        args.append(sa.CheckConstraint(sa.text(k["text"]), name=k["name"]))
    for f in t["fks"]:
        pre = "%s." % t["schema"] if t.get("schema") else ""      # schema-qualified referent, as reflection gives it
        args.append(sa.ForeignKeyConstraint(f["cols"], ["%s%s.%s" % (pre, f["rtable"], c) for c in f["rcols"]], name=f["name"]))
    for ix in t["indexes"]:
        ikw = {"sqlite_where": sa.text(ix["where"])} if ix.get("where") else {}
        args.append(sa.Index(ix["name"], *ix["cols"], unique=ix["unique"], **ikw))
    return sa.Table(t["name"], m, *args, schema=t.get("schema"))


# ------------------------------------------------------------------------------- observation

def observe_table(conn, name, universe=(), schema=None):
    with warnings.catch_warnings():
        warnings.simplefilter("ignore")
        return _observe_table(conn, name, universe, schema)


def generated_expr(sql, colname):
    """expression and STORED/VIRTUAL of a generated column, read from the stored CREATE TABLE text with balanced
    parentheses (SQLAlchemy's reflection regex mis-reads it when the column type has parentheses or when ALTER TABLE ADD
    COLUMN appended another definition on the same line)"""
    m = re.search(r'(?:^|[\s,(])"?%s"?\s+[^\n]*?GENERATED\s+ALWAYS\s+AS\s*\(' % re.escape(colname), sql, re.I)
    if not m:
        return None, False
    i = m.end()
    depth, j = 1, i
    while j < len(sql) and depth:
        depth += sql[j] == "("
        depth -= sql[j] == ")"
        j += 1
    expr = " ".join(sql[i:j - 1].split())
    return expr, bool(re.match(r"\s*STORED", sql[j:], re.I))


def _observe_table(conn, name, universe=(), schema=None):
    insp = sa.inspect(conn)
    insp.clear_cache()
    if not insp.has_table(name, schema=schema):
        return None
    cols = []
    for c in insp.get_columns(name, schema=schema):
        ty = c["type"]
        try:
            tok = type_token(ty)
        except Exception:
            tok = "?" + repr(ty)
        cols.append({"name": c["name"], "ty": tok, "aff": type_aff(ty), "nullable": bool(c["nullable"]),
                     "default": norm_default(c.get("default")), "dval": default_value(c.get("default")),
                     "pk": bool(c.get("primary_key")),
                     "computed": " ".join(str(c["computed"]["sqltext"]).split()) if c.get("computed") else None,
                     "persisted": bool(c["computed"].get("persisted")) if c.get("computed") else False})
    pkc = insp.get_pk_constraint(name, schema=schema)
    pk = {"name": pkc.get("name"), "cols": list(pkc["constrained_columns"])} if pkc and pkc.get("constrained_columns") else None
    # UNIQUE constraints are read from the stored CREATE TABLE text: the inspector collapses two UNIQUE
    # constraints over the same column set into one (SQLite keeps a single automatic index for them)
    sql = conn.exec_driver_sql("SELECT sql FROM %ssqlite_master WHERE type='table' AND name=?" % sp(schema), (name,)).scalar() or ""
    uniques = sorted(({"name": (m.group(1) or "").strip('"') or None,
                       "cols": [c.strip().strip('"') for c in m.group(2).split(",")]}
                      for m in re.finditer(r"(?:CONSTRAINT (\S+) )?UNIQUE \(([^)]*)\)", sql)),
                     key=lambda u: (u["name"] or "", u["cols"]))
    names = set(universe) | {c["name"] for c in cols}
    for c in cols:
        if c.get("computed") is not None:
            c["computed"], c["persisted"] = generated_expr(sql, c["name"])
        c["computed_mentions"] = mentions_of(c["computed"], names) if c.get("computed") else []
    checks = sorted(({"name": k.get("name"), "text": k["sqltext"], "mentions": mentions_of(k["sqltext"], names),
                      "pred": parse_pred(k["sqltext"])} for k in insp.get_check_constraints(name, schema=schema)),
                    key=lambda k: (k["name"] or "", k["text"]))
    # same for FOREIGN KEY constraints (the inspector collapses identical ones)
    fks = sorted(({"name": (m.group(1) or "").strip('"') or None,
                   "cols": [c.strip().strip('"') for c in m.group(2).split(",")], "rtable": m.group(3).strip('"'),
                   "rcols": [c.strip().strip('"') for c in m.group(4).split(",")]}
                  for m in re.finditer(r"(?:CONSTRAINT (\S+) )?FOREIGN KEY\s*\(([^)]*)\) REFERENCES (\S+) \(([^)]*)\)", sql)),
                 key=lambda f: (f["name"] or "", f["cols"]))
    # the WHERE predicate of a partial index is read from the stored CREATE INDEX text
    isql = {r[0]: r[1] or "" for r in conn.exec_driver_sql(
        "SELECT name, sql FROM %ssqlite_master WHERE type='index' AND tbl_name=?" % sp(schema), (name,)).fetchall()}

    def where_of(iname):
        m = re.search(r"\)\s*WHERE\s+(.*)$", " ".join(isql.get(iname, "").split()), re.I)
        return norm_where(m.group(1)) if m else None

    indexes = []
    for i in insp.get_indexes(name, schema=schema):
        w = where_of(i["name"])
        indexes.append({"name": i["name"], "cols": list(i["column_names"]), "unique": bool(i["unique"]), "where": w,
                        "where_mentions": mentions_of(w, names) if w else [], "where_pred": parse_pred(w) if w else None})
    indexes.sort(key=lambda i: i["name"])
    rows = [[enc_value(v) for v in r] for r in conn.exec_driver_sql("SELECT * FROM %s%s" % (sp(schema), q(name))).fetchall()]
    return {"name": name, "schema": schema, "cols": cols, "pk": pk, "uniques": uniques, "checks": checks, "fks": fks,
            "indexes": indexes, "rows": rows}


def observe_db(conn, tname, universe=(), schema=None):
    """the database the table lives in: `main`, or the ATTACHed database `schema` (its own sqlite_master)"""
    tmp = ("_alembic_tmp_%s" % tname)[0:50]
    names = [r[0] for r in conn.exec_driver_sql(
        "SELECT name FROM %ssqlite_master WHERE type='table' ORDER BY name" % sp(schema)).fetchall()]
    out = {"tables": names, "orig": observe_table(conn, tname, universe, schema), "tmp": observe_table(conn, tmp, universe, schema),
           "tmp_like": [n for n in names if n.startswith("_alembic_tmp_")]}
    if schema:
        # a table of the same name in `main` (if any) and stray temp tables there must never be touched
        out["main"] = [(r[0], r[1]) for r in conn.exec_driver_sql(
            "SELECT name, sql FROM main.sqlite_master WHERE type='table' ORDER BY name").fetchall()]
        if any(n == tname for n, _ in out["main"]):
            out["main_rows"] = [list(r) for r in conn.exec_driver_sql("SELECT * FROM main.%s" % q(tname)).fetchall()]
    return out


# ------------------------------------------------------------------------------- statements

_IGN = re.compile(r"^\s*(PRAGMA|SELECT|BEGIN|SAVEPOINT|RELEASE|ROLLBACK)\b", re.I)


def abstract_stmt(sql, tname, schema=None):
    s = " ".join(sql.split())
    if schema:
        # every name is qualified with the schema of the table (CREATE INDEX aux.ix ON t ...): the model is schema-agnostic
        s = re.sub(r"(?<![\w.])%s\." % re.escape(q(schema)), "", s)
    tmp = ("_alembic_tmp_%s" % tname)[0:50]
    qt, qtmp = re.escape(q(tname)), re.escape(q(tmp))
    if re.match(r"CREATE TABLE %s \(" % qtmp, s):
        return "createTmp"
    m = re.match(r"CREATE (UNIQUE )?INDEX (\S+) ON %s \((.*)\)$" % qtmp, s)
    if m:
        return "createTmpIndex:%s" % m.group(2)
    m = re.match(r"INSERT INTO %s \((.*?)\) SELECT (.*) FROM %s$" % (qtmp, qt), s)
    if m:
        cols = [c.strip() for c in m.group(1).split(",")]
        exprs = []

        def ex(e):
            e = e.strip()
            mc = re.match(r"CAST\((.+) AS ([^()]+(?:\([^()]*\))?)\)$", e)
            if mc:
                return "cast:%s:%s" % (mc.group(2), ex(mc.group(1)))
            me = re.match(r"%s\.(\S+)$" % qt, e)
            return me.group(1) if me else "?" + e

        for e in re.split(r",\s*(?![^()]*\))", m.group(2)):
            e = re.sub(r"\) AS \S+$", ")", e.strip())
            exprs.append(ex(e))
        return "insert:%s<-%s" % (",".join(cols), ",".join(exprs))
    if re.match(r"INSERT INTO %s " % qtmp, s):
        return "insert:?" + s
    if re.match(r"DROP TABLE %s$" % qt, s):
        return "dropOld"
    if re.match(r"DROP TABLE %s$" % qtmp, s):
        return "dropTmp"
    if re.match(r"ALTER TABLE %s RENAME TO %s$" % (qtmp, qt), s):
        return "renameTmp"
    m = re.match(r"CREATE (UNIQUE )?INDEX (\S+) ON %s \((.*?)\)( WHERE (.*))?$" % qt, s)
    if m:
        return "createIndex:%s:%s:%s%s" % (m.group(2), ",".join(c.strip() for c in m.group(3).split(",")), "u" if m.group(1) else "n",
                                           ":where=" + norm_where(m.group(5)) if m.group(4) else "")
    m = re.match(r"ALTER TABLE %s ADD COLUMN (\S+) " % qt, s + " ")
    if m:
        return "alterAdd:%s" % m.group(1)
    m = re.match(r"DROP INDEX (\S+)$", s)
    if m:
        return "dropIndex:%s" % m.group(1)
    return "?" + s[:120]


class InjectedFault(Exception):
    pass


class InjectedKeyboardInterrupt(KeyboardInterrupt):
    pass


class InjectedSystemExit(SystemExit):
    pass


class InjectedBaseException(BaseException):
    """a BaseException that is not an Exception (like asyncio.CancelledError / GeneratorExit)"""


# class of the injected exception: what `except:` catches and `except Exception:` does not
FAULT_KINDS = {"exception": InjectedFault, "keyboard": InjectedKeyboardInterrupt, "systemexit": InjectedSystemExit,
               "base": InjectedBaseException}
INJECTED = tuple(FAULT_KINDS.values())


# ------------------------------------------------------------------------------- ops -> real calls

def existing_type_of(o):
    """autogenerate-style existing_type= carrying a named schema-type CHECK (Boolean / Enum, create_constraint=True)"""
    n = o.get("existing_type_const")
    if not n:
        return None
    if o.get("existing_type_kind") == "enum":
        return sa.Enum("a", "b", name=n, create_constraint=True)
    return sa.Boolean(create_constraint=True, name=n)


def apply_op(b, o, schema=None):
    k = o["op"]
    if k == "add_column":
        c = o["col"]
        kw = {"nullable": c["nullable"]}
        if c["default"] is not None:
            kw["server_default"] = sa.text(c["default"]) if not c["default"].startswith("'") else c["default"][1:-1].replace("''", "'")
        if c.get("index"):
            kw["index"] = True
        if c.get("unique"):
            kw["unique"] = True
        if o.get("fk"):
            # a named column-level ForeignKey: toimpl.add_column forwards its constraint to add_constraint
            f = o["fk"]
            pre = "%s." % schema if (schema and not f.get("unqualified")) else ""
            col = sa.Column(c["name"], sa_type(c["ty"]), sa.ForeignKey("%s%s.%s" % (pre, f["rtable"], f["rcols"][0]), name=f["name"]), **kw)
            pos = {}
            if o.get("before"):
                pos["insert_before"] = o["before"]
            if o.get("after"):
                pos["insert_after"] = o["after"]
            b.add_column(col, **pos)
            return
        if c.get("computed"):
            kw.pop("server_default", None)
            col = sa.Column(c["name"], sa_type(c["ty"]), sa.Computed(c["computed"], persisted=True))
            b.add_column(col)
            return
        col = sa.Column(c["name"], sa_type(c["ty"]), **kw)
        pos = {}
        if o.get("before"):
            pos["insert_before"] = o["before"]
        if o.get("after"):
            pos["insert_after"] = o["after"]
        b.add_column(col, **pos)
    elif k == "drop_column":
        et = existing_type_of(o)
        if et is not None:
            b.drop_column(o["name"], existing_type=et)
        else:
            b.drop_column(o["name"])
    elif k == "alter_column":
        kw = {}
        if o.get("new_name") is not None:
            kw["new_column_name"] = o["new_name"]
        if o.get("type") is not None:
            kw["type_"] = sa_type(o["type"]["ty"])
        if o.get("nullable") is not None:
            kw["nullable"] = o["nullable"]
        if o.get("default") is not None:
            d = o["default"]["set"]
            kw["server_default"] = None if d is None else (sa.text(d) if not d.startswith("'") else d[1:-1].replace("''", "'"))
        if o.get("comment") is not None:
            kw["comment"] = o["comment"]
        if o.get("autoincrement") is not None:
            kw["autoincrement"] = o["autoincrement"]
        if o.get("existing_nullable") is not None:
            kw["existing_nullable"] = o["existing_nullable"]
        if o.get("existing_type_plain"):
            kw["existing_type"] = sa_type(o["existing_type_plain"])
        et = existing_type_of(o)
        if et is not None:
            kw["existing_type"] = et
        b.alter_column(o["name"], **kw)
    elif k == "add_unique":
        b.create_unique_constraint(o["name"], o["cols"])
    elif k == "add_check":
        b.create_check_constraint(o["name"], o["text"])
    elif k == "add_fk":
        # with schema=: the referent lives in the same ATTACHed database (without referent_schema the batch is rejected with
        # NoReferencedTableError before any statement)
        b.create_foreign_key(o["name"], o["rtable"], o["cols"], o["rcols"],
                             **({"referent_schema": schema} if (schema and not o.get("unqualified")) else {}))
    elif k == "add_pk":
        b.create_primary_key(o["name"], o["cols"])
    elif k == "drop_constraint":
        b.drop_constraint(o["name"], type_=o.get("type"))
    elif k == "create_index":
        ikw = {"sqlite_where": sa.text(o["where"])} if o.get("where") else {}
        b.create_index(o["name"], o["cols"], unique=o["unique"], **ikw)
    elif k == "drop_index":
        b.drop_index(o["name"])
    elif k == "table_comment":
        if o.get("text") is None:
            b.drop_table_comment()
        else:
            b.create_table_comment(o["text"])
    else:
        raise ValueError(k)


def exc_kind(e):
    n = type(e).__name__
    msg = str(e)
    if isinstance(e, INJECTED):
        return "injected"
    if isinstance(e, Warning):
        return "warning:%s:%s" % (type(e).__name__, str(e)[:120])
    if n == "IntegrityError":
        if "NOT NULL" in msg:
            return "notNull"
        if "UNIQUE" in msg:
            return "unique"
        if "CHECK" in msg:
            return "check"
        return "integrity"
    if n == "OperationalError":
        if "no such column" in msg:
            return "noSuchColumn"
        if "already exists" in msg:
            return "alreadyExists"
        if "duplicate column" in msg:
            return "duplicateColumn"
        if "Cannot add a NOT NULL" in msg:
            return "addNotNull"
        if "no such index" in msg:
            return "noSuchIndexDb"
        if "error in generated column" in msg:
            return "generatedColumn"
        if "no such table" in msg:
            return "noSuchTable"
        return "operational:" + msg.splitlines()[0][:80]
    if n == "KeyError":
        return "keyError"
    if n == "NoSuchTableError":
        return "noSuchTable"
    if n == "NoReferencedTableError":
        return "noReferencedTable"
    if n == "NoReferencedColumnError":
        return "noReferencedColumn"
    if n == "ValueError":
        if "No such constraint" in msg:
            return "noSuchConstraint"
        if "No such index" in msg:
            return "noSuchIndex"
        if "must have a name" in msg:
            return "needName"
        return "valueError:" + msg[:60]
    if n == "CircularDependencyError":
        return "circular"
    if n == "CommandError":
        return "commandError"
    return n


def scratch_dir(prefix):
    """per-case scratch directory (removed per case) for the SQLite files; on tmpfs when available: every statement of a case is
    committed (fsync) and a loaded disk otherwise dominates the run time"""
    base = "/dev/shm" if os.path.isdir("/dev/shm") and os.access("/dev/shm", os.W_OK) else None
    return tempfile.mkdtemp(prefix=prefix, dir=base)


class Db:
    """one scratch SQLite database file holding the table under test (+ a referred table)"""

    def __init__(self, table, extra_sql=(), iso="default", main_twin=False):
        """iso: 'default' (pysqlite legacy transaction control), 'autocommit' (isolation_level="AUTOCOMMIT"),
        'begin' (the documented recipe: driver isolation_level=None + BEGIN emitted on SQLAlchemy's begin event)"""
        self.dir = scratch_dir("verif_batch_")
        self.path = os.path.join(self.dir, "x.db")
        if iso == "autocommit":
            self.engine = sa.create_engine("sqlite:///" + self.path, isolation_level="AUTOCOMMIT")
        else:
            self.engine = sa.create_engine("sqlite:///" + self.path)
        if iso == "begin":
            @event.listens_for(self.engine, "connect")
            def _connect(dbapi_connection, connection_record):
                dbapi_connection.isolation_level = None

            @event.listens_for(self.engine, "begin")
            def _begin(conn):
                conn.exec_driver_sql("BEGIN")
        self.iso = iso
        self.table = table
        schema = self.schema = table.get("schema")
        if schema:
            # the table lives in an ATTACHed database (batch_alter_table(..., schema=schema)); attached on every connection
            aux = os.path.join(self.dir, "aux.db")

            @event.listens_for(self.engine, "connect")
            def _attach(dbapi_connection, connection_record):
                dbapi_connection.execute("ATTACH DATABASE '%s' AS %s" % (aux, q(schema)))
        with self.engine.connect() as conn:
            for s in extra_sql:
                conn.exec_driver_sql(re.sub(r"^(CREATE TABLE|INSERT INTO) ", lambda m: m.group(0) + sp(schema), s))
            if main_twin:
                # a different table of the same name in `main`
                conn.exec_driver_sql("CREATE TABLE main.%s (zz INTEGER)" % q(table["name"]))
                conn.exec_driver_sql("INSERT INTO main.%s VALUES (42)" % q(table["name"]))
            conn.exec_driver_sql(create_table_sql(table))
            for ix in table["indexes"]:
                conn.exec_driver_sql(index_sql(table["name"], ix, schema))
            if table["rows"]:
                keep = [i for i, c in enumerate(table["cols"]) if not c.get("computed")]     # generated columns are not inserted
                conn.exec_driver_sql("INSERT INTO %s%s (%s) VALUES (%s)" % (
                    sp(schema), q(table["name"]), ", ".join(q(table["cols"][i]["name"]) for i in keep), ", ".join("?" for _ in keep)),
                    [tuple(dec_value(r[i]) for i in keep) for r in table["rows"]])
            conn.commit()

    def close(self):
        try:
            self.engine.dispose()
        finally:
            shutil.rmtree(self.dir, ignore_errors=True)


def run_batch(db, ops, recreate="always", copy_from=False, fault=None, scope="none", universe=(), tddl=None, fkind="exception",
              pr=None, batch_kw=None, wfilter="ignore", identity=None):
    """Runs the real batch_alter_table.  scope: 'none' (connection not in a transaction: flush opens one
    through _ensure_scope_for_ddl), 'outer' (caller's `with conn.begin()`, rolled back by the exception),
    'swallow' (caller's transaction, exception caught inside it, transaction committed).
    Returns dict(before, stmts, outcome, same, fresh)."""
    tname = db.table["name"]
    schema = getattr(db, "schema", None)
    stmts = []
    res = {}
    with db.engine.connect() as conn:
        res["before"] = observe_db(conn, tname, universe, schema)
        if conn.in_transaction():
            conn.rollback()
        n = [0]

        def bce(c, cursor, statement, parameters, context, executemany):
            if _IGN.match(statement):
                return
            stmts.append(abstract_stmt(statement, tname, schema))
            i = n[0]
            n[0] += 1
            if fault is not None and i == fault:
                raise FAULT_KINDS[fkind]("injected at statement %d" % i)

        event.listen(conn, "before_cursor_execute", bce)
        # tddl: the `transactional_ddl` option of the context (None = dialect default, False on SQLite)
        ctx = MigrationContext.configure(conn, opts={} if tddl is None else {"transactional_ddl": tddl})
        op = Operations(ctx)
        kw = {"recreate": recreate}
        if schema:
            kw["schema"] = schema
        if pr:
            kw["partial_reordering"] = tuple(tuple(x) for x in pr)
        kw.update(batch_kw or {})
        if isinstance(copy_from, sa.Table):
            kw["copy_from"] = copy_from
        elif isinstance(copy_from, dict):
            kw["copy_from"] = sa_table(copy_from)      # an explicit Table (the table under the original name may be gone)
        elif copy_from:
            kw["copy_from"] = sa_table(dict(res["before"]["orig"], identity=identity))

        def body():
            with op.batch_alter_table(tname, **kw) as b:
                for o in ops:
                    apply_op(b, o, schema)

        outcome = "ok"
        with warnings.catch_warnings():
            # the process warning policy: "error" = `python -W error` / pytest filterwarnings=error around the batch
            warnings.simplefilter(wfilter)
            try:
                if scope == "none":
                    body()
                elif scope == "outer":
                    with conn.begin():
                        body()
                elif scope in ("sp_release", "sp_rollback"):
                    # the caller holds a SAVEPOINT of its own (Connection.begin_nested()), catches the error of the batch and
                    # then RELEASEs the savepoint (sp_release) or rolls back to it (sp_rollback), and commits
                    sp = conn.begin_nested()
                    try:
                        body()
                    except Exception as e:
                        outcome = exc_kind(e)
                    except INJECTED as e:
                        outcome = exc_kind(e)
                    if outcome != "ok" and scope == "sp_rollback":
                        sp.rollback()
                    else:
                        sp.commit()
                    conn.commit()
                else:
                    with conn.begin():
                        try:
                            body()
                        except Exception as e:
                            outcome = exc_kind(e)
                        except INJECTED as e:      # our own BaseException kinds only: a genuine Ctrl-C still propagates
                            outcome = exc_kind(e)
            except Exception as e:
                outcome = exc_kind(e)
            except INJECTED as e:
                outcome = exc_kind(e)
        event.remove(conn, "before_cursor_execute", bce)
        if conn.in_transaction():
            # nothing of ours is pending here: _ensure_scope_for_ddl / the outer block ended the transaction
            res["left_in_txn"] = True
            conn.rollback()
        res["stmts"] = stmts
        res["outcome"] = outcome
        res["same"] = observe_db(conn, tname, universe, schema)
    with db.engine.connect() as c2:
        res["fresh"] = observe_db(c2, tname, universe, schema)
    return res
