"""C08 generator: JSON spec -> real alembic operation objects.

A *spec* is a JSON-serialisable description of one case: a small model (tables with columns,
constraints, indexes), render options, and a list of operations over that model.  `build`
turns the spec into real SQLAlchemy schema objects and into real `alembic.operations.ops`
objects constructed exactly the way `alembic.autogenerate.compare` constructs them
(`CreateTableOp.from_table`, `ModifyTableOps(tname, [...], schema=...)` holding
`AddColumnOp.from_column_and_tablename`, `AlterColumnOp(tname, cname, schema=...)` with the
modify_*/existing_* attributes, `CreateIndexOp.from_index`, `AddConstraintOp.from_constraint`, ...).

All randomness comes from the `rng` handed in; no global state.
"""
from __future__ import annotations

import copy
import json

import sqlalchemy as sa
from sqlalchemy.dialects import mysql as _mysql
from sqlalchemy.dialects import postgresql as _postgresql
from sqlalchemy.sql.elements import conv
from sqlalchemy.sql.elements import quoted_name

from alembic.operations import ops

from . import render_usertypes as _usertypes

ALL_DIALECTS = ["sqlite", "postgresql", "mysql", "mssql", "oracle"]
RENDER_DIALECTS = ALL_DIALECTS + ["default"]

NAMING_CONVENTION = {
    "ix": "ix_%(column_0_label)s",
    "uq": "uq_%(table_name)s_%(column_0_name)s",
    "ck": "ck_%(table_name)s_%(constraint_name)s",
    "fk": "fk_%(table_name)s_%(column_0_name)s_%(referred_table_name)s",
    "pk": "pk_%(table_name)s",
}

# ---------------------------------------------------------------------------------------
# identifier / string classes
# ---------------------------------------------------------------------------------------
PLAIN_WORDS = [
    "acct", "item", "ordr", "cust", "prod", "name", "qty", "price", "ref", "code", "flag",
    "note", "kind", "amt", "ts", "owner", "addr", "city", "zip", "tag", "val", "pos", "lvl",
]

NAME_CLASSES = {
    "mixed": ["MixedCase", "UserAccount", "camelCase", "UPPER"],
    "reserved": ["select", "user", "order", "table"],
    "space": ["my table", "a b", "two  spaces"],
    "squote": ["it's", "'lead", "trail'", "a''b"],
    "dquote": ['say"hi', '"q"', 'a""b'],
    "backslash": ["a\\b", "x\\", "\\n", "c\\'d"],
    "bothquotes": ["a'b\"c", "\"'\""],
    "percent": ["pct%", "100%s", "a%(x)s", "%%"],
    "newline_tab": ["line\nbreak", "tab\there", "cr\rx"],
    "nonascii": ["t\u00e0ble", "\u8868", "\U0001f600x", "a\u0085b", "z\u200bw", "p\ue000q"],
    "dotted": ["a.b", "x.y.z"],
}
UNUSUAL = sorted(NAME_CLASSES)

STRING_CLASSES = {
    "plain": ["hello", "some text", "x"],
    "squote": ["it's", "'q'", "a''b", "'"],
    "dquote": ['say "hi"', '"'],
    "backslash": ["a\\b", "end\\", "\\'", "c:\\dir\\new"],
    "percent": ["100%", "%s", "%(x)s", "50%% off"],
    "newline_tab": ["two\nlines", "tab\tbed", "cr\r\nlf"],
    "nonascii": ["caf\u00e9", "\u8868", "\U0001f600", "nel\u0085x", "zw\u200bsp", "pu\ue000a"],
    "colon": ["a:b", "at :param"],
    "triple": ["'''", '"""'],
}


class _Names:
    """draws identifiers/strings by class and records (role, class, value) triples."""

    def __init__(self, rng, plain_p=0.55):
        self.rng = rng
        self.plain_p = plain_p
        self.log = []
        self.counter = 0

    def ident(self, role, used, plain=False):
        rng = self.rng
        if plain or rng.random() < self.plain_p:
            cls = "plain"
            base = rng.choice(PLAIN_WORDS)
            if rng.random() < 0.3:
                base += "_" + rng.choice(PLAIN_WORDS)
        else:
            cls = rng.choice(UNUSUAL)
            base = rng.choice(NAME_CLASSES[cls])
        name = base
        k = 0
        while name in used or name.lower() in {u.lower() for u in used}:
            # keep the interesting tail (e.g. trailing backslash): disambiguate with a prefix
            name = "%s%d%s" % ("abcdefgh"[k % 8], k // 8, base) if k >= 8 else "abcdefgh"[k] + base
            k += 1
        used.add(name)
        self.log.append([role, cls, name])
        return name

    def string(self, role):
        rng = self.rng
        if rng.random() < 0.45:
            cls = "plain"
        else:
            cls = rng.choice(sorted(k for k in STRING_CLASSES if k != "plain"))
        v = rng.choice(STRING_CLASSES[cls])
        self.log.append([role, cls, v])
        return v


# ---------------------------------------------------------------------------------------
# types
# ---------------------------------------------------------------------------------------
def _gen_type(rng, names, used_cnames, allow_dialect_types=True, family=None):
    """returns (typespec, dialect restriction or None)"""
    r = rng.random()
    restrict = None
    if r < 0.22:
        ts = {"t": rng.choice(["Integer", "Integer", "BigInteger", "SmallInteger"]), "args": {}}
    elif r < 0.36:
        ts = {"t": "String", "args": {"length": rng.choice([1, 30, 255])}}
    elif r < 0.43:
        ts = {"t": "Numeric", "args": rng.choice([{"precision": 10, "scale": 2}, {"precision": 8}, {}])}
    elif r < 0.50:
        a = rng.choice([{}, {"create_constraint": False}, {"create_constraint": True, "name": "__NAME__"}])
        a = dict(a)
        if a.get("name") == "__NAME__":
            a["name"] = names.ident("type_ck_name", used_cnames)
        ts = {"t": "Boolean", "args": a}
    elif r < 0.56:
        ts = {"t": "DateTime", "args": rng.choice([{}, {"timezone": True}])}
    elif r < 0.61:
        ts = {"t": rng.choice(["Text", "UnicodeText", "Date", "Time"]), "args": {}}
    elif r < 0.66:
        ts = {"t": "Float", "args": rng.choice([{}, {"precision": 24}, {"precision": 53}])}
    elif r < 0.70:
        ts = {"t": "LargeBinary", "args": rng.choice([{}, {"length": 100}])}
    elif r < 0.79:
        vals = rng.choice([["a", "b"], ["x"], ["it's", "b\\c"], ["50%", "d e"], ["caf\u00e9", "\u8868"]])
        a = {"values": vals, "name": names.ident("enum_name", used_cnames)}
        x = rng.random()
        if x < 0.2:
            a["create_constraint"] = True
        elif x < 0.3:
            a["native_enum"] = False
        elif x < 0.4:
            a["length"] = 20
            a["native_enum"] = False
        ts = {"t": "Enum", "args": a}
    elif r < 0.85:
        ts = {"t": "VARCHAR", "args": {"length": rng.choice([10, 64]), "collation": rng.choice(["C", "utf8_bin", "Latin1_General_CI_AS"])}}
        if rng.random() < 0.5:
            del ts["args"]["collation"]
    elif r < 0.89:
        ts = {"t": rng.choice(["Unicode", "CHAR", "NVARCHAR"]), "args": {"length": 20}}
    elif r < 0.91:
        ts = {"t": rng.choice(["Uuid", "Interval", "TIMESTAMP", "BIGINT", "REAL", "Double"]), "args": {}}
    elif r < 0.925:
        # a type from a module that is not sqlalchemy.*: rendered with the module name / user_module_prefix
        ts = rng.choice([{"t": "user.Epoch", "args": {"scale": 1000}}, {"t": "user.Point", "args": {"srid": 4326}}, {"t": "user.Epoch", "args": {}}])
    elif r < 0.95:
        base = {"t": "String", "args": {"length": 10}}
        var = rng.choice(
            [
                ["mysql", {"t": "mysql.VARCHAR", "args": {"length": 10, "charset": "utf8"}}],
                ["postgresql", {"t": "Text", "args": {}}],
                ["mssql", {"t": "NVARCHAR", "args": {"length": 10}}],
            ]
        )
        ts = {"t": "Variant", "args": {"base": base, "variants": [var]}}
    elif allow_dialect_types:
        which = rng.choice([w for w in ["pg_jsonb", "pg_array", "pg_uuid", "pg_hstore", "pg_array2", "pg_json", "pg_hstore2", "pg_arrayvar", "my_tinyint", "my_varchar", "my_enum"] if family is None or w.startswith({"postgresql": "pg_", "mysql": "my_"}[family])])
        if which == "pg_jsonb":
            ts, restrict = {"t": "postgresql.JSONB", "args": {}}, ["postgresql"]
        elif which == "pg_array":
            ts, restrict = {"t": "ARRAY", "args": {"item": {"t": "Integer", "args": {}}}}, ["postgresql"]
        elif which == "pg_hstore":
            ts, restrict = {"t": "postgresql.HSTORE", "args": {}}, ["postgresql"]
        elif which == "pg_array2":
            # postgresql.ARRAY: PostgresqlImpl._render_ARRAY_type
            ts, restrict = {"t": "postgresql.ARRAY", "args": {"item": rng.choice([{"t": "Integer", "args": {}}, {"t": "String", "args": {"length": 20}}, {"t": "postgresql.UUID", "args": {}}])}}, ["postgresql"]
        elif which == "pg_arrayvar":
            ts, restrict = {"t": "postgresql.ARRAY", "args": {"item": {"t": "user.Epoch", "args": {"scale": 2}}, "dimensions": 2}}, ["postgresql"]
        elif which == "pg_json":
            # astext_type: PostgresqlImpl._render_JSON_type
            ts, restrict = {"t": rng.choice(["postgresql.JSON", "postgresql.JSONB"]), "args": {"astext": {"t": "Text", "args": {}} if rng.random() < 0.5 else {"t": "String", "args": {"length": 50}}}}, ["postgresql"]
        elif which == "pg_hstore2":
            ts, restrict = {"t": "postgresql.HSTORE", "args": {"text": {"t": "String", "args": {"length": 50}}}}, ["postgresql"]
        elif which == "pg_uuid":
            ts, restrict = {"t": "postgresql.UUID", "args": {}}, ["postgresql"]
        elif which == "my_tinyint":
            ts, restrict = {"t": "mysql.TINYINT", "args": {"display_width": 1}}, ["mysql"]
        elif which == "my_varchar":
            ts, restrict = {"t": "mysql.VARCHAR", "args": {"length": 20, "charset": "latin1", "collation": "latin1_bin"}}, ["mysql"]
        else:
            ts, restrict = {"t": "mysql.ENUM", "args": {"values": ["a", "b'c"]}}, ["mysql"]
    else:
        ts = {"t": "Integer", "args": {}}
    return ts, restrict


def build_type(ts):
    t = ts["t"]
    a = dict(ts.get("args") or {})
    if t == "Variant":
        base = build_type(a["base"])
        for d, v in a["variants"]:
            base = base.with_variant(build_type(v), d)
        return base
    if t == "ARRAY":
        return sa.ARRAY(build_type(a["item"]))
    if t == "postgresql.ARRAY":
        item = build_type(a.pop("item"))
        return _postgresql.ARRAY(item, **a)
    if t.startswith("user."):
        return getattr(_usertypes, t.split(".", 1)[1])(**a)
    if "astext" in a:
        a["astext_type"] = build_type(a.pop("astext"))
    if "text" in a and t == "postgresql.HSTORE":
        a["text_type"] = build_type(a.pop("text"))
    if t.startswith("postgresql."):
        cls = getattr(_postgresql, t.split(".", 1)[1])
    elif t.startswith("mysql."):
        cls = getattr(_mysql, t.split(".", 1)[1])
    else:
        cls = getattr(sa, t)
    if "values" in a:
        vals = a.pop("values")
        return cls(*vals, **a)
    return cls(**a)


# ---------------------------------------------------------------------------------------
# server defaults
# ---------------------------------------------------------------------------------------
TEXT_DEFAULTS = [
    "0", "1", "NULL", "CURRENT_TIMESTAMP", "'abc'", "'it''s'", "(1 + 1)", "'50%'", "'a\\b'",
    "'x' || 'y'", "-1", "'two\nlines'", "'caf\u00e9'", "'a\\:b'", "'at \\:p'",
]


def _gen_server_default(rng, names, allow_special=True):
    r = rng.random()
    if r < 0.35:
        if rng.random() < 0.2:
            v = rng.choice(["'quoted'", "0", "", "'", "''"])
            names.log.append(["server_default_str", "edge", v])
        else:
            v = names.string("server_default_str")
        return {"kind": "str", "value": v}
    if r < 0.7:
        return {"kind": "text", "value": rng.choice(TEXT_DEFAULTS)}
    if r < 0.85 or not allow_special:
        return {"kind": "func", "value": rng.choice(["now", "current_timestamp", "random"])}
    if r < 0.93:
        return {"kind": "identity", "args": rng.choice([{}, {"start": 5, "increment": 2}, {"always": True}])}
    return {"kind": "computed", "value": rng.choice(["1 + 1", "qty * 2", "'a%'"]), "persisted": rng.choice([None, True, False])}


def build_server_default(sd):
    """the object one passes as Column(server_default=...)"""
    if sd is None or sd is False:
        return sd
    k = sd["kind"]
    if k == "str":
        return sd["value"]
    if k == "text":
        return sa.text(sd["value"])
    if k == "func":
        return getattr(sa.func, sd["value"])()
    if k == "identity":
        return sa.Identity(**sd.get("args", {}))
    if k == "computed":
        kw = {}
        if sd.get("persisted") is not None:
            kw["persisted"] = sd["persisted"]
        return sa.Computed(sd["value"], **kw)
    raise ValueError(k)


def _as_fetched_value(sd, type_spec=None):
    """what compare.py sees in column.server_default: a DefaultClause / Identity / Computed"""
    if sd is None or sd is False:
        return sd
    c = sa.Column("x", sa.Integer, server_default=build_server_default(sd))
    return c.server_default


# ---------------------------------------------------------------------------------------
# spec generation
# ---------------------------------------------------------------------------------------
def _gen_column(rng, names, used, used_cnames, first=False, allow_dialect_types=True, plain_names=False, family=None):
    ts, restrict = _gen_type(rng, names, used_cnames, allow_dialect_types, family)
    col = {
        "name": names.ident("column", used, plain=plain_names),
        "type": ts,
        "nullable": rng.choice([None, None, True, False]),
        "primary_key": False,
        "server_default": None,
        "comment": None,
        "autoincrement": "auto",
    }
    if first and rng.random() < 0.75:
        col["primary_key"] = True
        if rng.random() < 0.7:
            col["type"] = {"t": "Integer", "args": {}}
            restrict = None
        col["nullable"] = rng.choice([None, False])
        x = rng.random()
        if x < 0.15 and col["type"]["t"] in ("Integer", "BigInteger", "SmallInteger"):
            col["autoincrement"] = True
        elif x < 0.3:
            col["autoincrement"] = False
    else:
        if rng.random() < 0.35:
            col["server_default"] = _gen_server_default(rng, names)
        if rng.random() < 0.04:
            col["autoincrement"] = False if col["type"]["t"] not in ("Integer", "BigInteger", "SmallInteger") else rng.choice([True, False])
        if (col["server_default"] or {}).get("kind") in ("identity", "computed"):
            col["nullable"] = None
            col["autoincrement"] = "auto"
    if rng.random() < 0.25:
        col["comment"] = names.string("column_comment")
    # Column(index=True/unique=True): _render_column never renders the flag while invoking AddColumnOp /
    # CreateTableOp creates the index / constraint (finding C08-N12)
    if rng.random() < 0.03:
        col[rng.choice(["index", "unique"])] = True
    if not col["primary_key"] and rng.random() < 0.03:
        col["system"] = True
    return col, restrict


def _gen_table(rng, names, used_tables, used_cnames, nc, thorough, family=None):
    t = {
        "name": names.ident("table", used_tables),
        "schema": None,
        "comment": None,
        "quote_name": None,
        "columns": [],
        "uniques": [],
        "checks": [],
        "pk_name": None,
        "fks": [],
        "indexes": [],
        "kw": {},
        "prefixes": [],
        "info": {},
    }
    if rng.random() < 0.3:
        t["schema"] = names.ident("schema", set())
        if rng.random() < 0.2:
            # multi-part schema (database.owner, server.database.owner)
            t["schema"] = rng.choice(["mydb.dbo", "srv.mydb.dbo", "My Db.dbo"])
            names.log.append(["schema", "multipart", t["schema"]])
    if rng.random() < 0.3:
        t["comment"] = names.string("table_comment")
    if rng.random() < 0.08:
        t["quote_name"] = True
    restricts = []
    used = set()
    ncols = rng.randint(2, 5 if thorough else 4)
    for i in range(ncols):
        c, r = _gen_column(rng, names, used, used_cnames, first=(i == 0), family=family)
        t["columns"].append(c)
        if r:
            restricts.append(r)
    cn = [c["name"] for c in t["columns"]]
    # second pk column sometimes
    if t["columns"][0]["primary_key"] and rng.random() < 0.15:
        t["columns"][1]["primary_key"] = True
        t["columns"][1]["server_default"] = None
        t["columns"][1]["nullable"] = None
    if any(c["primary_key"] for c in t["columns"]) and rng.random() < 0.3:
        t["pk_name"] = _cname(rng, names, used_cnames, nc, allow_none=False)
    for _ in range(rng.choice([0, 0, 1, 1, 2])):
        t["uniques"].append(
            {
                "name": _cname(rng, names, used_cnames, nc),
                "cols": rng.sample(cn, rng.choice([1, 1, 2]) if len(cn) > 1 else 1),
                "deferrable": rng.choice([None, None, None, True]),
                "initially": rng.choice([None, None, None, "DEFERRED"]),
            }
        )
    for _ in range(rng.choice([0, 0, 1])):
        col = rng.choice(cn)
        sqltext = rng.choice(
            [
                "qty > 0",
                "name <> 'it''s'",
                "code like '50%'",
                "note in ('a', 'b')",
                "length(name) > 1",
                "price >= 0 AND price < 100",
                "val <> 'a\\b'",
                "ts <> 'x \\:y'",
                "val <> 'caf\u00e9'",
            ]
        )
        t["checks"].append({"name": _cname(rng, names, used_cnames, nc, allow_none=not nc), "sqltext": sqltext, "col": col})
    for _ in range(rng.choice([0, 1, 1, 2])):
        elems = []
        pool = list(cn)
        rng.shuffle(pool)
        for __ in range(rng.choice([1, 1, 2])):
            x = rng.random()
            c = pool.pop() if pool else rng.choice(cn)
            if x < 0.45:
                elems.append({"col": c})
            elif x < 0.53:
                elems.append({"text": rng.choice(["(lower(name))", "lower(name)", "name DESC", "(qty + 1)", "(name || 'x%')"])})
            elif x < 0.63:
                e = {"func": [rng.choice(["lower", "upper", "abs"]), c]}
                if rng.random() < 0.3:
                    e["label"] = rng.choice(["lbl", "my label", "it's"])
                elems.append(e)
            elif x < 0.70:
                elems.append({"desc": c})
            elif x < 0.82:
                # sqlalchemy.literal_column(...): a ColumnClause that is NOT a table column
                e = {"litcol": rng.choice(["lower(name)", "(lower(name))", "name", "qty + 1", "upper(code) DESC", "it's", "a b", "coalesce(note, 'x')"])}
                if rng.random() < 0.2:
                    e["label"] = rng.choice(["lbl", "x y"])
                elems.append(e)
            elif x < 0.88:
                # sqlalchemy.column('x'): lightweight column, not bound to the table
                elems.append({"lwcol": rng.choice(["name", "qty", "MixedCase", "a b", "select", "it's"])})
            elif x < 0.91:
                elems.append({"cast": c})
            elif x < 0.94:
                elems.append({"collate": c})
            else:
                # operator expressions over table columns (what self_group() parenthesises): a + b, a || b, (a + b) * 2,
                # -a, a ->> 'k', and_(a > 0, b > 0); labelled (the documented way to key postgresql_ops) or not
                c2 = rng.choice(cn)
                e = {"opexpr": rng.choice(["add", "concat", "mul", "neg", "arrow", "and", "addcollate"]), "cols": [c, c2]}
                if rng.random() < 0.6:
                    e["label"] = rng.choice(["full", "lbl", "my label", "it's"])
                elems.append(e)
        if not any(k in e for e in elems for k in ("col", "func", "desc", "cast", "collate", "opexpr")):
            elems.insert(0, {"col": rng.choice(cn)})
        ix = {"name": _cname(rng, names, used_cnames, nc, allow_none=False, ix=True), "elems": elems, "unique": rng.random() < 0.3, "kw": {}}
        x = rng.random()
        if x < 0.08:
            ix["kw"]["postgresql_where"] = {"text": rng.choice(["qty > 5", "name = 'it''s'", "code like 'a%'", "name = 'x \\:z'"])}
        elif x < 0.13:
            ix["kw"]["postgresql_using"] = rng.choice(["btree", "gin", "hash"])
        elif x < 0.17 and all("col" in e for e in elems):
            ix["kw"]["mysql_length"] = rng.choice([10, {elems[0]["col"]: 5}])
        elif x < 0.20:
            ix["kw"]["mssql_clustered"] = rng.choice([True, False])
        elif x < 0.23:
            ix["kw"]["postgresql_include"] = [rng.choice(cn)]
        elif x < 0.26:
            ix["kw"]["sqlite_where"] = {"text": "qty > 5"}
        # postgresql_ops keyed by a column name / by the label of an expression member
        keys = [e["label"] for e in elems if e.get("label")] + [e["col"] for e in elems if "col" in e] + [e["lwcol"] for e in elems if "lwcol" in e]
        if keys and rng.random() < (0.5 if any(e.get("label") for e in elems) else 0.06):
            ix["kw"]["postgresql_ops"] = {k: rng.choice(["varchar_pattern_ops", "text_pattern_ops", "int4_ops"]) for k in keys[:2]}
        elif x < 0.29:
            ix["kw"]["postgresql_concurrently"] = True
        elif x < 0.31:
            ix["kw"]["mysql_prefix"] = "FULLTEXT"
        t["indexes"].append(ix)
    x = rng.random()
    if x < 0.06:
        t["kw"]["mysql_engine"] = "InnoDB"
    elif x < 0.10:
        t["kw"]["sqlite_autoincrement"] = True
    elif x < 0.13:
        t["kw"]["mysql_charset"] = "utf8"
    elif x < 0.15:
        t["kw"]["postgresql_partition_by"] = "RANGE (qty)"
    elif x < 0.18:
        t["prefixes"] = [rng.choice(["TEMPORARY", "UNLOGGED"])]
    elif x < 0.21:
        t["info"] = {"k": rng.choice(["v", "it's", 1])}
    return t, restricts


def _cname(rng, names, used, nc, allow_none=True, ix=False):
    """constraint/index name spec: None | str | {"conv": str}"""
    x = rng.random()
    if nc and x < 0.45 and (allow_none or ix):
        return None  # the naming convention produces a conv() name
    if nc and x < 0.6:
        return {"conv": names.ident("conv_name", used)}
    if not nc and allow_none and x < 0.25:
        return None
    return names.ident("index_name" if ix else "constraint_name", used)


EXTRA_MODIFY_KINDS = ["drop_check", "drop_pk", "drop_untyped", "empty_modify"]
MODIFY_KINDS = [
    "add_column", "drop_column", "alter_column", "create_index", "drop_index", "create_unique",
    "drop_unique", "create_fk", "drop_fk", "create_table_comment", "drop_table_comment",
]
TOP_KINDS = ["create_table", "drop_table"]


def gen_spec(rng, thorough=False):
    names = _Names(rng)
    nc = rng.random() < 0.4
    opts = {
        "render_as_batch": rng.random() < 0.3,
        "naming_convention": nc,
        "render_dialect": rng.choice(RENDER_DIALECTS),
    }
    x = rng.random()
    if x < 0.12:
        # a render_item hook (returns False, or alembic's own rendering for some item kinds)
        opts["render_item"] = rng.choice(["false", "mirror-types", "mirror-column", "mirror-constraints"])
    if rng.random() < 0.08:
        opts["user_module_prefix"] = "ut."
    if nc and rng.random() < 0.5:
        # env.py style: the migration context knows target_metadata (and its naming convention)
        opts["target_metadata"] = True
    if rng.random() < 0.08:
        opts["metadata_schema"] = rng.choice(["ms", "Meta Schema"])
    used_tables = set()
    used_cnames = set()
    tables = []
    restricts = []
    family = rng.choice(["postgresql", "mysql"])  # dialect specific types of one family only
    ntab = rng.choice([1, 2, 2, 3] if thorough else [1, 2, 2])
    for _ in range(ntab):
        t, r = _gen_table(rng, names, used_tables, used_cnames, nc, thorough, family)
        tables.append(t)
        restricts.extend(r)
    # foreign keys (need all tables first)
    for ti, t in enumerate(tables):
        for _ in range(rng.choice([0, 1, 1, 2] if len(tables) > 1 else [0, 0, 1])):
            ri = rng.randrange(len(tables))
            rt = tables[ri]
            n = 1 if rng.random() < 0.8 else 2
            lc = [c["name"] for c in t["columns"]]
            # SQLAlchemy itself copies FKs through "schema.table.col" strings: no dots in the referent
            rc = [c["name"] for c in rt["columns"] if "." not in c["name"]]
            # (a dot in the referent's *schema* is fine: SQLAlchemy joins all leading tokens into the schema, the
            # multi-part "database.owner" form of SQL Server; only table / column names must be dot free)
            if "." in rt["name"] or not rc:
                continue
            n = min(n, len(lc), len(rc))
            fk = {
                "name": _cname(rng, names, used_cnames, nc),
                "cols": rng.sample(lc, n),
                "reftable": ri,
                "refcols": rng.sample(rc, n),
                "ondelete": rng.choice([None, None, "CASCADE", "SET NULL"]),
                "onupdate": rng.choice([None, None, None, "CASCADE"]),
                "deferrable": rng.choice([None, None, None, True, False]),
                "initially": rng.choice([None, None, None, "DEFERRED", "IMMEDIATE"]),
                "use_alter": rng.random() < 0.05,
                "match": rng.choice([None, None, None, None, "FULL"]),
            }
            if nc and fk["name"] is None and "." in (rt.get("schema") or ""):
                # SQLAlchemy's own naming convention token %(referred_table_name)s cannot split a target in a multi-part
                # schema ("too many values to unpack" while the MetaData is built): such a foreign key needs a name
                fk["name"] = names.ident("constraint", used_cnames, plain=True)
            if rng.random() < 0.1:
                fk["link_to_name"] = True
            elif rng.random() < 0.05:
                # target table unknown to the MetaData (only usable inside create_table / drop_table)
                fk["ghost"] = rng.choice(["ghost_tbl.id", "other_schema.ghost_tbl.id"])
                fk["cols"] = fk["cols"][:1]
                fk["refcols"] = fk["refcols"][:1]
            t["fks"].append(fk)
    # PostgreSQL EXCLUDE constraints (inline in create_table, and as op.create_exclude_constraint)
    if family == "postgresql":
        for t in tables:
            if rng.random() < 0.12:
                cn = [c["name"] for c in t["columns"]]
                ex = {"name": _cname(rng, names, used_cnames, nc, allow_none=False),
                      "elems": [[rng.choice(cn), rng.choice(["=", "&&"])]] + ([[{"text": "lower(name)"}, "="]] if rng.random() < 0.3 else [])
                      + ([[{"litcol": "int8range(lo, hi)"}, "&&"]] if rng.random() < 0.3 else []),
                      "where": rng.choice([None, None, "qty > 5", "name <> 'it''s'"]),
                      "using": rng.choice(["gist", "gist", "btree"]),
                      "deferrable": rng.choice([None, None, True, False]), "initially": rng.choice([None, None, "DEFERRED"])}
                t["excludes"] = [ex]
                restricts.append(["postgresql"])
    # a different attribute key on some columns (Column(key=...)): rendering has to use the name
    for t in tables:
        for ci, c in enumerate(t["columns"]):
            if rng.random() < 0.06:
                c["key"] = "k%d_%s" % (ci, rng.choice(["x", "attr"]))
    # operations
    oplist = []
    nops = rng.choice([1, 1, 2, 3] if not thorough else [1, 2, 3, 4, 5])
    for _ in range(nops):
        ti = rng.randrange(len(tables))
        t = tables[ti]
        if rng.random() < 0.3:
            kind = rng.choice(TOP_KINDS + ["create_table"])
            o = {"kind": kind, "table": ti}
            if rng.random() < 0.15:
                o["if_not_exists" if kind == "create_table" else "if_exists"] = rng.choice([True, False])
            oplist.append(o)
            if kind == "create_table" and t["indexes"] and rng.random() < 0.5:
                for ii in range(len(t["indexes"])):
                    oplist.append({"kind": "create_index", "table": ti, "index": ii})
            continue
        if rng.random() < 0.04:
            oplist.append({"kind": "execute", "table": ti, "sqltext": rng.choice(
                ["SELECT 1", "UPDATE t SET x = 'it''s'", "INSERT INTO t VALUES ('a\\b', '50%')", "SELECT \"q\" -- c\nFROM t"])})
            continue
        kind = rng.choice(MODIFY_KINDS) if rng.random() < 0.9 else rng.choice(EXTRA_MODIFY_KINDS)
        if t.get("excludes") and rng.random() < 0.4 and not any(x["kind"] == "create_exclude" and x["table"] == ti for x in oplist):
            # (one op object per constraint: SQLAlchemy's AddConstraint marks the constraint, a second invoke of the same object emits nothing)
            kind = "create_exclude"
        o = {"kind": kind, "table": ti}
        if kind in ("create_index", "drop_index") and rng.random() < 0.15:
            o["if_not_exists" if kind == "create_index" else "if_exists"] = rng.choice([True, False])
        if kind in ("add_column", "drop_column"):
            o["column"] = rng.randrange(len(t["columns"]))
            if kind == "add_column":
                o["via"] = rng.choice(["from_column", "from_column_and_tablename"])
        elif kind == "alter_column":
            ci = rng.randrange(len(t["columns"]))
            c = t["columns"][ci]
            o["column"] = ci
            plain_sd = c["server_default"] if (c["server_default"] or {}).get("kind") in ("str", "text", "func") else None
            o["existing_type"] = c["type"] if rng.random() < 0.9 else None
            o["existing_nullable"] = rng.choice([True, False, None])
            o["existing_server_default"] = rng.choice([None, False, plain_sd, {"kind": "text", "value": rng.choice(TEXT_DEFAULTS)}])
            o["existing_comment"] = c["comment"] if rng.random() < 0.5 else None
            o["modify_type"] = None
            o["modify_nullable"] = None
            o["modify_server_default"] = False
            o["modify_comment"] = False
            o["autoincrement"] = rng.choice([None, None, None, True, False])
            changes = rng.sample(["type", "nullable", "server_default", "comment"], rng.choice([1, 1, 2, 3]))
            if "type" in changes:
                nt, r = _gen_type(rng, names, used_cnames, allow_dialect_types=True, family=family)
                o["modify_type"] = nt
                if r:
                    restricts.append(r)
            if "nullable" in changes:
                o["modify_nullable"] = rng.choice([True, False])
            if "server_default" in changes:
                o["modify_server_default"] = rng.choice([None, _gen_server_default(rng, names, allow_special=False)])
            if "comment" in changes:
                o["modify_comment"] = rng.choice([None, names.string("column_comment")])
            if rng.random() < 0.12:
                # a rename (autogenerate never detects one, but the op and its renderer support it)
                o["modify_name"] = names.ident("column", set())
        elif kind in ("create_index", "drop_index"):
            if not t["indexes"]:
                continue
            o["index"] = rng.randrange(len(t["indexes"]))
        elif kind in ("create_unique", "drop_unique"):
            if not t["uniques"]:
                continue
            o["constraint"] = rng.randrange(len(t["uniques"]))
        elif kind in ("create_fk", "drop_fk"):
            cand = [i for i, f in enumerate(t["fks"]) if not f.get("ghost")]
            if not cand:
                continue
            o["constraint"] = rng.choice(cand)
        elif kind == "drop_check":
            if not t["checks"]:
                continue
            o["constraint"] = rng.randrange(len(t["checks"]))
        elif kind == "drop_pk":
            if not any(c["primary_key"] for c in t["columns"]):
                continue
        elif kind == "drop_untyped":
            o["name"] = names.ident("constraint", set())
        elif kind == "create_table_comment":
            o["comment"] = names.string("table_comment")
            o["existing_comment"] = rng.choice([None, t["comment"]])
        elif kind == "drop_table_comment":
            o["existing_comment"] = rng.choice([None, t["comment"], names.string("table_comment")])
        oplist.append(o)
        # compare.py emits several ops per table inside one ModifyTableOps: stay on this table sometimes
    if not oplist:
        oplist.append({"kind": "create_table", "table": 0})
    # dialect restriction: intersection of the restrictions of dialect specific types
    dialects = None
    if restricts:
        s = set(ALL_DIALECTS)
        for r in restricts:
            s &= set(r)
        dialects = [d for d in ALL_DIALECTS if d in s]
    spec = {
        "v": 1,
        "opts": opts,
        "dialects": dialects,
        "tables": tables,
        "ops": oplist,
        "name_classes": names.log,
    }
    return spec


# ---------------------------------------------------------------------------------------
# build
# ---------------------------------------------------------------------------------------
class Case:
    def __init__(self, spec, metadata, tables, oplist, render_opts, op_kinds, op_specs):
        self.spec = spec
        self.metadata = metadata
        self.tables = tables
        self.ops = oplist
        self.render_opts = render_opts
        self.op_kinds = op_kinds  # per top-level op: "create_table" / "drop_table" / "modify:k1+k2"
        self.op_specs = op_specs  # per top-level op: list of the spec entries it was built from

    @property
    def dialects(self):
        return self.spec.get("dialects") or list(ALL_DIALECTS)


def _name_obj(n):
    if n is None:
        return None
    if isinstance(n, dict):
        return conv(n["conv"])
    return n


def _build_column(c):
    kw = {}
    if c.get("nullable") is not None:
        kw["nullable"] = c["nullable"]
    if c.get("primary_key"):
        kw["primary_key"] = True
    if c.get("comment") is not None:
        kw["comment"] = c["comment"]
    if c.get("autoincrement", "auto") != "auto":
        kw["autoincrement"] = c["autoincrement"]
    if c.get("index"):
        kw["index"] = True
    if c.get("unique"):
        kw["unique"] = True
    if c.get("system"):
        kw["system"] = True
    if c.get("key"):
        kw["key"] = c["key"]
    args = []
    sd = c.get("server_default")
    if sd:
        if sd["kind"] in ("identity", "computed"):
            args.append(build_server_default(sd))
        else:
            kw["server_default"] = build_server_default(sd)
    return sa.Column(c["name"], build_type(c["type"]), *args, **kw)


def _col(t, name):
    """column by *name* (a column may carry a different .key)"""
    for c in t.columns:
        if c.name == name:
            return c
    raise KeyError(name)


def _index_elem(t, e):
    if "col" in e:
        return _col(t, e["col"])
    if "text" in e:
        return sa.text(e["text"])
    if "func" in e:
        x = getattr(sa.func, e["func"][0])(_col(t, e["func"][1]))
        return x.label(e["label"]) if e.get("label") else x
    if "desc" in e:
        return _col(t, e["desc"]).desc()
    if "litcol" in e:
        x = sa.literal_column(e["litcol"])
        return x.label(e["label"]) if e.get("label") else x
    if "lwcol" in e:
        return sa.column(e["lwcol"])
    if "cast" in e:
        return sa.cast(_col(t, e["cast"]), sa.String(30))
    if "collate" in e:
        return _col(t, e["collate"]).collate("C")
    if "opexpr" in e:
        a, b = _col(t, e["cols"][0]), _col(t, e["cols"][1])
        k = e["opexpr"]
        if k == "add":
            x = a + b
        elif k == "concat":
            x = a.concat(b)
        elif k == "mul":
            x = (a + b) * 2
        elif k == "neg":
            x = -a
        elif k == "arrow":
            x = a.op("->>")("k")
        elif k == "and":
            x = sa.and_(a > 0, b > 0)
        elif k == "addcollate":
            x = a.concat(b).collate("C")
        else:
            raise ValueError(e)
        return x.label(e["label"]) if e.get("label") else x
    raise ValueError(e)


def _kwval(v):
    if isinstance(v, dict) and set(v) == {"text"}:
        return sa.text(v["text"])
    return v


def build(spec):
    opts = spec["opts"]
    mkw = {}
    if opts.get("naming_convention"):
        mkw["naming_convention"] = NAMING_CONVENTION
    if opts.get("metadata_schema"):
        mkw["schema"] = opts["metadata_schema"]
    md = sa.MetaData(**mkw)
    tables = []
    for ts in spec["tables"]:
        name = quoted_name(ts["name"], quote=True) if ts.get("quote_name") else ts["name"]
        cols = [_build_column(c) for c in ts["columns"]]
        kw = dict(ts.get("kw") or {})
        if ts.get("schema") is not None:
            kw["schema"] = ts["schema"]
        if ts.get("comment") is not None:
            kw["comment"] = ts["comment"]
        if ts.get("prefixes"):
            kw["prefixes"] = list(ts["prefixes"])
        if ts.get("info"):
            kw["info"] = dict(ts["info"])
        t = sa.Table(name, md, *cols, **kw)
        if ts.get("pk_name") is not None and len(t.primary_key.columns):
            t.primary_key.name = _name_obj(ts["pk_name"])
        tables.append(t)
    uniques, fks, indexes, checks = [], [], [], []
    for ts, t in zip(spec["tables"], tables):
        us = []
        for u in ts.get("uniques", []):
            kw = {}
            if u.get("deferrable") is not None:
                kw["deferrable"] = u["deferrable"]
            if u.get("initially") is not None:
                kw["initially"] = u["initially"]
            c = sa.UniqueConstraint(*[_col(t, n) for n in u["cols"]], name=_name_obj(u["name"]), **kw)
            t.append_constraint(c)
            us.append(c)
        uniques.append(us)
        cl = []
        for ck in ts.get("checks", []):
            c = sa.CheckConstraint(sa.text(ck["sqltext"]), name=_name_obj(ck["name"]))
            t.append_constraint(c)
            cl.append(c)
        checks.append(cl)
    for ts, t in zip(spec["tables"], tables):
        fl = []
        for fk in ts.get("fks", []):
            kw = {}
            if fk.get("ghost"):
                # the referred table is not in the MetaData: render._fk_colspec must not fail
                refcols = [fk["ghost"]]
            else:
                rt = fk["reftable"]
                if not isinstance(rt, int):
                    rt = [x["name"] for x in spec["tables"]].index(rt)
                rtab = tables[rt]
                refcols = [_col(rtab, n) for n in fk["refcols"]]
            if fk.get("link_to_name") and not fk.get("ghost"):
                # link_to_name is only meaningful for string specs "table.column_name"
                kw["link_to_name"] = True
                refcols = ["%s.%s" % (rtab.key, n) for n in fk["refcols"]]
            for k in ("ondelete", "onupdate", "deferrable", "initially", "match"):
                if fk.get(k) is not None:
                    kw[k] = fk[k]
            if fk.get("use_alter"):
                kw["use_alter"] = True
            c = sa.ForeignKeyConstraint(
                [_col(t, n) for n in fk["cols"]], refcols, name=_name_obj(fk["name"]), **kw
            )
            t.append_constraint(c)
            fl.append(c)
        fks.append(fl)
    excludes = []
    for ts, t in zip(spec["tables"], tables):
        el = []
        for ex in ts.get("excludes", []):
            from alembic.ddl import postgresql as _am_pg  # noqa: F401  (registers the exclude constraint op / renderers)

            kw = {"name": _name_obj(ex["name"]), "using": ex.get("using", "gist")}
            if ex.get("where"):
                kw["where"] = sa.text(ex["where"])
            for k in ("deferrable", "initially"):
                if ex.get(k) is not None:
                    kw[k] = ex[k]
            def _exel(x):
                if isinstance(x, dict):
                    return sa.literal_column(x["litcol"]) if "litcol" in x else sa.text(x["text"])
                return _col(t, x)

            elems = [(_exel(e[0]), e[1]) for e in ex["elems"]]
            c = _postgresql.ExcludeConstraint(*elems, **kw)
            t.append_constraint(c)
            el.append(c)
        excludes.append(el)
    for ts, t in zip(spec["tables"], tables):
        il = []
        for ix in ts.get("indexes", []):
            kw = {k: _kwval(v) for k, v in (ix.get("kw") or {}).items()}
            if isinstance(kw.get("postgresql_ops"), dict):
                # SQLAlchemy matches postgresql_ops against the member's .key: a column's key (which may differ
                # from its name) or the label of an expression
                keyof = {c["name"]: c.get("key") or c["name"] for c in ts["columns"]}
                labels = {e.get("label") for e in ix["elems"]}
                kw["postgresql_ops"] = {(k if k in labels else keyof.get(k, k)): v for k, v in kw["postgresql_ops"].items()}
            i = sa.Index(_name_obj(ix["name"]), *[_index_elem(t, e) for e in ix["elems"]], unique=bool(ix.get("unique")), **kw)
            if i.table is None:
                i._set_parent_with_dispatch(t)
            il.append(i)
        indexes.append(il)

    # ops, grouped the way compare.py groups them: one ModifyTableOps per run of table-level ops
    out, kinds, ospecs = [], [], []
    cur = None  # (table index, ModifyTableOps, [kinds], [specs])

    def flush():
        nonlocal cur
        if cur is not None:
            out.append(cur[1])
            kinds.append("modify:" + "+".join(cur[2]))
            ospecs.append(cur[3])
            cur = None

    for o in spec["ops"]:
        k = o["kind"]
        ti = o["table"]
        t = tables[ti]
        ts = spec["tables"][ti]
        if k == "create_table":
            flush()
            top = ops.CreateTableOp.from_table(t)
            if o.get("if_not_exists") is not None:
                top.if_not_exists = o["if_not_exists"]
            out.append(top)
            kinds.append(k)
            ospecs.append([o])
            continue
        if k == "drop_table":
            flush()
            top = ops.DropTableOp.from_table(t)
            if o.get("if_exists") is not None:
                top.if_exists = o["if_exists"]
            out.append(top)
            kinds.append(k)
            ospecs.append([o])
            continue
        if k == "execute":
            flush()
            out.append(ops.ExecuteSQLOp(o["sqltext"]))
            kinds.append(k)
            ospecs.append([o])
            continue
        if k == "empty_modify":
            flush()
            out.append(ops.ModifyTableOps(t.name, [], schema=t.schema))
            kinds.append("modify:")
            ospecs.append([o])
            continue
        if cur is None or cur[0] != ti:
            flush()
            cur = (ti, ops.ModifyTableOps(t.name, [], schema=t.schema), [], [])
        tname, schema = t.name, t.schema
        if k == "add_column":
            col = _col(t, ts["columns"][o["column"]]["name"])
            if o.get("via") == "from_column":
                inner = ops.AddColumnOp.from_column(col)
            else:
                inner = ops.AddColumnOp.from_column_and_tablename(schema, tname, col)
        elif k == "drop_column":
            col = _col(t, ts["columns"][o["column"]]["name"])
            inner = ops.DropColumnOp.from_column_and_tablename(schema, tname, col)
        elif k == "alter_column":
            cs = ts["columns"][o["column"]]
            inner = ops.AlterColumnOp(tname, cs["name"], schema=schema)
            # attributes assigned one by one, as the comparators in compare.py do
            inner.existing_nullable = o.get("existing_nullable")
            if o.get("autoincrement") is not None:
                inner.kw["autoincrement"] = o["autoincrement"]
            if o.get("existing_type") is not None:
                inner.existing_type = build_type(o["existing_type"])
            if o.get("modify_type") is not None:
                inner.modify_type = build_type(o["modify_type"])
            if o.get("modify_nullable") is not None:
                inner.modify_nullable = o["modify_nullable"]
            esd = o.get("existing_server_default", False)
            inner.existing_server_default = _as_fetched_value(esd)
            msd = o.get("modify_server_default", False)
            if msd is not False:
                inner.modify_server_default = _as_fetched_value(msd)
            inner.existing_comment = o.get("existing_comment")
            if o.get("modify_comment", False) is not False:
                inner.modify_comment = o["modify_comment"]
            if o.get("modify_name") is not None:
                inner.modify_name = o["modify_name"]
        elif k == "create_index":
            inner = ops.CreateIndexOp.from_index(indexes[ti][o["index"]])
            if o.get("if_not_exists") is not None:
                inner.if_not_exists = o["if_not_exists"]
        elif k == "drop_index":
            inner = ops.DropIndexOp.from_index(indexes[ti][o["index"]])
            if o.get("if_exists") is not None:
                inner.if_exists = o["if_exists"]
        elif k == "create_exclude":
            inner = ops.AddConstraintOp.from_constraint(excludes[ti][0])
        elif k == "drop_check":
            inner = ops.DropConstraintOp.from_constraint(checks[ti][o["constraint"]])
        elif k == "drop_pk":
            inner = ops.DropConstraintOp.from_constraint(t.primary_key)
        elif k == "drop_untyped":
            inner = ops.DropConstraintOp(o["name"], tname, type_=None, schema=schema)
        elif k == "create_unique":
            inner = ops.AddConstraintOp.from_constraint(uniques[ti][o["constraint"]])
        elif k == "drop_unique":
            inner = ops.DropConstraintOp.from_constraint(uniques[ti][o["constraint"]])
        elif k == "create_fk":
            inner = ops.CreateForeignKeyOp.from_constraint(fks[ti][o["constraint"]])
        elif k == "drop_fk":
            inner = ops.DropConstraintOp.from_constraint(fks[ti][o["constraint"]])
        elif k == "create_table_comment":
            inner = ops.CreateTableCommentOp(tname, o.get("comment"), schema=schema, existing_comment=o.get("existing_comment"))
        elif k == "drop_table_comment":
            inner = ops.DropTableCommentOp(tname, existing_comment=o.get("existing_comment"), schema=schema)
        else:
            raise ValueError("unknown op kind %r" % k)
        cur[1].ops.append(inner)
        cur[2].append(k)
        cur[3].append(o)
    flush()
    render_opts = {
        "sqlalchemy_module_prefix": "sa.",
        "alembic_module_prefix": "op.",
        "user_module_prefix": None,
        "render_as_batch": bool(opts.get("render_as_batch")),
    }
    return Case(spec, md, tables, out, render_opts, kinds, ospecs)


# ---------------------------------------------------------------------------------------
# shrinking
# ---------------------------------------------------------------------------------------
def _refs(spec):
    """(table index -> set of referenced column names, set of referenced tables) by ops/constraints"""
    tabs = set()
    for o in spec["ops"]:
        tabs.add(o["table"])
    for ti, t in enumerate(spec["tables"]):
        if ti in tabs:
            for fk in t.get("fks", []):
                if isinstance(fk["reftable"], int):
                    tabs.add(fk["reftable"])
    return tabs


def _plain_for(i):
    return "n%d" % i


def _rename(spec, old, new):
    """replace identifier `old` by `new` everywhere it is used as a name (not inside SQL text)"""
    s = copy.deepcopy(spec)

    def fix(v):
        return new if v == old else v

    for t in s["tables"]:
        t["name"] = fix(t["name"])
        if t.get("schema") is not None:
            t["schema"] = fix(t["schema"])
        if t.get("pk_name") is not None:
            t["pk_name"] = _fixname(t["pk_name"], old, new)
        for c in t["columns"]:
            c["name"] = fix(c["name"])
            a = c["type"].get("args") or {}
            if a.get("name") == old:
                a["name"] = new
        for u in t.get("uniques", []):
            u["name"] = _fixname(u["name"], old, new)
            u["cols"] = [fix(x) for x in u["cols"]]
        for ck in t.get("checks", []):
            ck["name"] = _fixname(ck["name"], old, new)
        for fk in t.get("fks", []):
            fk["name"] = _fixname(fk["name"], old, new)
        for ix in t.get("indexes", []):
            ix["name"] = _fixname(ix["name"], old, new)
            for e in ix["elems"]:
                for k in ("col", "desc", "cast", "collate"):
                    if k in e:
                        e[k] = fix(e[k])
                if "cols" in e:
                    e["cols"] = [fix(x) for x in e["cols"]]
                if "func" in e:
                    e["func"] = [e["func"][0], fix(e["func"][1])]
            kw = ix.get("kw") or {}
            if "postgresql_include" in kw:
                kw["postgresql_include"] = [fix(x) for x in kw["postgresql_include"]]
            if isinstance(kw.get("postgresql_ops"), dict):
                labels = {e.get("label") for e in ix["elems"]}
                kw["postgresql_ops"] = {(k if k in labels else fix(k)): v for k, v in kw["postgresql_ops"].items()}
            if isinstance(kw.get("mysql_length"), dict):
                kw["mysql_length"] = {fix(k): v for k, v in kw["mysql_length"].items()}
    # fk column references live in *another* table's namespace: rename consistently per table
    return s


def _fixname(n, old, new):
    if isinstance(n, dict):
        return {"conv": new} if n["conv"] == old else n
    return new if n == old else n


def _rename_scoped(spec, scope, old, new):
    """rename a column of table `scope` (index) or a table/schema/constraint (scope None)"""
    s = copy.deepcopy(spec)
    if scope is None:
        return _rename(s, old, new)
    t = s["tables"][scope]
    for c in t["columns"]:
        if c["name"] == old:
            c["name"] = new
    for u in t.get("uniques", []):
        u["cols"] = [new if x == old else x for x in u["cols"]]
    for ix in t.get("indexes", []):
        for e in ix["elems"]:
            for k in ("col", "desc", "cast", "collate"):
                if e.get(k) == old:
                    e[k] = new
            if "cols" in e:
                e["cols"] = [new if x == old else x for x in e["cols"]]
            if "func" in e and e["func"][1] == old:
                e["func"] = [e["func"][0], new]
        kw = ix.get("kw") or {}
        if "postgresql_include" in kw:
            kw["postgresql_include"] = [new if x == old else x for x in kw["postgresql_include"]]
        if isinstance(kw.get("postgresql_ops"), dict):
            labels = {e.get("label") for e in ix["elems"]}
            kw["postgresql_ops"] = {((new if k == old else k) if k not in labels else k): v for k, v in kw["postgresql_ops"].items()}
        if isinstance(kw.get("mysql_length"), dict):
            kw["mysql_length"] = {(new if k == old else k): v for k, v in kw["mysql_length"].items()}
    for fk in t.get("fks", []):
        fk["cols"] = [new if x == old else x for x in fk["cols"]]
    for ti, t2 in enumerate(s["tables"]):
        for fk in t2.get("fks", []):
            if fk["reftable"] == scope:
                fk["refcols"] = [new if x == old else x for x in fk["refcols"]]
    return s


def _is_plain(n):
    return isinstance(n, str) and n.isascii() and n.replace("_", "").isalnum() and n == n.lower() and n not in ("select", "user", "order", "table")


def shrink_candidates(spec):
    """yields strictly 'smaller' specs (each must still be buildable; callers should try/except build)."""
    # 1. drop an op
    if len(spec["ops"]) > 1:
        for i in range(len(spec["ops"])):
            s = copy.deepcopy(spec)
            del s["ops"][i]
            yield s
    # 2. drop a table that no op/fk references (re-index)
    used = _refs(spec)
    for ti in range(len(spec["tables"]) - 1, -1, -1):
        if ti in used:
            continue
        if any(isinstance(fk["reftable"], int) and fk["reftable"] == ti for t in spec["tables"] for fk in t.get("fks", [])):
            continue
        s = copy.deepcopy(spec)
        del s["tables"][ti]
        for o in s["ops"]:
            if o["table"] > ti:
                o["table"] -= 1
        for t in s["tables"]:
            for fk in t.get("fks", []):
                if isinstance(fk["reftable"], int) and fk["reftable"] > ti:
                    fk["reftable"] -= 1
        yield s
    # 3. drop constraints / indexes / columns that nothing references
    for ti, t in enumerate(spec["tables"]):
        for key, opkinds, field in (
            ("uniques", ("create_unique", "drop_unique"), "constraint"),
            ("fks", ("create_fk", "drop_fk"), "constraint"),
            ("indexes", ("create_index", "drop_index"), "index"),
            ("checks", (), None),
        ):
            for i in range(len(t.get(key, [])) - 1, -1, -1):
                if any(o["table"] == ti and o["kind"] in opkinds and o.get(field) == i for o in spec["ops"]):
                    continue
                s = copy.deepcopy(spec)
                del s["tables"][ti][key][i]
                for o in s["ops"]:
                    if o["table"] == ti and o["kind"] in opkinds and o.get(field, -1) > i:
                        o[field] -= 1
                yield s
        for ci in range(len(t["columns"]) - 1, -1, -1):
            if len(t["columns"]) <= 1:
                break
            cname = t["columns"][ci]["name"]
            refd = any(o["table"] == ti and o.get("column") == ci and o["kind"] in ("add_column", "drop_column", "alter_column") for o in spec["ops"])
            refd = refd or any(cname in u["cols"] for u in t.get("uniques", []))
            refd = refd or any(cname in fk["cols"] for fk in t.get("fks", []))
            refd = refd or any(fk["reftable"] == ti and cname in fk["refcols"] for t2 in spec["tables"] for fk in t2.get("fks", []))
            refd = refd or any(cname in (e.get("col"), e.get("desc"), e.get("cast"), e.get("collate")) or (e.get("func") or [None, None])[1] == cname or cname in (e.get("cols") or []) for ix in t.get("indexes", []) for e in ix["elems"])
            for ix in t.get("indexes", []):
                ikw = ix.get("kw") or {}
                if cname in ikw.get("postgresql_include", []):
                    refd = True
                if isinstance(ikw.get("mysql_length"), dict) and cname in ikw["mysql_length"]:
                    refd = True
            if refd:
                continue
            s = copy.deepcopy(spec)
            del s["tables"][ti]["columns"][ci]
            for o in s["ops"]:
                if o["table"] == ti and "column" in o and o["column"] > ci:
                    o["column"] -= 1
            yield s
    # 4. simplify attributes
    for ti, t in enumerate(spec["tables"]):
        for key, dflt in (("schema", None), ("comment", None), ("quote_name", None), ("pk_name", None), ("kw", {}), ("prefixes", []), ("info", {})):
            if t.get(key) not in (None, {}, []):
                s = copy.deepcopy(spec)
                s["tables"][ti][key] = copy.deepcopy(dflt)
                yield s
        for ci, c in enumerate(t["columns"]):
            for key, dflt in (("server_default", None), ("comment", None), ("nullable", None), ("autoincrement", "auto"), ("index", None), ("unique", None)):
                if c.get(key, dflt) != dflt:
                    s = copy.deepcopy(spec)
                    s["tables"][ti]["columns"][ci][key] = dflt
                    yield s
            if c["type"] != {"t": "Integer", "args": {}}:
                s = copy.deepcopy(spec)
                s["tables"][ti]["columns"][ci]["type"] = {"t": "Integer", "args": {}}
                yield s
        for ii, ix in enumerate(t.get("indexes", [])):
            if ix.get("kw"):
                s = copy.deepcopy(spec)
                s["tables"][ti]["indexes"][ii]["kw"] = {}
                yield s
            if len(ix["elems"]) > 1:
                for ei in range(len(ix["elems"])):
                    s = copy.deepcopy(spec)
                    del s["tables"][ti]["indexes"][ii]["elems"][ei]
                    yield s
    for oi, o in enumerate(spec["ops"]):
        if o["kind"] == "alter_column":
            for key, dflt in (
                ("modify_type", None), ("modify_nullable", None), ("modify_server_default", False), ("modify_comment", False),
                ("existing_type", None), ("existing_nullable", None), ("existing_server_default", False), ("existing_comment", None),
                ("autoincrement", None),
            ):
                if o.get(key, dflt) != dflt:
                    s = copy.deepcopy(spec)
                    s["ops"][oi][key] = dflt
                    yield s
    for key, dflt in (("render_as_batch", False), ("naming_convention", False)):
        if spec["opts"].get(key):
            s = copy.deepcopy(spec)
            s["opts"][key] = dflt
            yield s
    # 5. replace an unusual name by a plain one
    k = 0
    seen = set()
    for ti, t in enumerate(spec["tables"]):
        glob = [t["name"], t.get("schema"), t.get("pk_name")]
        glob += [u["name"] for u in t.get("uniques", [])] + [c["name"] for c in t.get("checks", [])]
        glob += [f["name"] for f in t.get("fks", [])] + [i["name"] for i in t.get("indexes", [])]
        glob += [(c["type"].get("args") or {}).get("name") for c in t["columns"]]
        for n in glob:
            if isinstance(n, dict):
                n = n["conv"]
            if n is None or _is_plain(n) or n in seen:
                continue
            seen.add(n)
            k += 1
            yield _rename(spec, n, "zz%d" % k)
        for c in t["columns"]:
            if not _is_plain(c["name"]):
                k += 1
                yield _rename_scoped(spec, ti, c["name"], "zc%d" % k)


def battery():
    """a small fixed battery of specs for branches random generation reaches rarely or never;
    every entry is crossed with batch on/off by the caller"""
    def col(name, t="Integer", **kw):
        c = {"name": name, "type": {"t": t, "args": kw.pop("targs", {})}, "nullable": None, "primary_key": False,
             "server_default": None, "comment": None, "autoincrement": "auto"}
        c.update(kw)
        return c

    def table(name, cols, **kw):
        t = {"name": name, "schema": None, "comment": None, "quote_name": None, "columns": cols, "uniques": [], "checks": [],
             "pk_name": None, "fks": [], "indexes": [], "kw": {}, "prefixes": [], "info": {}}
        t.update(kw)
        return t

    def spec(tables, ops_, **opts):
        o = {"render_as_batch": False, "naming_convention": False, "render_dialect": "default"}
        o.update(opts)
        return {"v": 1, "opts": o, "dialects": opts.pop("dialects", None) if False else None, "tables": tables, "ops": ops_, "name_classes": []}

    out = []
    # more than 255 arguments: _add_table switches to `*[...]` (MAX_PYTHON_ARGS)
    big = table("wide", [col("c%03d" % i, primary_key=(i == 0)) for i in range(257)])
    out.append(("wide-table", spec([big], [{"kind": "create_table", "table": 0}])))
    # exactly at the limit: 254 columns + PK constraint = 255 arguments (no star form)
    lim = table("limit", [col("c%03d" % i, primary_key=(i == 0)) for i in range(254)])
    out.append(("limit-table", spec([lim], [{"kind": "create_table", "table": 0}])))
    # every if_exists / if_not_exists value on every op that takes one
    t = table("it's", [col("id", primary_key=True), col("na me", "String", targs={"length": 30})], schema="s'x",
              indexes=[{"name": "ix it's", "elems": [{"col": "na me"}], "unique": False, "kw": {}}])
    for v in (True, False):
        out.append(("if-flags-%s" % v, spec([t], [
            {"kind": "create_table", "table": 0, "if_not_exists": v},
            {"kind": "create_index", "table": 0, "index": 0, "if_not_exists": v},
            {"kind": "drop_index", "table": 0, "index": 0, "if_exists": v},
            {"kind": "drop_table", "table": 0, "if_exists": v}])))
    # rename + every other alter_column option at once
    out.append(("alter-rename", spec([t], [{
        "kind": "alter_column", "table": 0, "column": 1, "existing_type": {"t": "String", "args": {"length": 30}},
        "existing_nullable": True, "existing_server_default": {"kind": "text", "value": "'x'"}, "existing_comment": "old",
        "modify_type": None, "modify_nullable": None, "modify_server_default": False, "modify_comment": False,
        "autoincrement": None, "modify_name": "new 'name'"}])))
    # constraint drops of every kind, typed and untyped; execute; empty container
    t2 = table("acct", [col("id", primary_key=True), col("qty")], pk_name="pk it's",
               checks=[{"name": "ck\\pos", "sqltext": "qty > 0", "col": "qty"}])
    out.append(("drops", spec([t2], [
        {"kind": "drop_check", "table": 0, "constraint": 0}, {"kind": "drop_pk", "table": 0},
        {"kind": "drop_untyped", "table": 0, "name": "some \"name\""}, {"kind": "empty_modify", "table": 0},
        {"kind": "execute", "table": 0, "sqltext": "UPDATE acct SET qty = 0 WHERE id = 'it''s' -- 50%"}])))
    # MetaData(schema=...) with a foreign key to a schema-less table, to a ghost table and by link_to_name; Column(key=...)
    a = table("parent", [col("id", primary_key=True), col("code", key="code_attr")])
    b = table("child", [col("id", primary_key=True), col("pid"), col("pcode"), col("gid")], fks=[
        {"name": None, "cols": ["pid"], "reftable": 0, "refcols": ["id"], "ondelete": None, "onupdate": None, "deferrable": None,
         "initially": None, "use_alter": False, "match": None},
        {"name": "fk_code", "cols": ["pcode"], "reftable": 0, "refcols": ["code"], "ondelete": None, "onupdate": None, "deferrable": None,
         "initially": None, "use_alter": False, "match": None},
        {"name": "fk_ltn", "cols": ["pid"], "reftable": 0, "refcols": ["id"], "ondelete": None, "onupdate": None, "deferrable": None,
         "initially": None, "use_alter": False, "match": None, "link_to_name": True},
        {"name": "fk_ghost", "cols": ["gid"], "reftable": 0, "refcols": ["id"], "ondelete": None, "onupdate": None, "deferrable": None,
         "initially": None, "use_alter": False, "match": None, "ghost": "ghost_tbl.id"}])
    for ms in (None, "ms"):
        for nc in (False, True):
            o = {"naming_convention": nc}
            if ms:
                o["metadata_schema"] = ms
            if nc:
                o["target_metadata"] = True
            out.append(("fk-colspec-%s-%s" % (ms, nc), spec([a, b], [
                {"kind": "create_table", "table": 0}, {"kind": "create_table", "table": 1},
                {"kind": "create_fk", "table": 1, "constraint": 1}, {"kind": "drop_fk", "table": 1, "constraint": 1}], **o)))
    # render_item hooks and user defined types
    u = table("geo", [col("id", primary_key=True), col("at", "user.Epoch", targs={"scale": 1000}, server_default={"kind": "text", "value": "0"}),
                      col("pt", "user.Point", targs={"srid": 4326}), col("sys", system=True)],
              uniques=[{"name": "uq_at", "cols": ["at"], "deferrable": None, "initially": None}],
              checks=[{"name": "ck_at", "sqltext": "at >= 0", "col": "at"}])
    for ri in (None, "false", "mirror-types", "mirror-column", "mirror-constraints"):
        for ump in (None, "ut."):
            o = {}
            if ri:
                o["render_item"] = ri
            if ump:
                o["user_module_prefix"] = ump
            out.append(("hooks-%s-%s" % (ri, ump), spec([u], [
                {"kind": "create_table", "table": 0}, {"kind": "add_column", "table": 0, "column": 1, "via": "from_column"},
                {"kind": "alter_column", "table": 0, "column": 2, "existing_type": {"t": "user.Point", "args": {"srid": 4326}},
                 "existing_nullable": None, "existing_server_default": False, "existing_comment": None,
                 "modify_type": {"t": "user.Epoch", "args": {}}, "modify_nullable": None, "modify_server_default": False,
                 "modify_comment": False, "autoincrement": None}], **o)))
    # operator expressions as index members, labelled (postgresql_ops keyed by the label) and not, next to plain columns
    person = table("person", [col("id", primary_key=True), col("first", "String", targs={"length": 50}),
                              col("Last Name", "String", targs={"length": 50}), col("width"), col("height")],
                   indexes=[
                       {"name": "ix_person_first", "elems": [{"col": "first"}], "unique": False, "kw": {"postgresql_ops": {"first": "varchar_pattern_ops"}}},
                       {"name": "ix_person_full", "elems": [{"opexpr": "concat", "cols": ["first", "Last Name"], "label": "full"}, {"col": "id"}],
                        "unique": False, "kw": {"postgresql_ops": {"full": "varchar_pattern_ops"}}},
                       {"name": "ix_person_perimeter", "elems": [{"opexpr": "mul", "cols": ["width", "height"], "label": "perimeter"}], "unique": True, "kw": {}},
                       {"name": "ix_person_sum", "elems": [{"opexpr": "add", "cols": ["width", "height"]}, {"col": "first"}], "unique": False, "kw": {}},
                       {"name": "ix_person_neg", "elems": [{"opexpr": "neg", "cols": ["width", "width"], "label": "it's"}], "unique": False, "kw": {"postgresql_ops": {"it's": "int4_ops"}}},
                       {"name": "ix_person_arrow", "elems": [{"opexpr": "arrow", "cols": ["first", "first"], "label": "k"}, {"opexpr": "and", "cols": ["width", "height"]}],
                        "unique": False, "kw": {}},
                       {"name": "ix_person_coll", "elems": [{"opexpr": "addcollate", "cols": ["first", "Last Name"], "label": "c"}, {"func": ["lower", "first"], "label": "lfirst"}],
                        "unique": False, "kw": {"postgresql_ops": {"lfirst": "varchar_pattern_ops"}}}])
    for nc in (False, True):
        out.append(("expr-index-%s" % nc, spec([person], [{"kind": "create_table", "table": 0}] + [
            {"kind": "create_index", "table": 0, "index": i} for i in range(7)] + [{"kind": "drop_index", "table": 0, "index": 1}], naming_convention=nc)))
    # foreign keys to tables that live in multi-part schemas (database.owner): the colspec has four or more tokens
    acct = table("account", [col("id", primary_key=True), col("code")], schema="mydb.dbo")
    acct3 = table("ledger", [col("id", primary_key=True)], schema="srv.mydb.dbo")

    def fk(cols, reft, refcols, name=None):
        return {"name": name, "cols": cols, "reftable": reft, "refcols": refcols, "ondelete": None, "onupdate": None, "deferrable": None,
                "initially": None, "use_alter": False, "match": None}

    for own in (None, "mydb.dbo", "other"):
        inv = table("invoice", [col("id", primary_key=True), col("account_id"), col("ledger_id")], schema=own,
                    fks=[fk(["account_id"], 0, ["id"], "fk_acct"), fk(["ledger_id"], 1, ["id"]), fk(["account_id"], 0, ["id"], "fk_ltn")])
        inv["fks"][2]["link_to_name"] = True
        out.append(("multipart-schema-%s" % own, spec([acct, acct3, inv], [
            {"kind": "create_table", "table": 2}, {"kind": "create_fk", "table": 2, "constraint": 0},
            {"kind": "create_fk", "table": 2, "constraint": 1}, {"kind": "drop_fk", "table": 2, "constraint": 0},
            {"kind": "create_table", "table": 0}, {"kind": "drop_table", "table": 1}])))
    # PostgreSQL only: types with and without a dedicated renderer, inline and ALTER exclude constraints
    pg = table("evt", [col("id", primary_key=True), col("uid", "postgresql.UUID"), col("ip", "postgresql.INET"),
                       col("tags", "postgresql.ARRAY", targs={"item": {"t": "String", "args": {"length": 20}}}),
                       col("ep", "postgresql.ARRAY", targs={"item": {"t": "user.Epoch", "args": {"scale": 2}}, "dimensions": 2}),
                       col("doc", "postgresql.JSON", targs={"astext": {"t": "Text", "args": {}}}),
                       col("kv", "postgresql.HSTORE", targs={"text": {"t": "String", "args": {"length": 50}}}),
                       col("lo"), col("hi")],
               excludes=[{"name": "ex it's", "elems": [["id", "="], [{"litcol": "int8range(lo, hi)"}, "&&"]], "where": "lo < hi",
                          "using": "gist", "deferrable": True, "initially": "DEFERRED"}])
    for ri in (None, "mirror-constraints", "mirror-types"):
        sp = spec([pg], [{"kind": "create_table", "table": 0}, {"kind": "create_exclude", "table": 0},
                         {"kind": "add_column", "table": 0, "column": 3, "via": "from_column"}], **({"render_item": ri} if ri else {}))
        sp["dialects"] = ["postgresql"]
        out.append(("pg-%s" % ri, sp))
    return out


def spec_key(spec):
    return json.dumps(spec, sort_keys=True, ensure_ascii=True)
