"""Commands run the way env.py runs them (C03): a *fresh* `MigrationContext` per command on a live
SQLite connection, `with ctx.begin_transaction(): ctx.run_migrations()`, the current heads read
from the version table by `get_current_heads()`, the table created by `_ensure_version_table()`,
and the version-table options a project may configure (`version_table`, `version_table_schema`
— an ATTACHed database on SQLite —, `version_table_pk`).

harness/rev_impl.command drives `_upgrade_revs` + `HeadMaintainer` with the rows handed in; what it
cannot see is how the rows get from the table into the next command.
"""
from __future__ import annotations

import warnings

from sqlalchemy import create_engine, text
from sqlalchemy.pool import StaticPool

from alembic.runtime.migration import HeadMaintainer, MigrationContext

from . import rev_impl

class _custom_version_table:
    """the documented DefaultImpl.version_table_impl() hook: a version table with a surrogate key in front of version_num
    and a column behind it (the only contract is a string column named version_num).  Defining an impl class registers it
    for the dialect name, so the stock one is put back on exit."""

    def __init__(self, active):
        self.active = active

    def __enter__(self):
        if not self.active:
            return
        from sqlalchemy import Column, Integer, MetaData, String, Table
        from alembic.ddl import impl as impl_mod
        from alembic.ddl.sqlite import SQLiteImpl

        self.saved = impl_mod._impls["sqlite"]

        class WideVersionTableImpl(SQLiteImpl):
            __dialect__ = "sqlite"

            def version_table_impl(self, *, version_table, version_table_schema, version_table_pk, **kw):
                return Table(version_table, MetaData(), Column("id", Integer, primary_key=True),
                             Column("version_num", String(32), nullable=False), Column("note", String(50)),
                             schema=version_table_schema)

    def __exit__(self, *a):
        if self.active:
            from alembic.ddl import impl as impl_mod

            impl_mod._impls["sqlite"] = self.saved


OPTION_SETS = [
    {},
    {"custom_version_table": True},
    {"version_table": "my versions"},
    {"version_table_schema": "bookkeeping"},
    {"version_table_schema": "bookkeeping", "version_table": "Ver", "version_table_pk": False},
    {"version_table_pk": False},
    {"version_table_schema": "main"},
]


class CtxDb:
    """one connection kept open for a whole command sequence (the ATTACH lives on it)"""

    def __init__(self, opts):
        self.opts = dict(opts)
        self.engine = create_engine("sqlite://", poolclass=StaticPool)
        self.conn = self.engine.connect()
        self.conn.execute(text("ATTACH DATABASE ':memory:' AS bookkeeping"))
        self.conn.commit()
        self.table = self.opts.get("version_table", "alembic_version")
        self.schema = self.opts.get("version_table_schema")

    def close(self):
        self.conn.close()
        self.engine.dispose()

    def _qualified(self):
        t = '"%s"' % self.table
        return ('"%s".%s' % (self.schema, t)) if self.schema else t

    def rows(self):
        """what a fresh reader finds (table order); [] when there is no table"""
        try:
            r = [x[0] for x in self.conn.execute(text("select version_num from %s" % self._qualified()))]
        except Exception:  # noqa
            r = []
        self.conn.rollback()
        return r

    def _opts(self):
        return {k: v for k, v in self.opts.items() if k != "custom_version_table"}

    def set_rows(self, rows):
        with _custom_version_table(self.opts.get("custom_version_table")):
            ctx = MigrationContext.configure(self.conn, opts=self._opts())
            ctx._ensure_version_table()
        self.conn.execute(text("delete from %s" % self._qualified()))
        for r in rows:
            self.conn.execute(text("insert into %s (version_num) values (:v)" % self._qualified()), {"v": r})
        self.conn.commit()

    def command(self, sd, cmd, target):
        """one command on a fresh context; same answer shape as rev_impl.command"""
        steps_seen, trace, stmts = [], [], []
        oi, od, ou = HeadMaintainer._insert_version, HeadMaintainer._delete_version, HeadMaintainer._update_version

        def ins(self_, v):
            stmts.append(["ins", str(v)])
            return oi(self_, v)

        def dele(self_, v):
            stmts.append(["del", str(v)])
            return od(self_, v)

        def upd(self_, a, b):
            stmts.append(["upd", str(a), str(b)])
            return ou(self_, a, b)

        def fn(heads, ctx):
            if cmd == "upgrade":
                st = sd._upgrade_revs(target, heads)
            elif cmd == "downgrade":
                st = sd._downgrade_revs(target, heads)
            else:
                st = sd._stamp_revs(tuple(target), heads)
            steps_seen.extend(st)
            return st

        def on_apply(ctx, step, heads, run_args):
            db = [x[0] for x in ctx.connection.execute(text("select version_num from %s" % self._qualified()))]
            trace.append({"rows": db, "stmts": [list(s) for s in stmts], "heads": sorted(str(h) for h in heads)})
            del stmts[:]

        opts = dict(self._opts(), fn=fn, script=sd, on_version_apply=(on_apply,))
        HeadMaintainer._insert_version, HeadMaintainer._delete_version, HeadMaintainer._update_version = ins, dele, upd
        err = None
        try:
            with warnings.catch_warnings(), _custom_version_table(self.opts.get("custom_version_table")):
                warnings.simplefilter("ignore")
                with rev_impl.alarm(10):
                    ctx = MigrationContext.configure(self.conn, opts=opts)
                    with ctx.begin_transaction():
                        ctx.run_migrations()
            self.conn.commit()
        except Exception as e:  # noqa
            err = rev_impl.err_name(e)
            self.conn.rollback()
        finally:
            HeadMaintainer._insert_version, HeadMaintainer._delete_version, HeadMaintainer._update_version = oi, od, ou
        if err and not steps_seen:
            return {"err": err}
        out = {"steps": [rev_impl.step_json(s) for s in steps_seen], "trace": trace}
        if err:
            out["stepErr"] = err
            out["steps"] = out["steps"]
        return out


def drive(ctx, runner_cases, rng, hist, n_cmds, weights, opts):
    """a command sequence from the empty database, each command on a fresh context reading the
    table; appends (case, impl) to runner_cases"""
    from . import rev_corr

    sd, info = rev_impl.load(hist)
    if sd is None:
        return
    db = CtxDb(opts)
    try:
        for _ in range(n_cmds):
            before = db.rows()
            cmd = rng.choices(["upgrade", "downgrade", "stamp"], weights=weights)[0]
            if not before and cmd == "downgrade":
                cmd = "upgrade"
            target = rng.choice(rev_corr.targets_for(rng, hist, info, cmd, before))
            impl = db.command(sd, cmd, target)
            c = {"revs": hist, "normOrder": info["normOrder"], "rows": list(before), "cmd": cmd, "ctxopts": dict(opts)}
            if cmd == "stamp":
                c["targets"] = list(target)
            else:
                c["target"] = target
            runner_cases.append((c, impl))
            ctx.hist("fresh_context_options", ", ".join("%s=%r" % kv for kv in sorted(opts.items())) or "defaults")
    finally:
        db.close()


def replay_case(inp):
    sd, info = rev_impl.load(inp["revs"])
    db = CtxDb(inp.get("ctxopts", {}))
    try:
        db.set_rows(inp["rows"])
        tgt = inp.get("target", inp.get("targets"))
        return db.command(sd, inp["cmd"], tuple(tgt) if isinstance(tgt, list) else tgt)
    finally:
        db.close()
