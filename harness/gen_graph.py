"""Generators of revision histories (DAGs) and of database states, independent of alembic."""
from __future__ import annotations

import itertools


def gen_ids(rng, n, alphabet="abcdef0123456789", length=None, collide=False):
    ids = set()
    out = []
    while len(out) < n:
        if collide:
            # small alphabet, varied length: many shared prefixes
            s = "".join(rng.choice("ab1") for _ in range(rng.randint(2, 5)))
        else:
            s = "".join(rng.choice(alphabet) for _ in range(length or rng.choice([3, 4, 6, 12])))
        if s in ids or s in ("head", "heads", "base", "current"):
            continue
        ids.add(s)
        out.append(s)
    return out


def gen_history(rng, n, labels=True, deps=True, collide=False, max_parents=2, shuffle=True, p_root=0.15, p_merge=0.25, numeric=False):
    if numeric:
        # hand-numbered projects: 000, 001, 002 … (ids that Python's int() accepts)
        width = rng.choice([1, 3, 4])
        ids = ["%0*d" % (width, k) for k in ([0] + rng.sample(range(1, 60), n - 1) if n > 1 else [0])]
        rng.shuffle(ids)
    else:
        ids = gen_ids(rng, n, collide=collide)
    hist = []
    used_labels = set()
    for i, rid in enumerate(ids):
        earlier = ids[:i]
        down = []
        if earlier and rng.random() > p_root:
            k = 1
            if len(earlier) >= 2 and rng.random() < p_merge:
                k = 2 if max_parents < 3 or rng.random() < 0.8 else 3
            # prefer recent revisions / current heads to get long chains and real merges
            pool = list(earlier)
            down = []
            for _ in range(min(k, len(pool))):
                if rng.random() < 0.6:
                    c = pool[-1 - min(len(pool) - 1, int(rng.expovariate(0.9)))]
                else:
                    c = rng.choice(pool)
                pool.remove(c)
                down.append(c)
        dp = []
        if deps and earlier and rng.random() < 0.3:
            pool = [e for e in earlier if e not in down]
            for _ in range(rng.choice([1, 1, 2])):
                if pool:
                    c = rng.choice(pool)
                    pool.remove(c)
                    dp.append(c)
        if deps and down and rng.random() < (0.2 if len(down) > 1 else 0.04):
            # legal and de-duplicated by alembic: depends_on repeats one of the revision's own down revisions
            dp.insert(rng.randrange(len(dp) + 1), rng.choice(down))
        lb = []
        if labels and rng.random() < 0.25:
            if collide:
                l = "".join(rng.choice("ab1") for _ in range(rng.randint(2, 5))) + rng.choice(["lbl", "x", ""])
            else:
                l = "br" + "".join(rng.choice("xyz") for _ in range(2)) + str(i)
            if l and l not in used_labels and l not in ids and l not in ("head", "heads", "base"):
                used_labels.add(l)
                lb.append(l)
        hist.append({"id": rid, "down": down, "deps": dp, "labels": lb})
    if shuffle:
        rng.shuffle(hist)
    return hist


def descriptive_history(rng):
    """descriptive / hand-numbered revision ids, one of which is contained in another (`user` in `user_invoice`, `1` in
    `11`), on two or three lineages tied together by depends_on: a revision with one down revision D depends on a revision X
    of another lineage whose id is a proper substring of D"""
    x, d = rng.choice([("user", "user_invoice"), ("1", "11"), ("r1", "r11"), ("tax", "billing_tax"), ("ab", "cabd"),
                       ("acct", "acct2"), ("2", "120")])
    la, lb = rng.choice([("accounts", "billing"), ("aa", "bb"), ("one", "two")])
    x2 = x + "_more" if not x.isdigit() else str(int(x) + 1 if str(int(x) + 1) != d else int(x) + 5)
    hist = [{"id": x, "down": [], "deps": [], "labels": [la] if rng.random() < 0.8 else []}]
    if rng.random() < 0.7:
        hist.append({"id": x2, "down": [x], "deps": [], "labels": []})
    d_root = rng.random() < 0.5
    pre = "0b_base" if not d.isdigit() else "10"
    if not d_root:
        hist.append({"id": pre, "down": [], "deps": [], "labels": [lb] if rng.random() < 0.8 else []})
    hist.append({"id": d, "down": [] if d_root else [pre], "deps": [], "labels": ([lb] if d_root and rng.random() < 0.8 else [])})
    r1 = d + "_totals" if not d.isdigit() else str(int(d) + 1)
    hist.append({"id": r1, "down": [d], "deps": [x], "labels": []})
    if rng.random() < 0.7:
        r2 = d + "_tail" if not d.isdigit() else str(int(d) + 2)
        hist.append({"id": r2, "down": [r1], "deps": [], "labels": []})
    if rng.random() < 0.3:
        hist.append({"id": "zz_other", "down": [], "deps": [], "labels": []})
    rng.shuffle(hist)
    return hist


def deep_line_history(rng):
    """a long line (13-16 revisions, as a project's main line is) with a labelled side branch: offsets of two digits"""
    n = rng.randint(13, 16)
    ids = ["%02dc0f%02d" % (k, k) for k in range(n)]
    hist = [{"id": x, "down": [ids[k - 1]] if k else [], "deps": [], "labels": (["trunk"] if k == 0 else [])} for k, x in enumerate(ids)]
    fork = rng.randrange(1, 4)
    hist.append({"id": "side01", "down": [ids[fork]], "deps": [], "labels": ["side"]})
    hist.append({"id": "side02", "down": ["side01"], "deps": [], "labels": []})
    rng.shuffle(hist)
    return hist


def parents(hist):
    return {r["id"]: list(r.get("down", [])) + list(r.get("deps", [])) for r in hist}


def anc_closure(hist, roots):
    par = parents(hist)
    seen = set()
    todo = list(roots)
    while todo:
        x = todo.pop()
        if x in seen:
            continue
        seen.add(x)
        todo.extend(par.get(x, []))
    return seen


def maximal(hist, applied):
    par = parents(hist)
    has_child = set()
    for r in applied:
        for p in par.get(r, []):
            has_child.add(p)
    return sorted(r for r in applied if r not in has_child)


def reachable_state(rng, hist, force_nonempty=False):
    """heads of a random ancestor-closed set (reachable by upgrading to each of them in turn)."""
    ids = [r["id"] for r in hist]
    k = rng.choice([0, 1, 1, 2, 2, 3]) if not force_nonempty else rng.choice([1, 1, 2, 3])
    roots = rng.sample(ids, min(k, len(ids)))
    applied = anc_closure(hist, roots)
    return maximal(hist, applied)


def all_histories(n, max_parents=2, max_deps=1, ids="abcde"):
    """every DAG on n revisions named a,b,.. where revision i may only point to earlier ones
    (every DAG is isomorphic to one of these), <=max_parents down revisions, <=max_deps dependencies."""
    names = list(ids[:n])

    def choices(i):
        earlier = names[:i]
        downs = [c for k in range(0, max_parents + 1) for c in itertools.combinations(earlier, k)]
        out = []
        for d in downs:
            rest = [e for e in earlier if e not in d]
            for k in range(0, max_deps + 1):
                for dp in itertools.combinations(rest, k):
                    out.append((list(d), list(dp)))
        return out

    per = [choices(i) for i in range(n)]
    for combo in itertools.product(*per):
        yield [{"id": names[i], "down": combo[i][0], "deps": combo[i][1], "labels": []} for i in range(n)]


def all_antichain_states(hist):
    ids = [r["id"] for r in hist]
    seen = set()
    for k in range(0, len(ids) + 1):
        for sub in itertools.combinations(ids, k):
            st = tuple(maximal(hist, anc_closure(hist, sub)))
            if st not in seen:
                seen.add(st)
                yield list(st)
