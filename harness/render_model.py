"""Real alembic op objects -> the JSON vocabulary of lean/Model/Render (driver drv_render).

The extraction reads from the op object exactly what the renderer in
alembic/autogenerate/render.py reads (`op.to_table()`, `op.to_index()`, `op.to_constraint()`,
`op.kw`, ...).  What SQLAlchemy renders (type repr, server default expressions, dialect kwarg
values, fk colspecs) is obtained by calling the real helper (`_repr_type`,
`_render_server_default`, `_render_potential_expr`, `_fk_colspec`, ...) and handed to the
model as an opaque, already parsed Python expression.  A fragment that is not in the model's
expression subset (method chains, operators, dicts, lambdas) raises Unrepresentable: the case
is then only judged by the exec/invoke oracle.
"""
from __future__ import annotations

import ast

from sqlalchemy import schema as sa_schema
from sqlalchemy import types as sqltypes
from sqlalchemy.sql.elements import conv

from alembic.autogenerate import render
from alembic.autogenerate.api import AutogenContext
from alembic.operations import ops
from alembic.runtime.migration import MigrationContext
from alembic.util import sqla_compat


class Unrepresentable(Exception):
    pass


def cps(s):
    return [ord(c) for c in s]


def ocps(s):
    return None if s is None else cps(str(s))


def make_actx(dialect, as_batch=False):
    if dialect in (None, "default"):
        from sqlalchemy.engine.default import DefaultDialect

        mc = MigrationContext.configure(dialect=DefaultDialect())
    else:
        mc = MigrationContext.configure(dialect_name=dialect)
    opts = {
        "sqlalchemy_module_prefix": "sa.",
        "alembic_module_prefix": "op.",
        "user_module_prefix": None,
        "render_as_batch": as_batch,
        "render_item": None,
    }
    return AutogenContext(mc, opts=opts, autogenerate=False)


# ---- Python expression text -> model AST -------------------------------------------------


def _dotted(node):
    if isinstance(node, ast.Name):
        return node.id
    if isinstance(node, ast.Attribute):
        return _dotted(node.value) + "." + node.attr
    raise Unrepresentable("callee/name " + type(node).__name__)


def _conv(node, src):
    if isinstance(node, ast.Constant):
        v = node.value
        if isinstance(v, str):
            return {"t": "str", "s": cps(v)}
        if v is None or v is True or v is False:
            return {"t": "name", "n": cps(repr(v))}
        if isinstance(v, (int, float)) and not isinstance(v, bool):
            seg = ast.get_source_segment(src, node)
            if seg and all(c.isalnum() or c in "._" for c in seg):
                return {"t": "name", "n": cps(seg)}
        raise Unrepresentable("constant %r" % (v,))
    if isinstance(node, (ast.Name, ast.Attribute)):
        return {"t": "name", "n": cps(_dotted(node))}
    if isinstance(node, ast.List):
        return {"t": "list", "items": [_conv(e, src) for e in node.elts]}
    if isinstance(node, ast.Call):
        fn = _dotted(node.func)
        items = []
        for a in node.args:
            if isinstance(a, ast.Starred):
                raise Unrepresentable("starred")
            items.append({"k": None, "v": _conv(a, src)})
        for k in node.keywords:
            if k.arg is None:
                raise Unrepresentable("**kw")
            items.append({"k": cps(k.arg), "v": _conv(k.value, src)})
        seg = ast.get_source_segment(src, node) or ""
        trail = seg.endswith(")") and seg[:-1].rstrip(" ").endswith(",")
        return {"t": "call", "fn": cps(fn), "items": items, "trail": bool(trail)}
    raise Unrepresentable(type(node).__name__)


def expr_ast(text):
    """a rendered fragment (type repr, sa.text('..'), 'literal', True, ...) as model AST"""
    if text is None:
        return None
    if not isinstance(text, str):
        raise Unrepresentable("fragment is %r" % type(text).__name__)
    try:
        tree = ast.parse(text, mode="eval")
    except SyntaxError:
        raise Unrepresentable("fragment does not parse: %r" % text[:60])
    return _conv(tree.body, text)


def value_ast(v):
    return expr_ast(repr(v))


# ---- pieces --------------------------------------------------------------------------------


def gen_name(name):
    if isinstance(name, conv):
        return {"g": "conv", "s": cps(str(name))}
    n = sqla_compat.constraint_name_or_none(name)
    if n is None:
        return {"g": "none"}
    return {"g": "plain", "s": cps(str(n))}


def kw_items(strings):
    """['key=value', ...] as produced by _render_dialect_kwargs_items"""
    out = []
    for s in strings:
        k, _, v = s.partition("=")
        out.append({"k": cps(k), "v": expr_ast(v)})
    return out


def col_json(col, actx):
    sd = None
    positional = False
    if col.server_default:
        rendered = render._render_server_default(col.server_default, actx)
        if rendered:
            sd = expr_ast(rendered)
            positional = bool(render._should_render_server_default_positionally(col.server_default))
    autoinc = None
    if col.autoincrement is not None and col.autoincrement != sqla_compat.AUTOINCREMENT_DEFAULT:
        autoinc = value_ast(col.autoincrement)
    return {
        "name": cps(render._ident(col.name)),
        "type": expr_ast(render._repr_type(col.type, actx)),
        "sdefault": sd,
        "sdPositional": positional,
        "autoinc": autoinc,
        "nullable": None if col.nullable is None else bool(col.nullable),
        "system": bool(col.system),
        "comment": ocps(col.comment),
        "kwargs": [
            {"k": cps(k), "v": expr_ast(render._render_potential_expr(v, actx))} for k, v in col.kwargs.items()
        ],
    }


def cons_json(cons, actx, namespace_metadata):
    if isinstance(cons, sa_schema.PrimaryKeyConstraint):
        return {"c": "pk", "name": gen_name(cons.name), "cols": [cps(c.name) for c in cons.columns]}
    if isinstance(cons, sa_schema.ForeignKeyConstraint):
        opts = []
        render._populate_render_fk_opts(cons, opts)
        return {
            "c": "fk",
            "name": gen_name(cons.name),
            "cols": [cps(render._ident(f.parent.name)) for f in cons.elements],
            "refcols": [cps(render._fk_colspec(f, namespace_metadata.schema, namespace_metadata)) for f in cons.elements],
            "opts": [{"k": cps(k), "v": expr_ast(v)} for k, v in opts],
        }
    if isinstance(cons, sa_schema.UniqueConstraint):
        return {
            "c": "uq",
            "name": gen_name(cons.name),
            "cols": [cps(render._ident(c.name)) for c in cons.columns],
            "deferrable": value_ast(cons.deferrable) if cons.deferrable else None,
            "initially": value_ast(cons.initially) if cons.initially else None,
            "kwargs": kw_items(render._render_dialect_kwargs_items(actx, cons)),
        }
    if isinstance(cons, sa_schema.CheckConstraint):
        if (
            cons._create_rule
            and hasattr(cons._create_rule, "target")
            and isinstance(cons._create_rule.target, sqltypes.TypeEngine)
        ):
            return None
        txt = render._render_potential_expr(cons.sqltext, actx, wrap_in_element=False)
        return {"c": "ck", "name": gen_name(cons.name), "sqltext": cps(ast.literal_eval(txt))}
    raise Unrepresentable("constraint " + type(cons).__name__)


def _optopt(flag_unset, value, conv_fn):
    if flag_unset:
        return {"set": False}
    return {"set": True, "v": None if value is None else conv_fn(value)}


def op_json(op, actx):
    if isinstance(op, ops.CreateTableOp):
        table = op.to_table()
        if table.info or table._prefixes:
            raise Unrepresentable("table info/prefixes")
        cons = []
        for c in table.constraints:
            j = cons_json(c, actx, op._namespace_metadata)
            if j is not None:
                cons.append(j)
        if not list(table.columns):
            raise Unrepresentable("create_table without columns")
        if len(list(table.columns)) + len(cons) > render.MAX_PYTHON_ARGS:
            raise Unrepresentable("create_table with more than MAX_PYTHON_ARGS arguments (*[...] form)")
        return {
            "kind": "create_table",
            "table": cps(render._ident(op.table_name)),
            "schema": ocps(op.schema),
            "cols": [col_json(c, actx) for c in table.columns],
            "cons": cons,
            "comment": ocps(table.comment),
            "kws": [{"k": cps(k.replace(" ", "_")), "v": value_ast(op.kw[k])} for k in sorted(op.kw)],
            "if_not_exists": None if op.if_not_exists is None else bool(op.if_not_exists),
        }
    if isinstance(op, ops.DropTableOp):
        return {
            "kind": "drop_table",
            "table": cps(render._ident(op.table_name)),
            "schema": ocps(op.schema),
            "if_exists": None if op.if_exists is None else bool(op.if_exists),
        }
    if isinstance(op, ops.AddColumnOp):
        return {"kind": "add_column", "table": cps(op.table_name), "schema": ocps(op.schema), "col": col_json(op.column, actx)}
    if isinstance(op, ops.DropColumnOp):
        return {"kind": "drop_column", "table": cps(op.table_name), "schema": ocps(op.schema), "column": cps(op.column_name)}
    if isinstance(op, ops.AlterColumnOp):
        sd = op.modify_server_default
        esd = op.existing_server_default
        return {
            "kind": "alter_column",
            "table": cps(op.table_name),
            "column": cps(op.column_name),
            "schema": ocps(op.schema),
            "existing_type": None if op.existing_type is None else expr_ast(render._repr_type(op.existing_type, actx)),
            "server_default": {"set": False}
            if sd is False
            else {"set": True, "v": expr_ast(render._render_server_default(sd, actx))},
            "new_column_name": ocps(op.modify_name),
            "type_": None if op.modify_type is None else expr_ast(render._repr_type(op.modify_type, actx)),
            "nullable": None if op.modify_nullable is None else bool(op.modify_nullable),
            "comment": {"set": False} if op.modify_comment is False else {"set": True, "v": ocps(op.modify_comment)},
            "existing_comment": ocps(op.existing_comment),
            "existing_nullable": None if op.existing_nullable is None else bool(op.existing_nullable),
            "autoincrement": None if op.kw.get("autoincrement", None) is None else value_ast(op.kw["autoincrement"]),
            "existing_server_default": expr_ast(render._render_server_default(esd, actx)) if esd else None,
        }
    if isinstance(op, ops.CreateIndexOp):
        index = op.to_index()
        elems = []
        for exp in index.expressions:
            if isinstance(exp, sa_schema.Column):
                elems.append({"col": cps(render._ident(getattr(exp, "name", None))), "expr": None})
            else:
                elems.append({"col": None, "expr": expr_ast(render._render_potential_expr(exp, actx, is_index=True))})
        return {
            "kind": "create_index",
            "name": gen_name(index.name),
            "table": cps(render._ident(index.table.name)),
            "schema": ocps(index.table.schema),
            "elems": elems,
            "unique": bool(index.unique or False),
            "kws": kw_items(render._render_dialect_kwargs_items(actx, index)),
            "if_not_exists": None if op.if_not_exists is None else bool(op.if_not_exists),
        }
    if isinstance(op, ops.DropIndexOp):
        index = op.to_index()
        return {
            "kind": "drop_index",
            "name": gen_name(op.index_name),
            "table": cps(render._ident(op.table_name)),
            "schema": ocps(op.schema),
            "kws": kw_items(render._render_dialect_kwargs_items(actx, index)),
            "if_exists": None if op.if_exists is None else bool(op.if_exists),
        }
    if isinstance(op, ops.CreateUniqueConstraintOp):
        c = op.to_constraint()
        return {
            "kind": "create_unique",
            "name": gen_name(c.name),
            "table": cps(render._ident(c.table.name)),
            "schema": ocps(c.table.schema),
            "cols": [cps(render._ident(col.name)) for col in c.columns],
            "deferrable": value_ast(c.deferrable) if c.deferrable else None,
            "initially": value_ast(c.initially) if c.initially else None,
            "kws": kw_items(render._render_dialect_kwargs_items(actx, c)),
        }
    if isinstance(op, ops.CreateForeignKeyOp):
        def k(name):
            v = op.kw.get(name, None)
            return None if v is None else value_ast(v)

        return {
            "kind": "create_fk",
            "name": gen_name(op.constraint_name),
            "table": cps(render._ident(op.source_table)),
            "referent": cps(render._ident(op.referent_table)),
            "lcols": [cps(render._ident(c)) for c in op.local_cols],
            "rcols": [cps(render._ident(c)) for c in op.remote_cols],
            "source_schema": k("source_schema"),
            "referent_schema": k("referent_schema"),
            "onupdate": k("onupdate"),
            "ondelete": k("ondelete"),
            "initially": k("initially"),
            "deferrable": k("deferrable"),
            "use_alter": k("use_alter"),
            "match": k("match"),
        }
    if isinstance(op, ops.DropConstraintOp):
        return {
            "kind": "drop_constraint",
            "name": gen_name(op.constraint_name),
            "table": cps(render._ident(op.table_name)),
            "schema": ocps(op.schema),
            "type_": ocps(op.constraint_type),
        }
    if isinstance(op, ops.CreateTableCommentOp):
        return {
            "kind": "create_table_comment",
            "table": cps(op.table_name),
            "comment": ocps(op.comment),
            "existing_comment": ocps(op.existing_comment),
            "schema": ocps(op.schema),
        }
    if isinstance(op, ops.DropTableCommentOp):
        return {
            "kind": "drop_table_comment",
            "table": cps(op.table_name),
            "existing_comment": ocps(op.existing_comment),
            "schema": ocps(op.schema),
        }
    raise Unrepresentable("op " + type(op).__name__)


def top_json(op, actx):
    if isinstance(op, ops.ModifyTableOps):
        was = actx._has_batch
        # the opaque fragments do not depend on _has_batch, except op.f() prefixes which the model renders itself
        try:
            return {
                "top": "modify",
                "table": cps(op.table_name),
                "schema": ocps(op.schema),
                "ops": [op_json(o, actx) for o in op.ops],
            }
        finally:
            actx._has_batch = was
    return {"top": "single", "o": op_json(op, actx)}


def all_strings(j, acc=None):
    """every code-point array in a model JSON value (to compute the non-printable set)"""
    acc = set() if acc is None else acc
    if isinstance(j, list):
        if j and all(isinstance(x, int) for x in j):
            acc.update(x for x in j if x > 126 and not chr(x).isprintable())
        else:
            for x in j:
                all_strings(x, acc)
    elif isinstance(j, dict):
        for v in j.values():
            all_strings(v, acc)
    return acc
