"""C14 adapter: drives the real alembic DDL constructs in `--sql` mode and describes every
construct Alembic hands to `impl._exec` in the vocabulary of the Lean model (Model.Ident.Construct).

An *op description* is a JSON-able dict (so that failing inputs are replayable):
    {"op": "rename_table", "t": NAME, "new": NAME, "schema": NAME|None}
    {"op": "add_column", "t":, "col":, "schema":, "type": TYPEKEY, "kw": {...Column kwargs...}}
    {"op": "drop_column", "t":, "col":, "schema":, "kw": {"mssql_drop_default": true, ...}}
    {"op": "alter_column", "t":, "col":, "schema":, "kw": {"nullable": .., "type_": TYPEKEY, "new_column_name": NAME,
                         "server_default": DEFKEY|None, "comment": str|None, "existing_type": TYPEKEY, ...}}
    {"op": "drop_constraint", "cname":, "t":, "schema":, "type_": "check"|"foreignkey"|"primary"|"unique"}
    {"op": "compile", "construct": {...model construct json...}}      # direct compile of one construct
NAME is a str or {"s": str, "q": true|false|null} (sqlalchemy quoted_name).
"""
from __future__ import annotations

import io
import warnings

import sqlalchemy as sa
from sqlalchemy.sql.elements import quoted_name
from sqlalchemy import schema as sa_schema

from alembic.ddl import base as ddl_base
from alembic.ddl import mssql as ddl_mssql
from alembic.ddl import mysql as ddl_mysql
from alembic.ddl import postgresql as ddl_pg
from alembic.operations import Operations
from alembic.runtime.migration import MigrationContext

DIALECTS = ["sqlite", "postgresql", "mysql", "mssql", "oracle"]
ALL_DIALECTS = DIALECTS + ["mariadb"]

TYPES = {
    "INTEGER": lambda: sa.Integer(),
    "VARCHAR50": lambda: sa.String(50),
    "NUMERIC": lambda: sa.Numeric(10, 2),
    "DATETIME": lambda: sa.DateTime(),
    "BOOLEAN0": lambda: sa.Boolean(create_constraint=False),
    "TEXT": lambda: sa.Text(),
    # types that carry a CHECK constraint (toimpl.alter_column drops / adds it, toimpl.add_column adds it)
    "BOOLEAN_C": lambda: sa.Boolean(create_constraint=True, name="ck_bool"),
    "ENUM_C": lambda: sa.Enum("a", "b", name="en_ty", create_constraint=True, native_enum=False),
}
DEFAULTS = {
    "zero": lambda: sa.text("0"),
    "str": lambda: "abc",
    "strq": lambda: "it's",
    "now": lambda: sa.text("CURRENT_TIMESTAMP"),
    "expr": lambda: sa.text("(1 + 2)"),
}


def mk_name(n):
    if n is None:
        return None
    if isinstance(n, dict):
        return quoted_name(n["s"], n.get("q"))
    return n


def name_json(n):
    if n is None:
        return None
    if isinstance(n, quoted_name):
        return {"s": str(n), "q": n.quote}
    return str(n)


def name_str(n):
    return n["s"] if isinstance(n, dict) else n


class Ctx:
    """One offline MigrationContext per dialect, reused (the preparer's cache is cleared per case)."""

    _cache = {}

    def __init__(self, dialect):
        self.dialect_name = dialect
        self.buf = io.StringIO()
        with warnings.catch_warnings():
            warnings.simplefilter("ignore")
            self.mc = MigrationContext.configure(dialect_name=dialect, opts={"as_sql": True, "output_buffer": self.buf})
        self.impl = self.mc.impl
        self.dialect = self.mc.dialect
        self.prep = self.dialect.identifier_preparer
        self.op = Operations(self.mc)
        self.records = []
        orig = self.impl._exec
        me = self

        def wrapped(construct, *a, **kw):
            before = len(me.buf.getvalue())
            res = orig(construct, *a, **kw)
            me.records.append((construct, me.buf.getvalue()[before:]))
            return res

        self.impl._exec = wrapped
        sep = getattr(self.impl, "batch_separator", None)
        self.suffix = "\n\n" + ((sep + "\n\n") if sep else "")

    @classmethod
    def get(cls, dialect):
        c = cls._cache.get(dialect)
        if c is None:
            c = cls._cache[dialect] = cls(dialect)
        return c

    def reset(self):
        self.buf.seek(0)
        self.buf.truncate(0)
        self.records = []
        self.prep._strings.clear()

    def ddl_compiler(self):
        return self.dialect.ddl_compiler(self.dialect, None)

    def reserved(self, names):
        out = set()
        for n in names:
            for part in [n] + n.split("."):
                if part.lower() in self.prep.reserved_words:
                    out.add(part)
        return sorted(out)

    def params(self):
        p = self.prep
        return {
            "open": p.initial_quote,
            "close": p.final_quote,
            "dblPercent": bool(p._double_percents) and type(p)._escape_identifier is sa.sql.compiler.IdentifierPreparer._escape_identifier,
            "illegalInitial": "".join(c for c in PROBE if c in p.illegal_initial_characters),
            "terminator": self.impl.command_terminator,
        }


PROBE = "0123456789$_aZ \"'`[]%#@-.é"


def apply_op(c: Ctx, d):
    """Runs one op description on the real code; returns (records, exception-or-None).
    records: list of (construct object, emitted text with the '\\n\\n'/batch separator suffix removed).
    {"op": "seq", "ops": [...]}: the operations are emitted one after the other in ONE FRESH MigrationContext
    (state such as caches carries over from one to the next); use `apply_seq` to know which op wrote what."""
    if d.get("op") == "seq":
        out, err = apply_seq(c.dialect_name, d["ops"])
        return [(el, em, raw) for _, el, em, raw in out], err
    c.reset()
    return _finish(c, 0, _run_one(c, d))


def apply_seq(dialect, descs):
    """-> ([(index of the op, construct, emitted, raw)], first exception or None); a fresh context per sequence"""
    c = Ctx(dialect)
    c.reset()
    out = []
    first_err = None
    for i, d in enumerate(descs):
        n0 = len(c.records)
        err = _run_one(c, d)
        recs, _ = _finish(c, n0, None)
        out.extend((i, el, em, raw) for el, em, raw in recs)
        if err is not None and first_err is None:
            first_err = err
    return out, first_err


def _finish(c, start, err):
    out = []
    for construct, text in c.records[start:]:
        if not text.endswith(c.suffix):
            out.append((construct, None, text))
        else:
            out.append((construct, text[: len(text) - len(c.suffix)], text))
    return out, err


def _run_one(c: Ctx, d):
    op = c.op
    kind = d["op"]
    err = None
    try:
        with warnings.catch_warnings():
            warnings.simplefilter("ignore")
            if kind == "rename_table":
                op.rename_table(mk_name(d["t"]), mk_name(d["new"]), schema=mk_name(d.get("schema")))
            elif kind == "add_column":
                kw = dict(d.get("kw") or {})
                if "server_default" in kw:
                    kw["server_default"] = DEFAULTS[kw["server_default"]]()
                args = []
                if kw.pop("check", False):   # column-level constraint: rendered inline by base.add_column
                    args.append(sa.CheckConstraint("1 > 0"))
                fk = kw.pop("fk", None)      # column-level foreign key: toimpl.add_column emits ADD CONSTRAINT
                if fk:
                    args.append(sa.ForeignKey(fk))
                col = sa.Column(mk_name(d["col"]), TYPES[d.get("type", "INTEGER")](), *args, **kw)
                if d.get("attached"):        # a column that already belongs to a table is copied
                    sa.Table("other_tbl", sa.MetaData(), col)
                op.add_column(mk_name(d["t"]), col, schema=mk_name(d.get("schema")))
            elif kind == "drop_column":
                op.drop_column(mk_name(d["t"]), mk_name(d["col"]), schema=mk_name(d.get("schema")), **(d.get("kw") or {}))
            elif kind == "alter_column":
                kw = dict(d.get("kw") or {})
                for tk in ("type_", "existing_type"):
                    if kw.get(tk) is not None:
                        kw[tk] = TYPES[kw[tk]]()
                for dk in ("server_default", "existing_server_default"):
                    if dk in kw and kw[dk] is not None:
                        v = kw[dk]
                        kw[dk] = (sa.Identity() if v == "identity" else
                                  sa.Identity(always=True, start=5, increment=2) if v == "identity2" else
                                  sa.Computed("1 + 1") if v == "computed" else DEFAULTS[v]())
                if "new_column_name" in kw:
                    kw["new_column_name"] = mk_name(kw["new_column_name"])
                op.alter_column(mk_name(d["t"]), mk_name(d["col"]), schema=mk_name(d.get("schema")), **kw)
            elif kind == "drop_constraint":
                op.drop_constraint(mk_name(d["cname"]), mk_name(d["t"]), type_=d["type_"], schema=mk_name(d.get("schema")))
            elif kind == "generic":
                apply_generic(op, d)
            elif kind == "compile":
                c.impl._exec(build_construct(c, d["construct"]))
            else:
                raise ValueError("unknown op " + kind)
    except Exception as e:  # noqa
        err = e
    return err


def apply_generic(op, d):
    """operations whose statements are compiled by SQLAlchemy's own constructs (judged by Spec.Ident.mentionsRef)"""
    g, t, schema = d["g"], mk_name(d["t"]), mk_name(d.get("schema"))
    col, name = mk_name(d.get("col")), mk_name(d.get("name"))
    if g == "create_table":
        op.create_table(t, sa.Column(col, sa.Integer(), primary_key=True), sa.Column("other_c", sa.String(10), index=d.get("index", False)),
                        schema=schema, **({"comment": "tbl c'm"} if d.get("comment") else {}),
                        **({"if_not_exists": True} if d.get("if") else {}))
    elif g == "drop_table":
        op.drop_table(t, schema=schema, **({"if_exists": True} if d.get("if") else {}))
    elif g == "create_index":
        op.create_index(name, t, [col], schema=schema, unique=bool(d.get("unique")), **(d.get("kw") or {}),
                        **({"if_not_exists": True} if d.get("if") else {}))
    elif g == "drop_index":
        op.drop_index(name, t, schema=schema, **({"if_exists": True} if d.get("if") else {}))
    elif g == "create_unique_constraint":
        op.create_unique_constraint(name, t, [col], schema=schema)
    elif g == "create_check_constraint":
        op.create_check_constraint(name, t, sa.column(col) > 5, schema=schema)
    elif g == "create_primary_key":
        op.create_primary_key(name, t, [col], schema=schema)
    elif g == "create_foreign_key":
        op.create_foreign_key(name, t, "ref_tbl", [col], ["id"], source_schema=schema, referent_schema=schema)
    elif g == "create_table_comment":
        op.create_table_comment(t, "a c'mment", schema=schema)
    elif g == "drop_table_comment":
        op.drop_table_comment(t, schema=schema)
    elif g == "bulk_insert":
        tbl = sa.Table(t, sa.MetaData(), sa.Column(col, sa.Integer()), schema=schema)
        op.bulk_insert(tbl, [{str(col): 1}, {str(col): 2}])
    elif g == "create_exclude_constraint":
        op.create_exclude_constraint(name, t, (col, "="), where=d.get("where"), schema=schema, using="gist")
    else:
        raise ValueError("unknown generic op " + g)


def _identity_alter_tail(c, el):
    """the option part of PostgreSQL's ALTER ... SET ... identity form (no identifiers in it)"""
    comp = c.ddl_compiler()
    diff, _, _ = el.impl._compare_identity_default(el.default, el.existing_server_default)
    text = ""
    for attr in sorted(diff):
        if attr == "always":
            text += "SET GENERATED %s " % ("ALWAYS" if el.default.always else "BY DEFAULT")
        else:
            text += "SET %s " % comp.get_identity_options(sa.Identity(**{attr: getattr(el.default, attr)}))
    return text


def _sd_text(c, default):
    return ddl_base.format_server_default(c.ddl_compiler(), default)


def _lit(c, s):
    return c.ddl_compiler().sql_compiler.render_literal_value(s, sa.String())


def _type(c, t):
    return c.dialect.type_compiler.process(t)


def describe(c: Ctx, el):
    """Model-vocabulary description of a construct object Alembic built (None: not one of Alembic's own)."""
    g = lambda: {"t": name_json(el.table_name), "schema": name_json(el.schema)}  # noqa
    T = type(el)
    if T is ddl_base.RenameTable:
        return {"c": "renameTable", **g(), "new": name_json(el.new_table_name)}
    if T is ddl_base.AddColumn:
        comp = c.ddl_compiler()
        full = comp.get_column_specification(el.column)
        if c.dialect_name not in ("mssql", "oracle"):
            # only base.add_column appends the column-level constraints; mssql_add_column / oracle.add_column do not
            const = " ".join(comp.process(x) for x in el.column.constraints)
            if const:
                full += " " + const
        pre = c.prep.format_column(el.column) + " "
        if not full.startswith(pre):
            return {"c": "?", "why": "column specification does not start with the formatted column name", "full": full}
        return {"c": "addColumn", **g(), "col": name_json(el.column.name), "spec": full[len(pre):]}
    if T is ddl_base.DropColumn:
        return {"c": "dropColumn", **g(), "col": name_json(el.column.name)}
    if T is ddl_base.ColumnNullable:
        return {"c": "columnNullable", **g(), "col": name_json(el.column_name), "nullable": bool(el.nullable),
                "ety": _type(c, el.existing_type) if el.existing_type is not None else ""}
    if T is ddl_base.ColumnType:
        return {"c": "columnType", **g(), "col": name_json(el.column_name), "ty": _type(c, el.type_), "using": None}
    if T is ddl_pg.PostgresqlColumnType:
        return {"c": "columnType", **g(), "col": name_json(el.column_name), "ty": _type(c, el.type_),
                "using": None if el.using is None else str(el.using)}
    if T is ddl_base.ColumnName:
        return {"c": "columnName", **g(), "col": name_json(el.column_name), "new": name_json(el.newname)}
    if T is ddl_base.ColumnDefault:
        return {"c": "columnDefault", **g(), "col": name_json(el.column_name),
                "default": None if el.default is None else _sd_text(c, el.default)}
    if T is ddl_base.ColumnComment:
        if c.dialect_name == "oracle":
            cm = _lit(c, el.comment if el.comment is not None else "")
        else:
            cm = None if el.comment is None else _lit(c, el.comment)
        return {"c": "columnComment", **g(), "col": name_json(el.column_name), "comment": cm}
    if T is ddl_base.IdentityColumnDefault:
        comp = c.ddl_compiler()
        if el.default is None:
            tail = "DROP IDENTITY"
        elif c.dialect_name == "oracle":
            tail = comp.visit_identity_column(el.default)
        elif el.existing_server_default is None:
            tail = "ADD " + comp.visit_identity_column(el.default)
        else:
            tail = _identity_alter_tail(c, el)
        return {"c": "identity", **g(), "col": name_json(el.column_name), "tail": tail}
    if T is ddl_mysql.MySQLAlterDefault:
        return {"c": "mysqlAlterDefault", **g(), "col": name_json(el.column_name),
                "default": None if el.default is None else _sd_text(c, el.default)}
    if T in (ddl_mysql.MySQLModifyColumn, ddl_mysql.MySQLChangeColumn):
        cs = {"ty": _type(c, el.type_), "nullable": bool(el.nullable), "autoinc": bool(el.autoincrement),
              "default": None if (el.default is False or el.default is None) else _sd_text(c, el.default),
              "comment": _lit(c, el.comment) if el.comment else None}
        if T is ddl_mysql.MySQLModifyColumn:
            return {"c": "mysqlModify", **g(), "col": name_json(el.column_name), "cs": cs}
        return {"c": "mysqlChange", **g(), "col": name_json(el.column_name), "new": name_json(el.newname), "cs": cs}
    if T is sa_schema.DropConstraint and c.dialect_name in ("mysql", "mariadb"):
        con = el.element
        dk = ("fk" if isinstance(con, sa_schema.ForeignKeyConstraint) else
              "pk" if isinstance(con, sa_schema.PrimaryKeyConstraint) else
              "unique" if isinstance(con, sa_schema.UniqueConstraint) else
              "check" if isinstance(con, sa_schema.CheckConstraint) else None)
        if dk is None:
            return None
        return {"c": "mysqlDropConstraint", "t": name_json(con.table.name), "schema": name_json(con.table.schema),
                "cname": name_json(con.name) if con.name is not None else "pk_placeholder", "dkind": dk}
    if T is ddl_mssql._ExecDropConstraint:
        return {"c": "mssqlDropConstraint", "t": name_json(el.tname), "schema": name_json(el.schema),
                "rawcol": str(el.colname), "type_": el.type_}
    if T is ddl_mssql._ExecDropFKConstraint:
        return {"c": "mssqlDropFK", "t": name_json(el.tname), "schema": name_json(el.schema), "rawcol": str(el.colname)}
    return None


def build_construct(c: Ctx, cj):
    """Inverse of `describe` for direct compilation of one construct (witness replay, unsupported-construct probes).
    Opaque texts are turned back into SQLAlchemy objects that render to the same text where that is possible."""
    k = cj["c"]
    t, schema = mk_name(cj["t"]), mk_name(cj.get("schema"))
    col = mk_name(cj.get("col"))
    if k == "renameTable":
        return ddl_base.RenameTable(t, mk_name(cj["new"]), schema=schema)
    if k == "dropColumn":
        return ddl_base.DropColumn(t, sa.Column(col, sa.Integer()), schema=schema)
    if k == "addColumn":
        return ddl_base.AddColumn(t, sa.Column(col, sa.Integer()), schema=schema)
    if k == "columnNullable":
        return ddl_base.ColumnNullable(t, col, cj["nullable"], schema=schema, existing_type=sa.Integer())
    if k == "columnType":
        if c.dialect_name == "postgresql":
            return ddl_pg.PostgresqlColumnType(t, col, sa.Integer(), schema=schema, using=cj.get("using"))
        return ddl_base.ColumnType(t, col, sa.Integer(), schema=schema)
    if k == "columnName":
        return ddl_base.ColumnName(t, col, mk_name(cj["new"]), schema=schema)
    if k == "columnDefault":
        return ddl_base.ColumnDefault(t, col, None if cj.get("default") is None else sa.text(cj["default"]), schema=schema)
    if k == "columnComment":
        return ddl_base.ColumnComment(t, col, cj.get("comment_raw"), schema=schema)
    if k == "mysqlAlterDefault":
        return ddl_mysql.MySQLAlterDefault(t, col, None if cj.get("default") is None else sa.text(cj["default"]), schema=schema)
    if k in ("mysqlModify", "mysqlChange"):
        cls = ddl_mysql.MySQLModifyColumn if k == "mysqlModify" else ddl_mysql.MySQLChangeColumn
        return cls(t, col, schema=schema, newname=mk_name(cj.get("new")) if k == "mysqlChange" else col,
                   type_=sa.Integer(), nullable=cj.get("cs", {}).get("nullable", True), default=None,
                   autoincrement=cj.get("cs", {}).get("autoinc"), comment=cj.get("comment_raw") or False)
    if k == "mssqlDropConstraint":
        return ddl_mssql._ExecDropConstraint(t, cj["rawcol"], cj["type_"], schema)
    if k == "mssqlDropFK":
        return ddl_mssql._ExecDropFKConstraint(t, cj["rawcol"], schema)
    raise ValueError("cannot build " + k)


def all_names(cj):
    out = []
    for key in ("t", "schema", "col", "new", "cname"):
        v = cj.get(key)
        if v is not None:
            out.append(name_str(v))
    if cj.get("rawcol") is not None:
        out.append(cj["rawcol"])
    return out
