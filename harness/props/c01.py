"""C01 - revision engine; see harness/rev_corr.py (shared runner) and lean/Props/C01.lean"""
from .. import rev_corr
from . import _rev_common as common

PROPERTY = "C01"
DRIVER = "drv_rev"
THEOREMS = common.THEOREMS["C01"]
PARTIAL = common.PARTIAL.get("C01", {})
TRUSTED = rev_corr.REV_TRUSTED
RULE = common.RULE
ASSUMPTIONS = common.ASSUMPTIONS


def run(ctx):
    rev_corr.run_focus(ctx, "C01")


def search(ctx):
    rev_corr.run_focus(ctx, "C01", rng_name="search", scale=2.0)


check_witness = common.make_check_witness("C01")
classify = common.make_classify("C01")
replay = common.make_replay("C01")
