"""C01 - revision engine; see harness/rev_corr.py (shared runner) and lean/Props/C01.lean"""
from .. import rev_corr
from . import _rev_common as common

PROPERTY = "C01"
DRIVER = "drv_rev"
THEOREMS = common.THEOREMS["C01"]
PARTIAL = common.PARTIAL.get("C01", {})
TRUSTED = list(rev_corr.REV_TRUSTED) + [
    'which plain targets denote a revision for the `refused-target` oracle (a full id, a branch label, the one id of more than three characters that starts with the text) is decided by harness/rev_corr.denoted_plain from the history alone; these are the hypotheses under which C16.prefix_unique_resolves / C16.full_id prove that the model resolves the target',
]
RULE = common.RULE
ASSUMPTIONS = common.ASSUMPTIONS


def run(ctx):
    rev_corr.run_focus(ctx, "C01")


def search(ctx):
    rev_corr.run_focus(ctx, "C01", rng_name="search", scale=2.0)


check_witness = common.make_check_witness("C01")
classify = common.make_classify("C01")
replay = common.make_replay("C01")
