"""C11 - a failed batch recreate never loses the table's data (SQLite).

Fault injection: `before_cursor_execute` raises at the k-th statement of the recreate sequence, for
every k; plus naturally failing copies (NOT NULL / UNIQUE / CHECK violated by existing rows, CHECK or
index mentioning a dropped/renamed column, duplicate index names).  Five enclosing scopes (the three below plus the caller's SAVEPOINT, released or rolled back after the error was caught): none
(`_ensure_scope_for_ddl` opens and rolls back the transaction), the caller's `with conn.begin()`
(rolled back by the exception), and a caller that swallows the exception and commits.  The database is
inspected on the same connection and on a fresh one.  Model: `Model.Batch.runBatch` with the same
fault index and scope must give the same statements, outcome and final tables.  Oracle: the Lean
checker `Spec.Batch.check11` on the implementation's own before/after observation.
"""
from __future__ import annotations

import json

from .. import batch_battery as bb
from .. import batch_corr as bc
from .. import batch_gen as bg
from . import c10 as c10mod

PROPERTY = "C11"
DRIVER = "drv_batch"
THEOREMS = [
    "C11.early_orig_intact",
    "C11.statements_before_drop_target_tmp",
    "C11.safe_statement_keeps_original",
    "C11.early_indexes_intact",
    "C11.recreates_iff_plan_has_createTmp",
    "C11.early_tmp_left_behind_iff",
    "C11.retrievable",
    "C11.late",
    "C11.superset",
    "C11.success_no_tmp",
    "C11.early_tmp_gone_counterexample",
    "C11.create_table_second_statement_counterexample",
    "C11.early_tmp_gone",
    "C11.early_tmp_left_create_table_tail",
    "C11.early_tmp_left_rolled_back",
    "C11.fault_upto_drop_unchanged",
    "C11.explicit_begin_rollback_restores",
    "C11.tmp_taken_untouched",
    "C11.early_tmp_gone_partial",
]
PARTIAL = {
    "C11.early_tmp_gone": "the full statement `C11.early_tmp_gone_statement` is false on the unchanged tree; `early_tmp_gone` proves it for every "
    "early failure whose run does not have the shape of C11-F2 (ended in a later statement of create_table), of C11-F1 (scope rolls back "
    "with pysqlite's implicit transaction open) and where the fault did not hit the clean-up DROP itself (single fault)",
    "C11.early_tmp_gone_partial": "full statement `C11.early_tmp_gone_statement` (after every failure at or before DROP of the original "
    "the temporary table is gone) fails on the unchanged tree (findings C11-F1, C11-F2); proved when the failing statement is "
    "CREATE TABLE itself, or when the enclosing scope commits instead of rolling back and the failure is not in a later "
    "statement of create_table, or when the failure is injected at the INSERT before pysqlite opened its implicit transaction",
}
TRUSTED = c10mod.TRUSTED + [
    "three connection modes are modelled in Model.Batch.Conn and validated on every run against the real driver: pysqlite legacy transaction "
    "control (implicit BEGIN before DML only, DDL neither begins nor commits; Connection.begin() emits nothing), isolation_level=AUTOCOMMIT, "
    "and the BEGIN recipe (driver isolation_level=None + BEGIN on SQLAlchemy's begin event); early_orig_intact / retrievable / superset / "
    "success_no_tmp / early_tmp_gone / fault_upto_drop_unchanged are proved for all three, the counterexamples and exactness theorems for the "
    "modes that start outside a transaction; `transactional_ddl` is a field of the plan that the model never reads (the unchanged _create "
    "does not consult it) - the theorems hold for both values and the harness runs both",
    "the caller's SAVEPOINT scopes (sp_release / sp_rollback) are mapped onto the model's explicit-transaction mode: the SAVEPOINT statement "
    "opens SQLite's transaction on every connection mode, RELEASE + COMMIT after the caught error = finish with commit, ROLLBACK TO = finish "
    "with rollback; the mapping is validated by the statement / final-state correspondence on every run (no separate savepoint log in the model)",
    "fault model: a fault raises before the statement runs (before_cursor_execute); a statement that takes effect and then reports failure "
    "is not modelled; the class of the raised exception (Exception / KeyboardInterrupt / SystemExit / bare BaseException) is an input of "
    "the harness and a field of the model's plan (FailKind) that no model function reads - the unchanged handler is a bare `except:`",
]
RULE = (
    "C10's table/row/op generators x connection mode (pysqlite legacy / AUTOCOMMIT / BEGIN recipe) x schema (main / ATTACHed database `aux`, with and without a table of the same name in main) x transactional_ddl option (default / True) x class of the injected exception (Exception / KeyboardInterrupt / SystemExit / BaseException) x warnings filter (default / error); for each case the fault-free run gives the statement count n, then a fault is injected at "
    "k = 0..n-1 (quick: 3 sampled k per case, thorough: every k; plus two-step scenarios: a first batch fails at the RENAME under durable statements so that all rows live under the temporary name only, then the migration is retried - reflected or with copy_from, with or without an empty table re-created under the original name, with or without a fault at its first statement) under each scope (none / outer / swallow); natural failures come from the "
    "fault-free runs.  Non-trivial = the run failed after at least one statement and the table had >= 1 row; distinct by "
    "(statement kinds up to the failure, outcome, scope, recreate, copy_from)"
)
ASSUMPTIONS = c10mod.ASSUMPTIONS + ["single fault: only one statement fails (the clean-up DROP of the temporary table is not failed by injection)"]


def input_of(case):
    return {"table": case["table"], "ops": case["ops"], "recreate": case["recreate"], "copy_from": case["copy_from"],
            "fault": case["fault"], "scope": case["scope"], "iso": case.get("iso", "default"), "tddl": case.get("tddl"),
            "fkind": case.get("fkind", "exception"), "pr": case.get("pr"), "wfilter": case.get("wfilter", "ignore"), "schema": case.get("schema"), "main_twin": case.get("main_twin"),
            **({"two_step": case["two_step"]} if case.get("two_step") else {})}


def stmt_kinds(stmts):
    return tuple(s.split(":")[0] for s in stmts)


def applicable(r, case=None):
    """C11 speaks about a failed *recreate* (move and copy); the ALTER path of recreate='auto' is not its subject.  Whether the batch
    recreates is decided from the input (not from the first statement the implementation emitted: a statement issued *before*
    CREATE TABLE of the new table belongs to the recreate as well)"""
    if r["outcome"] == "ok":
        return False
    if case is not None and not case.get("battery"):
        return bc.recreates(case)
    return not r["stmts"] or r["stmts"][0] == "createTmp"


def judge(ctx, pending):
    ops = []
    for case, r in pending:
        ops.append(bc.model_op(case, r))
        failed = r["outcome"] != "ok"      # whether it is a failed *recreate* is decided below, by the Lean rule Model.Batch.recreates
        judged = failed and (r["before"]["orig"] or case.get("orig0"))
        ops.append(bc.spec11_op(case, r, "fresh") if judged else {"op": "noop"})
        ops.append(bc.spec11_op(case, r, "same") if judged else {"op": "noop"})
    ans = ctx.drv.ask(ops)
    for k, (case, r) in enumerate(pending):
        m, s1, s2 = ans[3 * k], ans[3 * k + 1], ans[3 * k + 2]
        d = bc.compare(case, r, m)
        if str(r["outcome"]).startswith("warning:"):
            # warnings filter = error turned a warning of the batch into an exception: outside the model (which has no warnings);
            # kept visible in the histogram, and the run is still judged by check11 below
            ctx.hist("warning_raised_as_error", r["outcome"][:100])
            d = []
        if d:
            ctx.disagree("batch.run", input_of(case), bc.brief(r),
                         {"stmts": m.get("stmts"), "outcome": m.get("outcome"), "final": bc.canon_db(m["final"]) if "final" in m else None},
                         note=",".join(d))
            if len(ctx.disagreements) <= 5:
                ctx.note("disagreement %s: %s impl=%s/%s model=%s/%s" % (
                    ",".join(d), json.dumps({k: v for k, v in input_of(case).items() if k != "table"}), r["stmts"], r["outcome"],
                    m.get("stmts"), m.get("outcome")))
                ctx.note("  table=%s" % json.dumps(case["table"])[:1500])
        else:
            ctx.trace_ok()
        if case.get("schema") and bc.main_untouched(r):
            why = bc.main_untouched(r)
            ctx.fail(input_of(case), "schema: %s" % "; ".join(why)[:500], impl=bc.brief(r), tags=["schema"])
        is_recreate = m.get("recreates", bc.recreates(case)) if not case.get("battery") else applicable(r, case)
        if "recreates" in m and not case.get("battery") and m["recreates"] != bc.recreates(case):
            # the harness' Python twin of the rule (used for histograms only) must agree with the Lean rule on every case
            ctx.disagree("batch.recreates", input_of(case), {"python": bc.recreates(case)}, {"lean": m["recreates"]}, note="recreates rule")
        if failed and is_recreate:
            for view, s in (("fresh", s1), ("same", s2)):
                if "holds" in s and s["holds"] is not True:
                    why = s.get("why") or [json.dumps(s)]
                    ctx.fail(input_of(case), "%s: %s (inspected on the %s connection)" % (why[0].split(":")[0], "; ".join(why)[:500], view),
                             impl=bc.brief(r), tags=sorted({w.split(":")[0] for w in why}))
                    break
        if k < 2:
            ctx.sample({"input": input_of(case), "stmts": r["stmts"], "outcome": r["outcome"]})
    pending.clear()


def two_step(ctx, base, k_rename, rng, pending):
    """step 1: fault at the RENAME with durable statements (rows end up under the temporary name only);
    step 2: the migration again on that database (see batch_corr.run_two_step)"""
    iso, scope = rng.choice([("autocommit", "none"), ("autocommit", "outer"), ("default", "swallow"), ("begin", "swallow")])
    c1 = bc.new_case(base["table"], base["ops"], base["recreate"], base["copy_from"], k_rename, scope, iso, rng.choice(TDDLS),
                     rng.choice(FKINDS), pr=base.get("pr"), schema=base.get("schema"), main_twin=base.get("main_twin"))
    st = {"recreate_empty": rng.random() < 0.5, "copy_from": rng.random() < 0.6, "fault": rng.choice([None, None, 0]),
          "scope": rng.choice(SCOPES), "tddl": rng.choice(TDDLS), "fkind": rng.choice(FKINDS)}
    r1, c2, r2 = bc.run_two_step(c1, st)
    ctx.evaluation()
    ctx.hist("two_step", "step1 did not leave the rows under the temp name only" if r2 is None else
             "retry: %s%s" % ("copy_from" if st["copy_from"] else "reflected", ", empty table re-created" if st["recreate_empty"] else ""))
    if r2 is None:
        return
    ctx.hist("two_step_outcome", bc.canon_outcome(r2["outcome"]) or "ok")
    if r2["outcome"] != "ok" and c2["orig0"]["rows"]:
        ctx.nontrivial(("two_step", st["recreate_empty"], st["copy_from"], st["fault"], st["scope"], iso, bc.canon_outcome(r2["outcome"])))
    pending.append((c2, r2))


def one(ctx, case, pending):
    r = bc.run_impl(case)
    ctx.evaluation()
    ctx.hist("outcome", bc.canon_outcome(r["outcome"]) or "ok")
    ctx.hist("scope", case["scope"])
    ctx.hist("connection", case.get("iso", "default"))
    ctx.hist("warnings_filter", case.get("wfilter", "ignore"))
    ctx.hist("schema", "%s%s" % (case.get("schema") or "main", " + same name in main" if case.get("main_twin") else ""))
    ctx.hist("transactional_ddl", "default" if case.get("tddl") is None else str(case.get("tddl")))
    if case["fault"] is not None:
        ctx.hist("fault_exception_class", case.get("fkind", "exception"))
    ctx.hist("fault", "none" if case["fault"] is None else ("k=%d" % case["fault"] if case["fault"] < 8 else "k>=8"))
    if r["outcome"] != "ok":
        last = r["stmts"][-1].split(":")[0] if r["stmts"] else "(before any statement)"
        if r["stmts"] and r["stmts"][-1] == "dropTmp" and len(r["stmts"]) > 1:
            last = r["stmts"][-2].split(":")[0] + "+cleanup"
        ctx.hist("failed_at", last)
        ctx.hist("early", bc.failed_early(r["stmts"]))
        if r["stmts"] and r["before"]["orig"] and r["before"]["orig"]["rows"]:
            ctx.nontrivial((stmt_kinds(r["stmts"]), bc.canon_outcome(r["outcome"]), case["scope"], case["recreate"], case["copy_from"],
                            case.get("iso", "default"), case.get("tddl")))
    pending.append((case, r))
    return r


# enclosing scope: none (flush opens / rolls back its own transaction), the caller's transaction rolled back by the exception (outer) or
# committed after the exception was swallowed (swallow), the caller's SAVEPOINT released (sp_release) / rolled back (sp_rollback) after
# the error was caught
SCOPES = ["none", "outer", "swallow", "sp_release", "sp_rollback"]
ISOS = ["default", "autocommit", "begin"]     # pysqlite legacy / isolation_level="AUTOCOMMIT" / the BEGIN recipe
TDDLS = [None, True]                          # transactional_ddl option of the MigrationContext
# class of the injected exception: Exception / KeyboardInterrupt / SystemExit / a bare BaseException subclass
FKINDS = ["exception", "exception", "keyboard", "systemexit", "base"]
# process warning policy around the batch: default handling, or warnings raised as errors (python -W error / pytest filterwarnings=error)
WFILTERS = ["ignore", "ignore", "error"]

_T = {"name": "t", "cols": [
    {"name": "id", "ty": "INTEGER", "aff": "Integer", "nullable": False, "default": None, "dval": None, "pk": True},
    {"name": "a", "ty": "INTEGER", "aff": "Integer", "nullable": True, "default": None, "dval": None, "pk": False}],
    "pk": {"name": None, "cols": ["id"]}, "uniques": [], "checks": [], "fks": [], "indexes": [],
    "rows": [[{"i": 1}, None]]}

WITNESSES = {
    # naturally failing copy (NOT NULL violated by an existing row): the clean-up DROP of the temporary table runs
    # inside pysqlite's implicit transaction and is undone by the rollback
    "C11-F1": {"table": _T, "ops": [{"op": "alter_column", "name": "a", "new_name": None, "type": None, "nullable": False, "default": None}],
               "recreate": "always", "copy_from": False, "fault": None, "scope": "none"},
    # create_table emits CREATE TABLE and then CREATE INDEX (Column(index=True)) outside the try: a failure of the second
    # statement leaves the temporary table
    "C11-F2": {"table": _T, "ops": [{"op": "add_column", "col": {"name": "n1", "ty": "INTEGER", "aff": "Integer", "nullable": True,
                                                                 "default": None, "dval": None, "pk": False, "index": True},
                                     "before": None, "after": None}],
               "recreate": "always", "copy_from": False, "fault": 1, "scope": "swallow"},
}


def battery(ctx):
    """oracle-only: the copy_from / option battery of harness/batch_battery.py under a fault at every statement"""
    kinds = list(bb.bi.FAULT_KINDS)
    j = 0
    for name in bb.ITEMS:
        n = len(bb.run_item(name)["stmts"])
        for k in range(n):
            combos = (("none", "default"), ("swallow", "default"), ("outer", "autocommit"))
            for scope, iso in (combos if ctx.thorough else (combos[k % 3], combos[(k + 1) % 3])):
                j += 1
                fk = kinds[j % len(kinds)]
                r = bb.run_item(name, fault=k, scope=scope, iso=iso, fkind=fk)
                case = bb.case_of(name, k, scope, iso, fk)
                ctx.evaluation()
                ctx.hist("battery", name)
                if not applicable(r) or not r["before"]["orig"]:
                    continue
                ctx.nontrivial(("battery", name, k, scope, iso))
                for view in ("fresh", "same"):
                    s = ctx.drv.ask1(bc.spec11_op(case, r, view))
                    if s.get("holds") is not True:
                        why = s.get("why") or [json.dumps(s)]
                        ctx.fail({"battery": name, "ops": case["ops"], "fault": k, "scope": scope, "iso": iso, "fkind": fk, "recreate": case["recreate"],
                                  "copy_from": case["copy_from"]},
                                 "%s: %s (inspected on the %s connection)" % (why[0].split(":")[0], "; ".join(why)[:500], view),
                                 impl=bc.brief(r), tags=sorted({w.split(":")[0] for w in why}))
                        break


def run(ctx, n_cases=None, rng_name="main"):
    rng = ctx.rng(rng_name)
    if rng_name == "main":
        battery(ctx)
    n = n_cases or (500 if ctx.thorough else 160)
    pending = []
    for i in range(n):
        t = bg.gen_table(rng, big=ctx.thorough and i % 5 == 0)
        ops = bg.gen_ops(rng, t)
        recreate = rng.choice(["always", "always", "always", "auto"])
        copy_from = rng.random() < 0.3
        if i < 2:
            ops = bg.ordering_battery(t)[i * 3 + rng.randrange(2)]      # the add_column position branches, deterministically
            recreate = "always"
        if 2 <= i < 8 and t["indexes"]:
            # an existing index dropped and re-created under the same name in one batch (alone, or after the random ops)
            ixn = t["indexes"][0]["name"]
            redo = [{"op": "drop_index", "name": ixn}, {"op": "create_index", "name": ixn, "cols": ["id"], "unique": False}]
            ops = redo if i % 2 == 0 else [o for o in ops if o["op"] not in ("drop_index", "create_index")] + redo
            recreate = "always"
        pr = bg.gen_partial_reordering(rng, t, ops) if rng.random() < 0.1 else None
        # 20%: the table lives in an ATTACHed database (schema="aux"), half of them with a different table of that name in main
        schema, twin = ("aux" if rng.random() < 0.2 else None), rng.random() < 0.5
        base = bc.new_case(t, ops, recreate, copy_from, None, rng.choice(SCOPES), rng.choice(ISOS), rng.choice(TDDLS), pr=pr,
                           schema=schema, main_twin=twin)
        r0 = one(ctx, base, pending)
        nst = len(r0["stmts"])
        if r0["outcome"] != "ok" and nst:
            # a natural failure: the same case under every scope x connection mode (transactional_ddl alternating)
            for sc in SCOPES:
                for iso in ISOS:
                    if (sc, iso) != (base["scope"], base["iso"]):
                        one(ctx, bc.new_case(t, ops, recreate, copy_from, None, sc, iso, rng.choice(TDDLS), pr=pr, schema=schema, main_twin=twin,
                                             wfilter=rng.choice(WFILTERS)), pending)
        if r0["outcome"] == "ok" and nst:
            ks = list(range(nst)) if ctx.thorough else sorted(rng.sample(range(nst), min(nst, 3)))
            for k in ks:
                for sc in (SCOPES if ctx.thorough else [rng.choice(SCOPES)]):
                    for iso in (ISOS if ctx.thorough else [rng.choice(ISOS)]):
                        one(ctx, bc.new_case(t, ops, recreate, copy_from, k, sc, iso, rng.choice(TDDLS), rng.choice(FKINDS), pr=pr, schema=schema,
                                                 main_twin=twin, wfilter=rng.choice(WFILTERS)), pending)
        if r0["outcome"] == "ok" and "renameTmp" in r0["stmts"] and rng.random() < (0.5 if ctx.thorough else 0.4):
            two_step(ctx, base, r0["stmts"].index("renameTmp"), rng, pending)
        if len(pending) >= 200:
            judge(ctx, pending)
    judge(ctx, pending)


def search(ctx):
    run(ctx, n_cases=600, rng_name="search")


def check_witness(ctx, finding):
    w = WITNESSES.get(finding["id"])
    if w is None:
        return None
    case = bc.new_case(w["table"], w["ops"], w["recreate"], w["copy_from"], w["fault"], w["scope"])
    r = bc.run_impl(case)
    if r["outcome"] == "ok":
        return None
    if r["fresh"]["tmp"] is not None and bc.failed_early(r["stmts"]):
        return "temporary table %s left behind after a failure at or before DROP of the original" % r["fresh"]["tmp_like"]
    return None


def classify(failure):
    """narrow signatures: only the `early_tmp` clause is violated, and the statement trace has the known shape"""
    tags = failure.get("tags") or []
    if tags != ["early_tmp"]:
        return None
    stmts = (failure.get("impl") or {}).get("stmts") or []
    kinds = [s.split(":")[0] for s in stmts]
    scope = failure["input"].get("scope")
    if not kinds:
        return None
    # C11-F2: the failing statement is a later statement of create_table (CREATE INDEX on the temporary table), before the try
    if kinds[-1] == "createTmpIndex" and "insert" not in kinds and "dropTmp" not in kinds:
        return "C11-F2"
    # C11-F1: the clean-up DROP ran (last statement) inside the implicit transaction the INSERT opened, and the scope rolled back
    # (only under pysqlite's legacy transaction control: with AUTOCOMMIT the clean-up sticks, with an explicit BEGIN
    # the rollback also undoes the CREATE TABLE)
    if kinds[-1] == "dropTmp" and "insert" in kinds and scope in ("none", "outer") and failure["input"].get("iso", "default") == "default":
        fault = failure["input"].get("fault")
        ins = kinds.index("insert")
        # an injected fault *at* the INSERT raises before the implicit BEGIN: the clean-up then autocommits (no finding there)
        if fault is not None and fault == ins:
            return None
        return "C11-F1"
    return None


def replay(ctx, case):
    inp = case["input"]
    if inp.get("battery"):
        r = bb.run_item(inp["battery"], inp.get("fault"), inp.get("scope", "none"), inp.get("iso", "default"), inp.get("fkind", "exception"))
        c = bb.case_of(inp["battery"], inp.get("fault"), inp.get("scope", "none"), inp.get("iso", "default"), inp.get("fkind", "exception"))
        return {"impl": bc.brief(r), "spec_fresh": ctx.drv.ask1(bc.spec11_op(c, r, "fresh")), "spec_same": ctx.drv.ask1(bc.spec11_op(c, r, "same"))}
    if inp.get("two_step"):
        s1, s2 = inp["two_step"]["step1"], inp["two_step"]["step2"]
        c1 = bc.new_case(inp["table"], inp["ops"], inp.get("recreate", "always"), s1["copy_from"], s1["fault"], s1["scope"],
                         inp.get("iso", "default"), s1.get("tddl"), s1.get("fkind") or "exception", inp.get("pr"),
                         inp.get("schema"), inp.get("main_twin"))
        r1, c, r = bc.run_two_step(c1, s2)
        if r is None:
            return {"step1": bc.brief(r1), "note": "step 1 did not leave the rows under the temporary name only"}
    else:
        c = bc.new_case(inp["table"], inp["ops"], inp.get("recreate", "always"), inp.get("copy_from", False), inp.get("fault"),
                        inp.get("scope", "none"), inp.get("iso", "default"), inp.get("tddl"), inp.get("fkind", "exception"), inp.get("pr"),
                        inp.get("schema"), inp.get("main_twin"), inp.get("wfilter", "ignore"))
        r = bc.run_impl(c)
    m = ctx.drv.ask1(bc.model_op(c, r))
    out = {"impl": bc.brief(r), "model": {"stmts": m.get("stmts"), "outcome": m.get("outcome")}, "differences": bc.compare(c, r, m)}
    if r["outcome"] != "ok" and (r["before"]["orig"] or c.get("orig0")):
        out["spec_fresh"] = ctx.drv.ask1(bc.spec11_op(c, r, "fresh"))
        out["spec_same"] = ctx.drv.ask1(bc.spec11_op(c, r, "same"))
    return out
