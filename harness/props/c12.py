"""C12 - the offline SQL script has the same effect as the online run (SQLite).

Implementation-side oracle (the property itself on the real code, every run):
  history (linear / branched / merged / with depends_on) x generated migration bodies x
  command (upgrade | downgrade) x start:end range;
  db0 := online upgrade to `start`;  A := db0 + online command;  B := db0 + the offline
  script (`--sql`, range start:end) executed statement by statement with the sqlite3 module;
  the Lean checker Spec.Offline.sameEffect is evaluated on the two dumps (whitespace-normalised
  sqlite_master, all table contents, alembic_version rows).
  Two drivers of the real code: `fake` (revfake ScriptDirectory + MigrationContext in the env.py
  shape, allows several start heads) and `real` (alembic.command.init + revision files +
  alembic.command.upgrade/downgrade(sql=True, "a:b") through the shipped generic env.py).
Correspondence with the Lean model:
  * Model.Offline.split == the Python twin used to execute the script == the statement
    boundaries of sqlite3.complete_statement, on every generated script;
  * for bodies inside the modelled migration-body language: Model.Offline.offline (script text,
    character by character) == the real output buffer; Model execScript/online results ==
    the real databases (tables, rows, version rows).
"""
from __future__ import annotations

import copy
import json
import os
import re
import shutil
import tempfile

from .. import offline_gen as G
from .. import offline_impl as I

PROPERTY = "C12"
DRIVER = "drv_offline"
THEOREMS = [
    "C12.literal",
    "C12.split",
    "C12.closed",
    "C12.lex_roundtrip",
    "C12.sqlite_bareSafe",
    "C12.reads_back_vt",
    "C12.reads_back",
    "C12.same_effect_partial",
    "C12.same_effect_linear_upgrade",
    "C12.same_effect_linear_downgrade",
    "C12.same_effect_linear_range",
    "C12.same_effect_linear_range_downgrade",
    "C12.same_effect_counterexample",
    "C12.same_effect_statement_false",
    "C12.midOk_of_run",
    "C12.midOk_upgrade_plan",
    "C12.midOk_downgrade_plan",
    "C12.same_effect_upgrade_plan",
    "C12.same_effect_downgrade_plan",
    "C12.frame_transparent",
    "C12.unclosed_frame_loses",
    "C12.script_as_stmts",
    "C12.same_effect_framed",
    "C12.c18_framing_is_framed",
]
PARTIAL = {
    "C12.same_effect_partial": (
        "hypotheses beyond the property text: (1) no TAB in any rendered statement - genuinely needed, see C12.same_effect_counterexample / "
        "finding C12-TAB; (2) op.execute texts are plain single statements (plainText) that are not version-table statements; (3) statements are "
        "statements of the language (stmtWf: non-empty column/value lists, user tables not named alembic_version, version numbers without a quote); "
        "(4) the head set is empty only before the first / after the last step (midOk) - discharged for linear histories by "
        "C12.same_effect_linear_upgrade/_downgrade/_range, where plan and version statements are derived, and for EVERY history (branches, merge "
        "points, several roots, dependencies) by C12.same_effect_upgrade_plan / _downgrade_plan: for every plan Alembic computes (C01.UpgradePlan / "
        "C02.DowngradePlan) from a version table consistent with the applied set, with the version operations the bookkeeping model of C03 issues "
        "along it (verLists over Model.Rev.updateToStep), midOk follows from C03's invariant (the table holds the maximal applied revisions, so it "
        "is non-empty while anything is applied); what stays a parameter there is only the bodies. In the harness the version operations per step "
        "are still read from the real HeadMaintainer (that those agree with the bookkeeping model is C03's correspondence). That every rendered statement is read back as itself is now a theorem (C12.reads_back), no longer a "
        "hypothesis. Not modelled: the online-only rowcount check; literal rendering of floats/Decimal/dates/booleans (implementation-side oracle only); "
        "DROP COLUMN is outside the Lean language (harness only)."
    ),
}
TRUSTED = [
    "framed script (C12.same_effect_framed): where BEGIN/COMMIT are written is Model.Txn.emitsBlock, the predicate property C18 ties to "
    "begin_transaction by its own correspondence; the reader maps the texts BEGIN / COMMIT to the begin / commit steps of the replay "
    "(statement level; the inner COMMIT ... BEGIN of an autocommit_block is C18's and not part of this model); the real framed scripts "
    "(transactional_ddl=True env variants, with output_encoding) are replayed by the implementation-side oracle on every run",
    "SQLite (3.40, through Python's sqlite3 module and SQLAlchemy's pysqlite dialect) as the executor of both the online run and the offline script",
    "SQLAlchemy's statement compilation and render_literal_value for types outside the Lean value language (floats, Decimal, dates/datetimes, booleans): covered by the implementation-side oracle only (executed and compared on every run), not by the Lean theorems",
    "database dump/canonicalisation in harness/offline_impl.py (sqlite_master whitespace-normalised; floats compared to 15 significant digits because SQLite's own text->double conversion is not correctly rounded for extreme exponents)",
]
RULE = (
    "history shape (linear/branched/merged/depends_on, 1..N revisions) x per-revision bodies (create/drop table, add/drop column, "
    "create/drop index, bulk_insert with awkward literals and identifiers, columns with string/number/expression server defaults (nullable or not; "
    "rows give a value, an explicit None or omit the key; also add_column(server_default=...) followed by bulk_insert), multiinsert on/off, "
    "optional `with op.get_context().autocommit_block():` sections around any run of a body's statements (the online result is read from a "
    "fresh connection after env.py's connection is closed, so only what was committed counts), execute of plain statements as plain strings and as sa.text() constructs, their string literals with text()-special content "
    "(\\:name escapes, ::, a:b, %, %%, %s, ?, and rarely unescaped :name / %(x)s) x command x start heads x target; "
    "a case is non-trivial when both runs succeed and the script has >= 1 statement besides version bookkeeping; distinct by script text"
)
ASSUMPTIONS = [
    "autocommit_block sections are transparent for the Lean model (it has no transaction layer; on SQLite --sql emits no BEGIN/COMMIT): "
    "the model sees the flattened body; transaction framing of offline scripts is property C18's, durability of online work is checked by the oracle",
    "env.py has the documented shape (shipped generic template): offline configure(url=..., literal_binds=True); with context.begin_transaction(): context.run_migrations()",
    "for a range starting at base the target database has no alembic_version table (what an offline downgrade to base leaves); for any other start its rows equal the assumed start",
    "string values do not contain U+0000 (SQLite cannot take it in SQL text; the sqlite3 module rejects the statement)",
    "op.execute() texts are single plain statements: lexically closed, no comments; a literal colon in front of a word is escaped as "
    "\\:name as sqlalchemy.text() documents (unescaped bind-looking tokens: known finding C12-BINDTEXT)",
    "the rows of one bulk_insert(multiinsert=True) have the same key set (SQLAlchemy's executemany contract); see known finding C12-HETERO",
]


def esc(s):
    return s.encode("unicode_escape").decode("ascii")


def dump_json(d):
    return {
        "schema": [[esc(x) for x in row] for row in d["schema"]],
        "tables": [
            {"name": esc(n), "cols": [esc(json.dumps(c)) for c in t["cols"]], "rows": [[esc(v) for v in r] for r in t["rows"]]}
            for n, t in sorted(d["tables"].items())
        ],
        "version": [esc(v) for v in d["version"]],
    }


def cps(s):
    return [ord(c) for c in s]


def uncps(a):
    return "".join(chr(x) for x in a)


# ---------------------------------------------------------------------------------------
# translation of a case into the Lean model's vocabulary

TY = {"Integer": ("integer", 0), "Text": ("text", 0)}


def col_json(c):
    if c["type"] in TY:
        ty, n = TY[c["type"]]
    else:
        ty, n = "varchar", int(c["type"].split("(")[1].rstrip(")"))
    return {"name": cps(c["name"]), "ty": ty, "n": n, "nullable": bool(c.get("nullable", True))}


def val_json(v):
    if v["k"] == "null":
        return {"k": "null"}
    if v["k"] == "int":
        return {"k": "int", "v": str(v["v"])}
    return {"k": "str", "v": cps(v["v"])}


def ops_json(ops, online_only=False):
    """online_only: the ops were executed by an ONLINE run only (the setup that brings the database to `start`).  There a
    bulk_insert(multiinsert=True) is one executemany whose INSERT is compiled from the FIRST row's keys: keys that only later
    rows carry are dropped (known finding C12-HETERO describes the online/offline difference; in a setup run only the online
    semantics exists, and the model has to follow it)."""
    out = []
    for o in I.flat_ops(ops):
        k = o["op"]
        if k == "create_table":
            out.append({"op": k, "name": cps(o["name"]), "cols": [col_json(c) for c in o["cols"]]})
        elif k == "drop_table":
            out.append({"op": k, "name": cps(o["name"])})
        elif k == "add_column":
            out.append({"op": k, "table": cps(o["table"]), "col": col_json(o["col"])})
        elif k == "create_index":
            out.append({"op": k, "name": cps(o["name"]), "table": cps(o["table"]), "cols": [cps(c) for c in o["cols"]]})
        elif k == "drop_index":
            out.append({"op": k, "name": cps(o["name"])})
        elif k == "execute":
            out.append({"op": k, "text": cps(o["text"])})
        elif k == "bulk_insert":
            # SQLAlchemy writes the columns in table-definition order; consecutive rows with one key set = one model op
            order = [c["name"] for c in o["cols"]]
            rows = o["rows"]
            if online_only and o.get("multiinsert", True) and rows:
                first = set(rows[0])
                rows = [{n: v for n, v in r.items() if n in first} for r in rows]
            group, gkeys = [], None
            for r in rows + [None]:
                keys = None if r is None else [n for n in order if n in r]
                if group and keys != gkeys:
                    out.append({"op": k, "table": cps(o["table"]), "cols": [cps(n) for n in gkeys], "rows": group})
                    group = []
                if r is not None:
                    gkeys = keys
                    group.append([val_json(r[n]) for n in keys])
    return out


def steps_json(case, steps, online_only=False):
    out = []
    for st in steps:
        body = case["bodies"].get(st["rev"], {"up": [], "down": []})["up" if st["up"] else "down"] if st["rev"] else []
        out.append({"comment": cps(st["log"]), "body": ops_json(body, online_only), "ver": [[v[0]] + [cps(x) for x in v[1:]] for v in st["ver"]]})
    return out


def model_cells(db):
    """model database (JSON from the driver) -> {table: (col names, rows of cells)}, version rows"""
    def cell(v):
        return "n" if v["k"] == "null" else ("i:%d" % int(v["v"]) if v["k"] == "int" else "s:" + uncps(v["v"]))

    tables = {uncps(t["name"]): ([uncps(c["name"]) for c in t["cols"]], [[cell(v) for v in r] for r in t["rows"]]) for t in db["tables"]}
    return tables, sorted(uncps(v) for v in (db["version"] or []))


def real_cells(d):
    return {n: ([c[0] for c in t["cols"]], t["rows"]) for n, t in d["tables"].items()}, d["version"]


def linear_query(case, res):
    """for a linear history with at most one start head: (driver op, expected steps) of the real plan"""
    if case["shape"] != "linear" or len(case["start"]) > 1 or not res.get("steps_offline"):
        return None
    steps = res["steps_offline"]
    revs = [st["rev"] for st in steps]
    if any(r is None for r in revs):
        return None
    down = {r["id"]: (r["down"][0] if r["down"] else None) for r in case["hist"]}
    up = case["cmd"] == "upgrade"
    other = (case["start"][0] if case["start"] else None) if up else down[revs[-1]]
    op = {"op": "off.linear", "up": up, "revs": [cps(r) for r in revs], "other": None if other is None else cps(other)}
    return op, [{"log": st["log"], "ver": [list(v) for v in st["ver"]]} for st in steps]


def all_ops(case):
    """every leaf op of every body (the dicts themselves: callers may modify them in place)"""
    for b in case["bodies"].values():
        for side in ("up", "down"):
            yield from I.flat_ops(b[side])


def is_hetero(o):
    return o["op"] == "bulk_insert" and o.get("multiinsert", True) and len({tuple(sorted(r)) for r in o["rows"]}) > 1


def hetero_ops(case):
    return [o for o in all_ops(case) if is_hetero(o)]


BIND_RE = re.compile(r"(?<![:\w\\]):(\w+)(?!:)")  # sqlalchemy.text()'s bind-parameter pattern


def has_bindtoken(case):
    return any(o["op"] == "execute" and (BIND_RE.search(o["text"]) or "%(" in o["text"]) for o in all_ops(case))


def neutralise_bindtokens(case):
    """the same case with every unescaped bind-looking token of its execute texts escaped the documented way"""
    c2 = copy.deepcopy(case)
    for o in all_ops(c2):
        if o["op"] == "execute":
            o["text"] = BIND_RE.sub(lambda m: "\\:" + m.group(1), o["text"]).replace("%(", "%_(")
    return c2


def has_tab(case):
    return "\\t" in json.dumps(case["bodies"])


def case_env(case):
    """env.py configuration of a case (older stored cases carry literal_binds / per_migration at top level)"""
    env = dict(case.get("env") or {})
    for k in ("literal_binds", "per_migration"):
        if k in case and k not in env:
            env[k] = case[k]
    return I.full_env(env)


def model_env(env):
    """does the Lean model describe the script of this env variant?  (default version table; no BEGIN/COMMIT framing)"""
    return (env["version_table"] == "alembic_version" and env["version_table_pk"] and not env["version_table_schema"]
            and not env["transactional_ddl"])


def has_expr(case):
    return any(o["op"] == "execute_expr" for o in all_ops(case))


def gen_env(rng, mode, case, plain=True, noliteral=False):
    has_auto = any(o["op"] == "autocommit" for b in case["bodies"].values() for side in ("up", "down") for o in b[side])
    env = {
        "literal_binds": rng.random() < 0.7,
        "per_migration": rng.random() < 0.3,
        "transactional_ddl": rng.choice([None, None, None, None, None, None, True, True, False]),
        "version_table": rng.choice(["alembic_version"] * 8 + ["my_versions", "Version", "ver;sion tbl"]),
        "version_table_pk": rng.random() >= 0.15,
        "version_table_schema": "main" if rng.random() < 0.1 else None,
        # codecs that cannot encode every generated literal: a refusal (UnicodeEncodeError) is fine, a script must be faithful
        "output_encoding": rng.choice([None] * 16 + ["utf-8", "utf-8", "latin-1", "cp1252", "ascii"]),
        # (with an autocommit_block in a body this combination is known finding C12-AUTOCOMMIT-EXT: kept rare)
        "external_txn": mode == "fake" and rng.random() < ((0.02 if plain else 0.0) if has_auto else 0.2),
        "callbacks": rng.random() < 0.2,
        "base_prefix": rng.random() < 0.3,
        "tag": "c12 tag" if mode == "real" and rng.random() < 0.2 else None,
        "buffer_in_env": mode == "real" and rng.random() < 0.2,
        "start_in_env": mode == "real" and rng.random() < 0.3,
    }
    if has_expr(case):
        # op.execute(<expression construct>) needs literal_binds=True (as the shipped env.py sets it) to give an executable script
        env["literal_binds"] = not noliteral
    return env


def execute_case(case, mode):
    # scratch directory on tmpfs when there is one: the SQLite files are committed hundreds of times per run and the
    # cost of fsync on a busy disk (not anything under test) would dominate the run time
    shm = "/dev/shm" if os.path.isdir("/dev/shm") and os.access("/dev/shm", os.W_OK) else None
    tmp = tempfile.mkdtemp(prefix="c12_", dir=shm)
    try:
        if mode == "real":
            r = I.RealRunner(case["hist"], case["bodies"], tmp, case_env(case))
        else:
            r = I.FakeRunner(case["hist"], case["bodies"], case_env(case))
        try:
            res = I.run_case(r, tmp, case["cmd"], case["start"], case["target"], case.get("start_spelled"))
            res["untyped"] = any(o["op"] == "bulk_insert" and o.get("untyped") for o in all_ops(case))
            return res
        finally:
            r.close()
    finally:
        shutil.rmtree(tmp, ignore_errors=True)


def judge(res):
    """-> (status, what, tags); status in ok | skip | fail"""
    if res.get("setup_error"):
        return "skip", "setup: " + res["setup_error"][:200], []
    on, off = res.get("online_error"), res.get("offline_error")
    if on and off:
        return "skip", "both-raise", []
    if off:
        if off.startswith("UnicodeEncodeError") and res.get("output_encoding") not in (None, "utf-8"):
            # the configured output codec cannot represent a literal: the command refuses, no script exists to be judged
            return "skip", "refusal-unencodable", []
        if off.startswith("CompileError") and res.get("untyped"):
            # bulk_insert through an ad-hoc table with untyped columns: --sql cannot render the literal and refuses; no script to judge
            return "skip", "refusal-untyped-literal", []
        return "fail", "offline-error: generating the script raised while the online run succeeded: %s" % off, []
    if on:
        if res.get("exec_error"):
            return "skip", "both-fail", []
        return "fail", "online-error: the online run raised (%s) while the offline script executes" % on, []
    if res.get("exec_error"):
        return "fail", "script-fails: executing the offline script failed while the online run succeeded: %s" % res["exec_error"], []
    if res.get("cb_online") != res.get("cb_offline"):
        return "fail", "callbacks: on_version_apply saw different steps online %r and offline %r" % (res.get("cb_online"), res.get("cb_offline")), []
    d = I.diff_dump(res["A"], res["B"])
    if d:
        tags = []
        if not I.diff_dump(I.tabs4(res["A"]), res["B"]):
            tags.append("tab-only")
        kind = "version-rows" if any(x.startswith("version rows") for x in d) else ("schema" if any(x.startswith("schema") for x in d) else "data")
        return "fail", "%s: database after the offline script differs from the online run: %s" % (kind, "; ".join(d[:3])[:900]), tags
    return "ok", "", []


def summarise(case, mode):
    return {k: case[k] for k in ("shape", "cmd", "start", "target")} | {"mode": mode, "n_revs": len(case["hist"]),
                                                                    "start_spelled": case.get("start_spelled")}


def one_case(ctx, case, mode, pending):
    res = execute_case(case, mode)
    ctx.evaluation()
    ctx.hist("mode", mode)
    ctx.hist("shape", case["shape"])
    ctx.hist("cmd", case["cmd"])
    ctx.hist("n_revs", len(case["hist"]))
    ctx.hist("start_heads", len(case["start"]))
    by_id = {r["id"]: r for r in case["hist"]}
    for rid, sp in zip(case["start"], case.get("start_spelled") or case["start"]):
        ctx.hist("start_spelling", "id" if sp == rid else ("label" if sp in (by_id[rid].get("labels") or []) else ("label@id" if "@" in sp else "prefix")))
    ctx.hist("target_spelling", "label@head" if "@" in case["target"] else ("id" if case["target"] in by_id else case["target"] if case["target"] in ("heads", "head", "base") or case["target"][:1] in "+-" else "prefix"))
    ctx.hist("history_labels", sum(1 for r in case["hist"] if r.get("labels")) > 0)
    env = case_env(case)
    for k in ("literal_binds", "per_migration", "transactional_ddl", "version_table", "version_table_pk", "version_table_schema",
              "output_encoding", "external_txn", "callbacks"):
        ctx.hist("env." + k, env[k])
    status, what, tags = judge(res)
    ctx.hist("status", status if status != "skip" else "skip:" + what.split(":")[0])
    inp = {"case": case, "mode": mode}
    if status == "fail":
        if has_tab(case) and "tab-only" not in tags:
            # narrow test for C12-TAB: the same case with every TAB of the input written as four spaces
            c2 = copy.deepcopy(case)
            c2["bodies"] = I.tabs4(c2["bodies"])
            if judge(execute_case(c2, mode))[0] == "ok":
                tags = tags + ["tab-only"]
        if has_bindtoken(case):
            # narrow test for C12-BINDTEXT: the same case with the bind-looking tokens escaped (\:name)
            if judge(execute_case(neutralise_bindtokens(case), mode))[0] == "ok":
                tags = tags + ["bindtext-only"]
        if case_env(case)["external_txn"] and res.get("online_error", "") and res["online_error"].startswith("AssertionError") \
                and any(o["op"] == "autocommit" for b in case["bodies"].values() for side in ("up", "down") for o in b[side]):
            # narrow test for C12-AUTOCOMMIT-EXT: the same case when alembic owns the transaction
            c2 = copy.deepcopy(case)
            c2["env"] = dict(c2.get("env") or {}, external_txn=False)
            if judge(execute_case(c2, mode))[0] == "ok":
                tags = tags + ["autocommit-external-only"]
        if has_expr(case) and not case_env(case)["literal_binds"]:
            # narrow test for C12-NOLITERAL: the same case rendered with literal_binds=True
            c2 = copy.deepcopy(case)
            c2["env"] = dict(c2.get("env") or {}, literal_binds=True)
            if judge(execute_case(c2, mode))[0] == "ok":
                tags = tags + ["noliteral-only"]
        het = hetero_ops(case)
        if het:
            # narrow test for C12-HETERO: the same case with those bulk_inserts executed row by row
            c2 = copy.deepcopy(case)
            for o in all_ops(c2):
                if is_hetero(o):
                    o["multiinsert"] = False
            if judge(execute_case(c2, mode))[0] == "ok":
                tags = tags + ["hetero-multiinsert-only"]
        ctx.fail(inp, what, impl={k: res.get(k) for k in ("script", "online_error", "offline_error", "exec_error")}, tags=tags)
        return
    if status == "skip":
        if what.startswith("setup"):
            ctx.note("generator produced an inapplicable setup: " + what[:300])
        return
    script = res["script"]
    ctx.hist("statements", min(res["n_statements"], 40) // 5 * 5)
    for b in case["bodies"].values():
        for o in b["up"] + b["down"]:
            if o["op"] == "autocommit":
                ctx.hist("ops", "autocommit_block")
    for o in all_ops(case):
        ctx.hist("ops", o["op"])
        if o["op"] == "bulk_insert":
            for r in o["rows"]:
                for v in r.values():
                    ctx.hist("value_kinds", v["k"])
    if res["n_statements"] > len(res["ver_offline"]) + 1:
        ctx.nontrivial(script)
    pending.append((inp, res))


def flush(ctx, pending):
    ops = []
    for inp, res in pending:
        case = inp["case"]
        ops.append({"op": "off.same", "a": dump_json(res["A"]), "b": dump_json(res["B"])})
        ops.append({"op": "off.split", "text": cps(res["script"])})
        lin = linear_query(case, res)
        ops.append(lin[0] if lin else {"op": "off.skip"})
        inlang = model_env(case_env(case)) and all(G.in_language(b["up"]) and G.in_language(b["down"]) for b in case["bodies"].values())
        if inlang:
            base = {"start": [cps(x) for x in case["start"]], "steps": steps_json(case, res["steps_offline"])}
            ops.append({"op": "off.emit", **base})
            ops.append({"op": "off.run", **base, "setup": [steps_json(case, ss, online_only=True) for ss in res["setup_steps"]]})
        else:
            ops.append({"op": "off.skip"})
            ops.append({"op": "off.skip"})
    ans = ctx.drv.ask(ops)
    for k, (inp, res) in enumerate(pending):
        same, sp, ln, em, rn = ans[5 * k : 5 * k + 5]
        case = inp["case"]
        lin = linear_query(case, res)
        if lin:
            # the model's linear plan (Model.Offline.upSteps/downSteps: log lines and version operations) is the real one
            ctx.hist("linear_plan", "compared")
            got = [{"log": uncps(st["log"]), "ver": [[v[0]] + [uncps(x) for x in v[1:]] for v in st["ver"]]} for st in ln.get("steps", [])]
            if got != lin[1]:
                ctx.disagree("off.linear", summarise(case, inp["mode"]) | {"hist": case["hist"]}, lin[1], got)
            else:
                ctx.trace_ok()
        if "script" in em:
            # (a) the model's offline text is the real output buffer, character by character
            mtxt = None if em["script"] is None else uncps(em["script"])
            ctx.hist("model_text", "compared")
            if mtxt != res["script"]:
                ctx.disagree("off.emit", summarise(case, inp["mode"]) | {"bodies": case["bodies"]}, res["script"], mtxt)
            else:
                ctx.trace_ok()
            # (b) the model's databases are the real ones (when every statement is interpreted by the model)
            ctx.hist("theorem_hypotheses_hold(wf)", rn.get("wf"))
            if rn.get("setup") is True and rn.get("online") and rn.get("offline"):
                if rn.get("wf") is True and rn.get("same") is not True:
                    # the hypotheses of C12.same_effect_partial hold for this input, its conclusion must too
                    ctx.disagree("off.run", summarise(case, inp["mode"]), "real databases agree", "model online/offline differ")
                if not rn["online"]["log"] and not rn["offline"]["log"]:
                    ctx.hist("model_db", "compared")
                    if model_cells(rn["online"]) != real_cells(res["A"]) or model_cells(rn["offline"]) != real_cells(res["B"]):
                        ctx.disagree("off.run", summarise(case, inp["mode"]) | {"bodies": case["bodies"]},
                                     {"A": real_cells(res["A"]), "B": real_cells(res["B"])},
                                     {"online": model_cells(rn["online"]), "offline": model_cells(rn["offline"])})
                    else:
                        ctx.trace_ok()
                else:
                    ctx.hist("model_db", "opaque-statements")
            else:
                ctx.hist("model_db", "model-raises")
                ctx.disagree("off.run", summarise(case, inp["mode"]) | {"bodies": case["bodies"]}, "both real runs succeed", rn)
        if same.get("holds") is not True:
            # python diff said equal but the Lean checker does not: report (never expected)
            ctx.fail(inp, "spec: Spec.Offline.sameEffect is false on the two dumps %s" % same, impl={"script": res["script"]})
        lean_split = [uncps(x) for x in sp.get("stmts", [])]
        py_split = I.split_script(res["script"])
        sq_split = [I.strip_comments_ws(x) for x in I.split_sqlite(res["script"])]
        if lean_split != py_split or py_split != sq_split:
            ctx.disagree("off.split", summarise(inp["case"], inp["mode"]) | {"script": res["script"]},
                         {"python": py_split, "sqlite": sq_split}, lean_split)
        else:
            ctx.trace_ok()
        if k < 2:
            ctx.sample({"input": summarise(inp["case"], inp["mode"]), "history": inp["case"]["hist"], "script_head": res["script"][:600],
                        "version_rows": res["A"]["version"]})
    pending.clear()


# ---------------------------------------------------------------------------------------
# fixed battery: env.py configuration variants x (linear | merged) history x upgrade/downgrade ranges


def _v(k, v=None):
    return {"k": k} if v is None else {"k": k, "v": v}


def battery_cases():
    note_cols = [{"name": "id", "type": "Integer", "nullable": False, "pk": True},
                 {"name": "Bo dy", "type": "String(50)", "nullable": True, "index": True},
                 {"name": "s", "type": "Text", "nullable": True, "default": {"kind": "str", "v": "d'flt"}}]
    bcols = [{"name": c["name"], "type": c["type"]} for c in note_cols]
    a_up = [{"op": "create_table", "name": "no;te", "cols": note_cols, "checks": [{"text": "id >= 0", "name": "ck_note"}]},
            {"op": "bulk_insert", "table": "no;te", "cols": bcols, "multiinsert": True,
             "rows": [{"id": _v("int", 1), "Bo dy": _v("str", "ü;--'x"), "s": _v("null")}, {"id": _v("int", 2), "Bo dy": _v("str", "日本\n"), "s": _v("str", "\\")}]}]
    b_up = [{"op": "autocommit", "ops": [{"op": "execute", "text": "INSERT INTO \"no;te\" (id, \"Bo dy\") VALUES (3, 'in \\:block')"}]},
            {"op": "add_column", "table": "no;te", "col": {"name": "extra", "type": "Integer", "nullable": False, "default": {"kind": "text", "v": "7"}}},
            {"op": "bulk_insert", "table": "no;te", "cols": bcols + [{"name": "extra", "type": "Integer"}], "multiinsert": False,
             "rows": [{"id": _v("int", 4), "Bo dy": _v("str", "after block")}, {"id": _v("int", 5), "extra": _v("int", -1), "s": _v("null")}]}]
    c_up = [{"op": "create_index", "name": "ix expr", "table": "no;te", "cols": [{"expr": "lower(\"Bo dy\")"}, "id"], "unique": False, "where": "id > 1"},
            {"op": "execute", "text": "UPDATE \"no;te\" SET s = 'c%' WHERE id = 1", "via": "context", "execution_options": {"c12_marker": 1}}]
    m_up = [{"op": "bulk_insert", "table": "no;te", "cols": bcols, "multiinsert": True, "rows": [{"id": _v("int", 9), "Bo dy": _v("str", "merged")}]}]
    bodies = {
        "a1": {"up": a_up, "down": [{"op": "drop_table", "name": "no;te"}]},
        "b2": {"up": b_up, "down": [{"op": "drop_column", "table": "no;te", "col": "extra"}]},
        "c3": {"up": c_up, "down": [{"op": "drop_index", "name": "ix expr", "table": "no;te"}]},
        "m4": {"up": m_up, "down": [{"op": "execute", "text": "DELETE FROM \"no;te\" WHERE id = 9"}]},
    }
    lin = [{"id": "a1", "down": [], "deps": [], "labels": []}, {"id": "b2", "down": ["a1"], "deps": [], "labels": []},
           {"id": "c3", "down": ["b2"], "deps": [], "labels": []}]
    mrg = [{"id": "a1", "down": [], "deps": [], "labels": []}, {"id": "b2", "down": ["a1"], "deps": [], "labels": []},
           {"id": "c3", "down": ["a1"], "deps": [], "labels": []}, {"id": "m4", "down": ["b2", "c3"], "deps": [], "labels": []}]
    # in the merged history c3 must not depend on b2's objects: it gets its own body
    mb = dict(bodies)
    mb["c3"] = {"up": [{"op": "execute", "text": "UPDATE \"no;te\" SET s = 'c3' WHERE id = 2", "as_text": True}], "down": []}
    envs = [
        {}, {"literal_binds": False}, {"per_migration": True}, {"transactional_ddl": True},
        {"transactional_ddl": True, "per_migration": True, "literal_binds": False}, {"transactional_ddl": False},
        {"version_table": "my_versions", "version_table_pk": False}, {"version_table": "ver;sion tbl", "literal_binds": False},
        {"version_table_schema": "main", "literal_binds": False}, {"output_encoding": "utf-8", "literal_binds": False},
        {"callbacks": True, "per_migration": True}, {"external_txn": True, "literal_binds": False},
        {"base_prefix": True, "transactional_ddl": True, "literal_binds": False},
        {"tag": "t", "buffer_in_env": True, "start_in_env": True, "output_encoding": "utf-8"},
    ]
    out = []
    for k, env in enumerate(envs):
        def strip(b):  # an autocommit_block inside a caller-owned transaction is known finding C12-AUTOCOMMIT-EXT
            if not env.get("external_txn"):
                return b
            return {r: {side: list(I.flat_ops(x[side])) for side in ("up", "down")} for r, x in b.items()}

        mode = "fake" if env.get("external_txn") or k % 2 else "real"
        out.append(({"shape": "linear", "hist": lin, "bodies": strip(bodies), "cmd": "upgrade", "start": [], "target": "heads", "env": env}, mode))
        out.append(({"shape": "linear", "hist": lin, "bodies": strip(bodies), "cmd": "downgrade", "start": ["c3"], "target": "a1", "env": env}, mode))
        if env.get("start_in_env"):
            out.append(({"shape": "linear", "hist": lin, "bodies": strip(bodies), "cmd": "upgrade", "start": ["a1"], "target": "c3", "env": env}, "real"))
        out.append(({"shape": "merged", "hist": mrg, "bodies": strip(mb), "cmd": "upgrade", "start": ["b2", "c3"], "target": "heads", "env": env}, "fake"))
        out.append(({"shape": "merged", "hist": mrg, "bodies": strip(mb), "cmd": "downgrade", "start": ["m4"], "target": "base", "env": env}, mode))
    # branch labels: the range start written as the label its revision declares, as label@id; the target as label@head
    lab = json.loads(json.dumps(lin))
    lab[1]["labels"] = ["ledger"]
    lab[2]["labels"] = ["tip"]
    for mode in ("fake", "real"):
        out.append(({"shape": "linear", "hist": lab, "bodies": bodies, "cmd": "upgrade", "start": ["b2"], "start_spelled": ["ledger"],
                     "target": "c3", "env": {}}, mode))
        out.append(({"shape": "linear", "hist": lab, "bodies": bodies, "cmd": "upgrade", "start": ["b2"], "start_spelled": ["ledger@b2"],
                     "target": "tip@head", "env": {"literal_binds": False}}, mode))
        out.append(({"shape": "linear", "hist": lab, "bodies": bodies, "cmd": "downgrade", "start": ["c3"], "start_spelled": ["tip"],
                     "target": "a1", "env": {}}, mode))
    # --sql output through a codec that cannot encode every literal: unmodified alembic refuses (UnicodeEncodeError, no script)
    for enc in ("latin-1", "ascii", "cp1252"):
        out.append(({"shape": "linear", "hist": lin, "bodies": bodies, "cmd": "upgrade", "start": [], "target": "heads",
                     "env": {"output_encoding": enc}}, "real" if enc == "latin-1" else "fake"))
    # bulk_insert through an untyped ad-hoc sa.table(): --sql refuses (CompileError) or must be faithful
    ucols = [{"name": n, "type": "Text"} for n in ("id", "Bo dy", "s")]
    for k, vals in enumerate([
        [_v("datetime", "2024-03-03T09:30:00"), _v("datetime", "2024-03-03T09:30:00.000123")],
        [_v("date", "2024-02-29"), _v("bool", True)], [_v("bytes", "00ff27"), _v("float", "1.5")], [_v("str", "x'y"), _v("int", 5)],
        [_v("null"), _v("null")], [_v("dec", "1.50"), _v("time", "09:30:00")],
    ]):
        ub = json.loads(json.dumps(bodies))
        ub["a1"]["up"].append({"op": "bulk_insert", "table": "no;te", "cols": ucols, "untyped": True, "multiinsert": k % 2 == 0,
                               "rows": [{"id": _v("int", 50 + k), "Bo dy": vals[0], "s": vals[1]}]})
        out.append(({"shape": "linear", "hist": lin[:1], "bodies": ub, "cmd": "upgrade", "start": [], "target": "heads", "env": {}},
                    "real" if k % 2 else "fake"))
    # bulk_insert through a real sa.Table whose column keys differ from the column names, rows keyed by the keys
    for k, multi in enumerate((True, False)):
        kb = json.loads(json.dumps(bodies))
        kb["a1"]["up"].append({"op": "bulk_insert", "table": "no;te", "cols": bcols, "multiinsert": multi,
                               "keys": {"Bo dy": "body_attr", "s": "s"} if k else {"id": "pk", "Bo dy": "body", "s": "note_text"},
                               "rows": [{"id": _v("int", 60), "Bo dy": _v("str", "keyed"), "s": _v("str", "v1")},
                                        {"id": _v("int", 61), "Bo dy": _v("null"), "s": _v("str", "v2")}]})
        for mode in ("fake", "real"):
            out.append(({"shape": "linear", "hist": lin[:1], "bodies": kb, "cmd": "upgrade", "start": [], "target": "heads",
                         "env": {"literal_binds": bool(k)}}, mode))
    enc_bodies = json.loads(json.dumps(bodies).replace("\\u65e5\\u672c", "\\u00e9\\u00ff"))  # only latin-1 / cp1252 characters
    for enc in ("latin-1", "cp1252"):
        out.append(({"shape": "linear", "hist": lin, "bodies": enc_bodies, "cmd": "upgrade", "start": [], "target": "heads",
                     "env": {"output_encoding": enc, "literal_binds": False}}, "fake" if enc == "latin-1" else "real"))
    # malformed stream: rows that are not a list / not dicts raise TypeError online and offline alike
    for bad in ("tuple", "rowlist"):
        b2 = json.loads(json.dumps(bodies))
        b2["a1"]["up"][1]["malformed"] = bad
        out.append(({"shape": "linear", "hist": lin[:1], "bodies": b2, "cmd": "upgrade", "start": [], "target": "heads", "env": {}}, "fake"))
    return out


def run_battery(ctx, pending):
    for case, mode in battery_cases():
        ctx.hist("battery", "case")
        one_case(ctx, json.loads(json.dumps(case)), mode, pending)


def run(ctx, n_cases=None, rng_name="main"):
    rng = ctx.rng(rng_name)
    n = n_cases or (3000 if ctx.thorough else 210)
    pending = []
    if rng_name == "main":
        run_battery(ctx, pending)
    for i in range(n):
        mode = "real" if rng.random() < 0.3 else "fake"
        lang_only = rng.random() < 0.35
        # inputs that trip a known finding are kept rare and mutually exclusive (one known cause per case, so that the
        # narrow classifiers, which neutralise exactly one cause, stay decisive)
        special = rng.random()
        tabs = special < 0.04
        hetero = 0.04 <= special < 0.08
        bindtext = 0.08 <= special < 0.12
        noliteral = 0.12 <= special < 0.15   # SQL expression constructs rendered without literal_binds: finding C12-NOLITERAL
        case = G.gen_case(rng, 9 if ctx.thorough else 6, real=(mode == "real"), lang_only=lang_only, tabs=tabs, hetero=hetero,
                          bindtext=bindtext)
        case["lang_only"] = lang_only
        case["env"] = gen_env(rng, mode, case, plain=not (tabs or hetero or bindtext or noliteral), noliteral=noliteral)
        one_case(ctx, case, mode, pending)
        if len(pending) >= 100:
            flush(ctx, pending)
    flush(ctx, pending)


def search(ctx):
    run(ctx, n_cases=1200, rng_name="search")


# ---------------------------------------------------------------------------------------
# known findings


def classify(failure):
    tags = failure.get("tags", [])
    case = failure["input"]["case"]
    if "tab-only" in tags and has_tab(case):
        return "C12-TAB"
    if "hetero-multiinsert-only" in tags:
        return "C12-HETERO"
    if "bindtext-only" in tags and has_bindtoken(case):
        return "C12-BINDTEXT"
    if "autocommit-external-only" in tags:
        return "C12-AUTOCOMMIT-EXT"
    if "noliteral-only" in tags and has_expr(case):
        return "C12-NOLITERAL"
    return None


def check_witness(ctx, finding):
    w = finding["witness"]
    res = execute_case(w["case"], w.get("mode", "fake"))
    status, what, tags = judge(res)
    if status == "fail":
        return what
    return None


def replay(ctx, case):
    inp = case["input"]
    res = execute_case(inp["case"], inp["mode"])
    status, what, tags = judge(res)
    return {"status": status, "what": what, "tags": tags, "script": res.get("script"), "online_error": res.get("online_error"),
            "offline_error": res.get("offline_error"), "exec_error": res.get("exec_error"),
            "diff": I.diff_dump(res["A"], res["B"]) if "A" in res and "B" in res else None}
