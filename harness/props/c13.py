"""C13 - alter_column changes only what it was asked to change, on every dialect.

Implementation side: the real ``Operations(MigrationContext(as_sql)).alter_column`` for
default / sqlite / postgresql / mysql / mariadb / mssql / oracle; every emitted statement is
parsed by a per-dialect statement parser (harness/alter_impl.py) into the ``Stmt`` vocabulary and
compared, statement by statement and with the exception class, with ``Model.Alter.alterColumn``.
The Lean checkers ``Spec.Alter.exactOk`` / ``schemaOk`` are evaluated on the statement list parsed
from the implementation, for initial columns that agree with the stated ``existing_*`` values.
"""
from __future__ import annotations

import itertools
import json

from .. import alter_impl as ai

PROPERTY = "C13"
DRIVER = "drv_alter"
THEOREMS = [
    "C13.exact_default",
    "C13.exact_sqlite",
    "C13.exact_postgresql",
    "C13.exact_mysql",
    "C13.exact_mariadb",
    "C13.exact_mssql",
    "C13.exact_oracle",
    "C13.exact_partial",
    "C13.exact_unfolded",
    "C13.exact_counterexample",
    "C13.exact_postgresql_identity",
    "C13.pg_identity_alter",
    "C13.schema",
    "C13.addressed",
    "C13.addressed_end",
    "C13.constraints",
    "C13.constraints_untouched_without_type",
    "C13.constraints_complete",
    "C13.constraints_iff",
    "C13.exact_identity_only_postgresql",
    "C13.exact_oracle_identity",
    "C13.no_spurious_refusal",
    "C13.computed_raises",
    "C13.identity_unsupported_raises",
]
PARTIAL = {
    "C13.exact_partial": "full statement C13.exact_statement (every kind of server default) is false: PostgreSQL's identity visitor "
    "treats any request involving an Identity whose existing default is not None as identity->identity (C13.exact_counterexample); "
    "proved for plain/None server defaults on all seven dialects (the domain the property text names), plus "
    "C13.exact_postgresql_identity / C13.pg_identity_alter / C13.computed_raises / C13.identity_unsupported_raises for the "
    "identity/computed transitions the code supports or rejects; identity requests: C13.exact_oracle_identity (Oracle, whole output, every "
    "expressible direction), C13.exact_identity_only_postgresql (PostgreSQL, all four supported directions incl. identity->identity with "
    "options, for requests that change only the default) and C13.exact_postgresql_identity (whole output, all but identity->identity); "
    "not proved as a whole-output statement: PostgreSQL identity->identity combined with other requested attributes (statement level: "
    "C13.pg_identity_alter)",
}
TRUSTED = [
    "per-dialect statement parsers of harness/alter_impl.py (SQL text -> Stmt); a statement no rule accepts is a correspondence disagreement",
    "Spec.Alter.applyStmt for MySQL/MariaDB/MSSQL/PostgreSQL/Oracle encodes documented vendor semantics (MySQL CHANGE/MODIFY and MSSQL "
    "ALTER COLUMN <type> [NULL|NOT NULL] restate the column; per-attribute ALTERs touch one attribute; statements are assumed to be accepted "
    "by the server); not validated against live servers.  default/sqlite text is judged under generic ANSI semantics",
    "SQLAlchemy's type compilation, server-default rendering, string-literal rendering and the schema-type constraint rule "
    "(Boolean/Enum create_constraint, _create_rule per dialect) are parameters of the model: the harness reads them from SQLAlchemy",
    "the statement parsers un-quote delimited identifiers per dialect (\"..\" with \"\", `..` with ``, [..] with ]]) and T-SQL string "
    "literals ('..' with ''); that an identifier is quoted when it has to be is C14's subject, C13 judges which object a statement names; "
    "names contain no '.' and no '%'",
]
RULE = (
    "exhaustive over dialect(7) x schema/no schema x subset of requested {type_, nullable, server_default, new_column_name, comment, "
    "autoincrement} (64) x subset of stated existing_{type, nullable, server_default, comment, autoincrement} (32) = 28672 presence patterns; "
    "plus a deterministic constraint stream: every constraint-owning existing_type (5) x subset of the non-type attributes (32) x "
    "with/without type_ x dialect (schema alternating) = 2240 calls judged by Spec.Alter.constraintOk; a kinds battery (type classes, '' / "
    "func.now() / DefaultClause defaults, schema '' / quoted_name, postgresql_using '') and a configuration battery (literal_binds, "
    "transactional_ddl, empty/overridden batch separators), a defaults battery (SQL-expression defaults containing Python literals as requested / "
    "stated-existing default; the expected text is SQLAlchemy's own literal-bound rendering), a type-pairs battery (closely related type_/existing_type pairs, both "
    "directions x extra requested attribute) each crossed with all 64 requested subsets x 7 dialects; a names battery "
    "on every dialect (column / new names of the identifier-quoting classes -- mixed case, reserved word, space, quote character, the "
    "dialect's closing delimiter -- and table / schema names 'My Table' / 'select' / 'My Schema': 64 subsets x 6 names x 7 dialects (existing values stated alternately) = "
    "2688 calls; delimited identifiers are un-quoted per dialect, the strings inside the mssql sp_rename / drop-default-batch literals "
    "are un-escaped and must denote exactly the requested column and table); "
    "per pattern one draw of plain values (quick) plus draws mixing in identity/computed defaults, schema-type (Boolean/Enum CHECK) types, "
    "postgresql_using, empty comments and same-name renames; 2 initial columns per case for the spec (one adversarial: every unstated "
    "attribute differs from what a restating statement would reset it to). A case is non-trivial when at least one attribute is requested; "
    "distinct by (dialect, schema, requested set, stated set, value kinds, exception class, statement kinds)"
)
ASSUMPTIONS = [
    "names contain no '.' and no '%'; comments contain no quote characters",
    "C13.exact_partial: server defaults are plain values or None; identity/computed defaults are covered by separate theorems and by the known finding C13-PG-IDENTITY-ASSUMED",
]

REQ_ATTRS = ["type", "nullable", "server_default", "new_name", "comment", "autoinc"]
EX_ATTRS = ["ex_type", "ex_nullable", "ex_default", "ex_comment", "ex_autoinc"]


def subsets(xs):
    for n in range(len(xs) + 1):
        for c in itertools.combinations(xs, n):
            yield c


def draw_values(rng, requested, stated, schema, exotic):
    """abstract request for one presence pattern"""
    req = {"table": "t1", "column": "c1", "schema": "s1" if schema else None}
    for a in REQ_ATTRS + EX_ATTRS + ["using"]:
        req[a] = None
    req["server_default"] = {"k": "unset"}
    req["comment"] = {"k": "unset"}
    req["ex_default"] = {"k": "unset"}

    def dkey():
        x = rng.random()
        if exotic and x < 0.22:
            return rng.choice(ai.DEFAULT_KEYS_IDENTITY)
        if exotic and x < 0.30:
            return rng.choice(ai.DEFAULT_KEYS_COMPUTED)
        return rng.choice(ai.DEFAULT_KEYS_PLAIN)

    def tkey():
        if exotic and rng.random() < 0.4:
            return rng.choice(ai.TYPE_KEYS_CK + ai.TYPE_KEYS_CK_WRAPPED)
        return rng.choice(ai.TYPE_KEYS_COMMON)

    if "type" in requested:
        req["type"] = tkey()
    if "nullable" in requested:
        req["nullable"] = rng.random() < 0.5
    if "server_default" in requested:
        req["server_default"] = {"k": "drop"} if rng.random() < 0.3 else {"k": "set", "v": dkey()}
    if "new_name" in requested:
        req["new_name"] = rng.choice(ai.NEW_NAMES if exotic else ai.NEW_NAMES[:2])
    if "comment" in requested:
        if rng.random() < 0.3:
            req["comment"] = {"k": "drop"}
        else:
            req["comment"] = {"k": "set", "v": rng.choice(ai.COMMENTS if exotic else ai.COMMENTS[:3])}
    if "autoinc" in requested:
        req["autoinc"] = rng.random() < 0.6
    if "ex_type" in stated:
        req["ex_type"] = tkey()
    if "ex_nullable" in stated:
        req["ex_nullable"] = rng.random() < 0.5
    if "ex_default" in stated:
        req["ex_default"] = {"k": "drop"} if rng.random() < 0.3 else {"k": "set", "v": dkey()}
    if "ex_comment" in stated:
        req["ex_comment"] = rng.choice(ai.COMMENTS if exotic else ai.COMMENTS[:3])
    if "ex_autoinc" in stated:
        req["ex_autoinc"] = rng.random() < 0.5
    if exotic and rng.random() < 0.15:
        req["using"] = "c1::integer"
    # PostgreSQL's identity visitor evaluates bool(<the non-identity default>): a TextClause raises TypeError there
    # while a str does not; the model does not distinguish the two spellings of a plain default, so the generator
    # keeps TextClause defaults away from the (identity <-> plain) transitions
    for a, b in (("ex_default", "server_default"), ("server_default", "ex_default")):
        if (req[a]["k"] == "set" and req[a]["v"] in ai.DEFAULT_KEYS_IDENTITY
                and req[b]["k"] == "set" and req[b]["v"] in ("now", "expr")):
            req[b] = {"k": "set", "v": rng.choice(["five", "abc"])}
    return req


def init_states(rng, dialect, lreq):
    """two initial columns agreeing with the stated existing_* values"""

    def norm_c(c):
        return c if c else None

    def mk(adversarial):
        s = {"name": lreq["column"]}
        if lreq["ex_type"] is not None:
            s["ty"] = lreq["ex_type"]["name"]
        else:
            s["ty"] = "XTYPE" if adversarial else ai.type_token(dialect, rng.choice(ai.TYPE_KEYS_COMMON))["name"]
        if lreq["ex_nullable"] is not None:
            s["nullable"] = lreq["ex_nullable"]
        else:
            s["nullable"] = False if adversarial else rng.random() < 0.5
        ed = lreq["ex_default"]
        if ed["k"] == "drop":
            s["default"] = None
        elif ed["k"] == "set":
            s["default"] = ed["v"]
        elif adversarial:
            s["default"] = {"kind": "plain", "text": "'old'"}
        else:
            s["default"] = rng.choice([None, {"kind": "plain", "text": "'old'"}, {"kind": "plain", "text": "7"}])
        if lreq["ex_comment"] is not None:
            s["comment"] = norm_c(lreq["ex_comment"])
        else:
            s["comment"] = "old comment" if adversarial else rng.choice([None, "old comment"])
        if lreq["ex_autoinc"] is not None:
            s["autoinc"] = lreq["ex_autoinc"]
        else:
            s["autoinc"] = True if adversarial else rng.random() < 0.5
        return s

    return [mk(True), mk(False)]


def _strip(st):
    return {k: v for k, v in st.items() if v is not None}


def offenders(req, stmts):
    """statements whose table reference is not the requested schema.table"""
    return [st for st in stmts if (st.get("schema"), st.get("table")) != (ai.schema_text(req.get("schema")) or None, req.get("table"))]


def misaddressed(req, stmts):
    """statements that refer to the column by a name it does not have at that point of the script"""
    cur = req.get("column")
    out = []
    for st in stmts:
        c = st.get("col")
        if c is not None and c != cur:
            out.append(st)
        if st["k"] in ("rename", "mysqlChange"):
            cur = st["new"]
    return out


def value_kinds(req):
    def k(tri):
        if tri["k"] != "set":
            return tri["k"]
        v = tri["v"]
        return "identity" if v in ai.DEFAULT_KEYS_IDENTITY else "computed" if v in ai.DEFAULT_KEYS_COMPUTED else "plain"

    return (
        k(req["server_default"]),
        k(req["ex_default"]),
        req["comment"]["k"],
        "ck" if req["type"] in ai.TYPE_KEYS_CK else "ckw" if req["type"] in ai.TYPE_KEYS_CK_WRAPPED else "t" if req["type"] else "-",
        "ck" if req["ex_type"] in ai.TYPE_KEYS_CK else "ckw" if req["ex_type"] in ai.TYPE_KEYS_CK_WRAPPED else "t" if req["ex_type"] else "-",
        req["using"] is not None,
    )


class Batch:
    def __init__(self, ctx, rng_name):
        self.ctx = ctx
        self.cases = []
        self.rng = ctx.rng(rng_name + "/init")

    def add(self, dialect, req):
        ctx = self.ctx
        r = ai.run_impl(dialect, req)
        stmts, unknown = ai.parse_script(dialect, r["text"])
        lreq = ai.to_lean(dialect, req)
        inits = init_states(self.rng, dialect, lreq)
        ctx.evaluation()
        self.cases.append((dialect, req, lreq, r, stmts, unknown, inits))
        if len(self.cases) >= 4000:
            self.flush()

    def flush(self):
        ctx = self.ctx
        ops = []
        for dialect, req, lreq, r, stmts, unknown, inits in self.cases:
            ops.append({"op": "alter.run", "dialect": dialect, "req": lreq})
            if not unknown:
                for init in inits:
                    ops.append({"op": "alter.spec", "dialect": dialect, "req": lreq, "init": init, "stmts": stmts, "err": r["err"]})
        ans = iter(ctx.drv.ask(ops))
        for dialect, req, lreq, r, stmts, unknown, inits in self.cases:
            inp = {"dialect": dialect, "req": req}
            m = next(ans)
            requested = tuple(a for a in REQ_ATTRS if (req[a]["k"] != "unset" if isinstance(req[a], dict) else req[a] is not None))
            stated = tuple(a for a in EX_ATTRS if (req[a]["k"] != "unset" if isinstance(req[a], dict) else req[a] is not None))
            ctx.hist("dialect", dialect)
            ctx.hist("n_requested", len(requested))
            ctx.hist("n_stated", len(stated))
            ctx.hist("impl_result", r["err"] or "ok")
            ctx.hist("n_statements", len(stmts))
            for st in stmts:
                ctx.hist("statement_kinds", "%s:%s" % (dialect, st["k"]))
            vk = value_kinds(req)
            ctx.hist("default_kinds(req,existing)", "%s,%s" % (vk[0], vk[1]))
            impl_view = {"stmts": [_strip(s) for s in stmts], "err": r["err"]}
            model_view = {"stmts": [_strip(s) for s in m.get("stmts", [])], "err": m.get("err")} if "stmts" in m else m
            if unknown or impl_view != model_view:
                ctx.disagree("alter.run", inp, {**impl_view, "unknown": unknown, "text": r["text"][:1500], "msg": r["msg"]}, model_view)
            else:
                ctx.trace_ok()
            if requested:
                ctx.nontrivial((dialect, req["schema"] is not None, requested, stated, vk, r["err"], tuple(s["k"] for s in stmts)))
            if len(ctx.samples) < ctx.max_samples and requested and len(stmts) >= 1 and ctx.evaluations % 7 == 0:
                ctx.sample({"input": inp, "script": r["text"], "statements": impl_view["stmts"], "error": r["err"]})
            if unknown:
                # "dialects that cannot express a requested change raise instead of emitting something else":
                # a statement outside the dialect's ALTER grammar is something else
                ctx.fail(inp, "grammar: an emitted statement is not a statement of the dialect's alter-column grammar "
                              "(neither the requested change nor an exception)",
                         impl={"unparsed": unknown, "stmts": impl_view["stmts"], "err": r["err"], "script": r["text"][:1500]},
                         tags=["grammar", dialect])
                continue
            schema_reported = False
            address_reported = False
            constraints_reported = False
            refusal_reported = False
            complete_reported = False
            for init in inits:
                s = next(ans)
                if "err" in s:
                    ctx.disagree("alter.spec", inp, {"init": init, "stmts": impl_view["stmts"]}, s)
                    continue
                if not s["agrees"]:
                    ctx.note("generator produced an initial column that does not agree with the request: %s" % json.dumps(inp))
                    continue
                if not s["schema"] and not schema_reported:
                    schema_reported = True
                    ctx.fail(inp, "schema: a statement does not carry the requested table/schema",
                             impl={"offenders": offenders(req, stmts), "script": r["text"][:1500]},
                             tags=["schema", dialect])
                if not s.get("address", True) and not address_reported:
                    address_reported = True
                    ctx.fail(inp, "address: a statement refers to the column by a name it does not have at that point of the script",
                             impl={"misaddressed": misaddressed(req, stmts), "stmts": impl_view["stmts"], "script": r["text"][:1500]},
                             tags=["address", dialect])
                if s.get("mustSucceed") and r["err"] is not None and not refusal_reported:
                    refusal_reported = True
                    ctx.fail(inp, "refusal: the request is expressible on the dialect (Spec.Alter.mustSucceed) but the call raised %s: %s"
                             % (r["err"], r["msg"][:100]),
                             impl={"stmts": impl_view["stmts"], "err": r["err"], "script": r["text"][:1500]},
                             tags=["refusal", dialect])
                if not s.get("complete", True) and not complete_reported:
                    complete_reported = True
                    ctx.fail(inp, "constraints-missing: a type change is emitted without the constraint half (the named CHECK of the "
                                  "stated existing type is not dropped and/or the CHECK of the new type is not added)",
                             impl={"stmts": impl_view["stmts"], "script": r["text"][:1500],
                                   "type_ck": (lreq["type"] or {}).get("ck"), "ex_type_ck": (lreq["ex_type"] or {}).get("ck")},
                             tags=["constraints-missing", dialect])
                if not s.get("constraints", True) and not constraints_reported:
                    constraints_reported = True
                    bad = [st for st in impl_view["stmts"] if st["k"] in ("dropConstraint", "addConstraint")]
                    ctx.fail(inp, "constraints: a type-bound CHECK constraint is dropped/added although no matching type change "
                                  "was requested (the constraint belongs to the column's type, which the call did not ask to change)",
                             impl={"constraint_stmts": bad, "stmts": impl_view["stmts"], "script": r["text"][:1500]},
                             tags=["constraints", dialect])
                if not s["exact"]:
                    # identity/computed defaults are outside the domain of C13.exact_partial; a spec failure there is
                    # still a property failure on the real code (matched against the PG identity known finding)
                    kind = "exact" if s["plain"] else "exact-nonplain"
                    if kind == "exact-nonplain":
                        ctx.hist("nonplain_spec_false", "%s req=%s ex=%s" % (dialect, vk[0], vk[1]))
                    ctx.fail({**inp, "init": init},
                             "%s: the emitted statements do not take the column to 'existing overridden by requested' "
                             "(keep=%s requested=%s final=%s)" % (kind, s["keep"], s["requested"], json.dumps(s["final"])),
                             impl={"stmts": impl_view["stmts"], "err": r["err"], "script": r["text"][:1500],
                                   "default_kinds": [vk[0], vk[1]], "only_default": s.get("exactNoDefault")},
                             tags=[kind, dialect])
        self.cases.clear()


def constraint_stream(rng):
    """deterministic coverage of the schema-type constraint handling: every existing_type that owns a CHECK constraint
    (named / unnamed Boolean, native-or-not Enum) x every subset of the non-type attributes, without and with type_"""
    other = [a for a in REQ_ATTRS if a != "type"]
    for di, dialect in enumerate(ai.DIALECTS):
        # schema / no schema alternate over (dialect, existing type) instead of being crossed (the constraint
        # statements carry the schema like every other statement: covered by the exhaustive main loop)
        for schema in (di % 2 == 0,):
            for ex in ai.TYPE_KEYS_CK:
                for requested in subsets(other):
                    for with_type in (False, True):
                        req_attrs = tuple(requested) + (("type",) if with_type else ())
                        stated = ("ex_type",) + tuple(a for a in EX_ATTRS[1:] if rng.random() < 0.3)
                        req = draw_values(rng, req_attrs, stated, schema, False)
                        req["ex_type"] = ex
                        if with_type:
                            req["type"] = rng.choice(ai.TYPE_KEYS_COMMON + ai.TYPE_KEYS_CK + ai.TYPE_KEYS_CK_WRAPPED)
                        yield dialect, req
            # the constraint owner reached indirectly (TypeDecorator impl, per-dialect variant; control: variant of another
            # dialect): as existing_type and as type_, against plain and against each other
            wrapped = ai.TYPE_KEYS_CK_WRAPPED
            for ex in [None] + wrapped:
                for ty in [None] + wrapped + ["int", "bool_ck"]:
                    if ex is None and ty is None:
                        continue
                    for requested in ((), ("nullable",), ("new_name",)):
                        req_attrs = tuple(requested) + (("type",) if ty else ())
                        req = draw_values(rng, req_attrs, ("ex_type",) if ex else (), schema, False)
                        req["ex_type"] = ex
                        req["type"] = ty
                        yield dialect, req


def kinds_battery(rng):
    """argument kinds and falsy values the random pools do not contain (coverage triage): type classes instead of
    instances, further spellings of a plain default ('' / func.now() / DefaultClause), schema='' / quoted_name,
    postgresql_using='' -- crossed with every requested subset, existing values all stated or not at all"""
    schemas = [None, "s1", "", "qn:s1"]
    for dialect in ai.DIALECTS:
        for requested in subsets(REQ_ATTRS):
            for stated in ((), tuple(EX_ATTRS)):
                for k in range(2):
                    req = draw_values(rng, requested, stated, False, False)
                    req["schema"] = schemas[(len(requested) + len(stated) + k) % 4] if k == 0 else rng.choice(schemas)
                    if req["type"] is not None and (k == 0 or rng.random() < 0.5):
                        req["type"] = rng.choice(ai.TYPE_KEYS_CLASS)
                    if req["ex_type"] is not None and rng.random() < 0.6:
                        req["ex_type"] = rng.choice(ai.TYPE_KEYS_CLASS)
                    if req["server_default"]["k"] == "set" and (k == 0 or rng.random() < 0.5):
                        req["server_default"] = {"k": "set", "v": rng.choice(ai.DEFAULT_KEYS_PLAIN_EXTRA)}
                    if req["ex_default"]["k"] == "set" and rng.random() < 0.6:
                        req["ex_default"] = {"k": "set", "v": rng.choice(ai.DEFAULT_KEYS_PLAIN_EXTRA)}
                    if rng.random() < 0.25:
                        req["using"] = rng.choice(["", "c1::integer"])
                    yield dialect, req


def names_battery(rng):
    """every dialect with column / new column names of the identifier-quoting classes (mixed case, reserved word, space,
    quote character, the dialect's closing delimiter) and table / schema names from the quoting classes; on mssql the
    names are also embedded in T-SQL string literals (sp_rename, the drop-default batch): every requested subset x
    (nothing | everything stated) x column name, table and schema rotating"""
    k = 0
    for dialect in ai.DIALECTS:
        names = ai.quoted_names(dialect)
        for requested in subsets(REQ_ATTRS):
            for col in names:
                    k += 1
                    stated = () if k % 2 else tuple(EX_ATTRS)  # alternating (each name sees both over the 64 subsets)
                    req = draw_values(rng, requested, stated, False, False)
                    req["column"] = col
                    req["table"] = ai.QUOTED_TABLES[k % 3]
                    req["schema"] = ai.QUOTED_SCHEMAS[(k // 3) % 3]
                    if req["new_name"] is not None:
                        req["new_name"] = rng.choice(names + ["c2"])
                    if "ex_type" in stated and rng.random() < 0.3:
                        req["ex_type"] = rng.choice(ai.TYPE_KEYS_CK)
                    if req["type"] is not None and rng.random() < 0.3:
                        req["type"] = rng.choice(ai.TYPE_KEYS_CK)
                    yield dialect, req


def type_pairs_battery(rng):
    """type_ / existing_type pairs of closely related types (VARCHAR(50)/VARCHAR, NUMERIC(10)/NUMERIC(10,2), with/without
    collation, INTEGER/INTEGER[], FLOAT/DOUBLE PRECISION, DECIMAL/NUMERIC), both directions, alone and with each other
    requested attribute, with and without the remaining existing_* values"""
    other = [a for a in REQ_ATTRS if a != "type"]
    for dialect in ai.DIALECTS:
        for a, b in ai.TYPE_PAIRS:
            if not (ai.type_ok(dialect, a) and ai.type_ok(dialect, b)):
                continue
            for new, old in ((a, b), (b, a)):
                for extra in [()] + [(x,) for x in other] + [tuple(other)]:
                    for stated in (("ex_type",), tuple(EX_ATTRS)):
                        req = draw_values(rng, ("type",) + extra, stated, len(extra) % 2 == 1, False)
                        req["type"] = new
                        req["ex_type"] = old
                        yield dialect, req


def defaults_battery(rng):
    """SQL-expression server defaults that contain Python literals (coalesce(col, 0), concat('ab','cd'), CAST(0 AS ..),
    literal(42), DefaultClause-wrapped): as the requested default and as the stated existing default that the MySQL
    family restates, alone and with nullable / type / rename, every dialect"""
    for dialect in ai.DIALECTS:
        for key in ai.DEFAULT_KEYS_EXPR:
            for role in ("server_default", "ex_default"):
                for extra in ((), ("nullable",), ("type",), ("new_name",), ("nullable", "type", "new_name")):
                    for stated in (("ex_type",), tuple(EX_ATTRS)):
                        requested = extra + (("server_default",) if role == "server_default" else ())
                        st = tuple(stated) + (("ex_default",) if role == "ex_default" and "ex_default" not in stated else ())
                        req = draw_values(rng, requested, st, False, False)
                        req[role] = {"k": "set", "v": key}
                        yield dialect, req


def identity_battery(rng):
    """identity -> identity / none -> identity / identity -> none with the further identity options (NO MINVALUE,
    NO MAXVALUE, CYCLE, CACHE, MINVALUE/MAXVALUE/INCREMENT) on both sides, postgresql and oracle (the dialects that can
    express identity changes), alone and together with a nullability change"""
    ids = ai.DEFAULT_KEYS_IDENTITY
    for dialect in ("postgresql", "oracle"):
        for new in ids + [None]:
            for old in ids + [None]:
                if new is None and old is None:
                    continue
                for extra in ((), ("nullable",)):
                    req = draw_values(rng, extra + ("server_default",), ("ex_default",), False, False)
                    req["server_default"] = {"k": "set", "v": new} if new else {"k": "drop"}
                    req["ex_default"] = {"k": "set", "v": old} if old else {"k": "drop"}
                    yield dialect, req


def config_battery(rng):
    """context configurations (literal_binds, transactional_ddl given, batch separators overridden/empty): the emitted
    statements must not depend on them -- every requested subset x (nothing stated | everything stated) x schema"""
    for config in ("alt",):
        for dialect in ai.DIALECTS:
            for requested in subsets(REQ_ATTRS):
                for stated in ((), tuple(EX_ATTRS)):
                    req = draw_values(rng, requested, stated, len(requested) % 2 == 0, config == "tddl")
                    req["config"] = config
                    yield dialect, req


def run(ctx, rng_name="main", draws=None, budget_s=None):
    import time

    t0 = time.time()

    def over():
        return budget_s is not None and time.time() - t0 > budget_s

    rng = ctx.rng(rng_name)
    b = Batch(ctx, rng_name)
    if draws is None:
        draws = (4, 10) if ctx.thorough else (1, 1)
    n_plain, n_exotic = draws
    complete = True
    # the witnesses of the known findings (open and fixed) go through the same comparison and spec oracle
    for w in WITNESSES.values():
        b.add(w["dialect"], w["req"])
    for dialect, req in constraint_stream(ctx.rng(rng_name + "/constraints")):
        b.add(dialect, req)
        ctx.hist("stream", "constraints")
    for dialect, req in kinds_battery(ctx.rng(rng_name + "/kinds")):
        b.add(dialect, req)
        ctx.hist("stream", "kinds")
    for dialect, req in names_battery(ctx.rng(rng_name + "/names")):
        b.add(dialect, req)
        ctx.hist("stream", "names")
    for dialect, req in type_pairs_battery(ctx.rng(rng_name + "/typepairs")):
        b.add(dialect, req)
        ctx.hist("stream", "typepairs")
    for dialect, req in defaults_battery(ctx.rng(rng_name + "/defaults")):
        b.add(dialect, req)
        ctx.hist("stream", "defaults")
    for dialect, req in identity_battery(ctx.rng(rng_name + "/identity")):
        b.add(dialect, req)
        ctx.hist("stream", "identity")
    for dialect, req in config_battery(ctx.rng(rng_name + "/config")):
        b.add(dialect, req)
        ctx.hist("stream", "config:" + req["config"])
    # dialects interleaved innermost-last so that a time-capped search still sees every dialect
    for requested in subsets(REQ_ATTRS):
        if over():
            complete = False
            break
        for stated in subsets(EX_ATTRS):
            for dialect in ai.DIALECTS:
                for schema in (False, True):
                    for _ in range(n_plain):
                        b.add(dialect, draw_values(rng, requested, stated, schema, False))
                    for _ in range(n_exotic):
                        b.add(dialect, draw_values(rng, requested, stated, schema, True))
    b.flush()
    shrink_failures(ctx, budget_s=15 if budget_s is None else min(15, budget_s))
    if complete:
        ctx.exhaustive = True
        ctx.extra["presence_patterns"] = 7 * 2 * 64 * 32


# ---------------------------------------------------------------------------------------------
# shrinking of failing inputs (greedy removal of request arguments, the failure kind must persist)


def _verdict(ctx, dialect, req, init):
    """-> 'schema' | 'exact' | None for one request on the real code"""
    r = ai.run_impl(dialect, req)
    stmts, unknown = ai.parse_script(dialect, r["text"])
    if unknown:
        return ("grammar", init, {"keep": None, "requested": None, "final": None}), r, stmts
    lreq = ai.to_lean(dialect, req)
    inits = [init] if init is not None else init_states(ctx.rng("shrink"), dialect, lreq)
    for i in inits:
        s = ctx.drv.ask1({"op": "alter.spec", "dialect": dialect, "req": lreq, "init": i, "stmts": stmts, "err": r["err"]})
        if "err" in s or not s.get("agrees"):
            continue
        if not s["schema"]:
            return ("schema", i, s), r, stmts
        if not s.get("address", True):
            return ("address", i, s), r, stmts
        if not s.get("constraints", True):
            return ("constraints", i, s), r, stmts
        if s.get("mustSucceed") and r["err"] is not None:
            return ("refusal", i, s), r, stmts
        if not s.get("complete", True):
            return ("constraints-missing", i, s), r, stmts
        if not s["exact"]:
            return ("exact" if s["plain"] else "exact-nonplain", i, s), r, stmts
    return None, r, stmts


def shrink_failures(ctx, per_key=1, budget_s=15):
    import time

    t0 = time.time()
    seen = {}
    extra = []
    for f in list(ctx.failures):
        if time.time() - t0 > budget_s:
            break
        if f.get("_shrunk_from") or "[shrunk]" in f["what"] or classify(f) is not None:
            continue
        kind = f["what"].split(":")[0]
        dialect = f["input"]["dialect"]
        key = (kind, dialect)
        if seen.get(key, 0) >= per_key:
            continue
        seen[key] = seen.get(key, 0) + 1
        req = json.loads(json.dumps(f["input"]["req"]))
        init = f["input"].get("init")
        changed = True
        while changed:
            changed = False
            for a in REQ_ATTRS + EX_ATTRS + ["using", "schema", "config"]:
                cur = req.get(a)
                empty = {"k": "unset"} if isinstance(cur, dict) else None
                if cur == empty or cur is None:
                    continue
                trial = dict(req)
                trial[a] = empty
                t_init = init
                if init is not None and a in EX_ATTRS:
                    t_init = init  # the initial column still agrees: fewer stated values constrain less
                v, r, stmts = _verdict(ctx, dialect, trial, t_init)
                if v is not None and v[0] == kind:
                    req = trial
                    changed = True
        v, r, stmts = _verdict(ctx, dialect, req, init)
        if v is None:
            continue
        # compact form (absent = not passed) so that the runner, which reports the smallest input, picks it
        inp = {"dialect": dialect, "req": {k: x for k, x in req.items() if x is not None and x != {"k": "unset"}}}
        if kind.startswith("exact"):
            inp["init"] = v[1]
        extra.append((inp, f["what"].split(" (")[0] + " [shrunk] (keep=%s requested=%s final=%s)" % (
            v[2]["keep"], v[2]["requested"], json.dumps(v[2]["final"])),
            {"stmts": [_strip(s) for s in stmts], "err": r["err"], "script": r["text"][:1500],
             "offenders": offenders(req, stmts), "misaddressed": misaddressed(req, stmts),
             "default_kinds": list(value_kinds({**{a: None for a in REQ_ATTRS + EX_ATTRS + ["using"]},
                                                "server_default": {"k": "unset"}, "ex_default": {"k": "unset"},
                                                "comment": {"k": "unset"}, **req})[:2])}, f["tags"]))
    for inp, what, impl, tags in extra:
        ctx.fail(inp, what, impl=impl, tags=tags)


# ---------------------------------------------------------------------------------------------
# known findings

WITNESSES = {
    "C13-TYPE-CONSTRAINT-AFTER-RENAME": {
        "dialect": "default",
        "req": {"table": "t1", "column": "c1", "schema": None, "type": "bool_ck", "nullable": None,
                "server_default": {"k": "unset"}, "new_name": "c2", "comment": {"k": "unset"},
                "autoinc": None, "ex_type": None, "ex_nullable": None, "ex_default": {"k": "unset"},
                "ex_comment": None, "ex_autoinc": None, "using": None},
    },
    "C13-PG-IDENTITY-ASSUMED": {
        "dialect": "postgresql",
        "req": {"table": "t1", "column": "c1", "schema": None, "type": None, "nullable": None,
                "server_default": {"k": "set", "v": "five"}, "new_name": None, "comment": {"k": "unset"},
                "autoinc": None, "ex_type": None, "ex_nullable": None, "ex_default": {"k": "set", "v": "id0"},
                "ex_comment": None, "ex_autoinc": None, "using": None},
    },
    "C13-ORACLE-COMMENT-SCHEMA": {
        "dialect": "oracle",
        "req": {"table": "t1", "column": "c1", "schema": "s1", "type": None, "nullable": None,
                "server_default": {"k": "unset"}, "new_name": None, "comment": {"k": "set", "v": "hello"},
                "autoinc": None, "ex_type": None, "ex_nullable": None, "ex_default": {"k": "unset"},
                "ex_comment": None, "ex_autoinc": None, "using": None},
    },
}


def _replay_witness(ctx, w):
    r = ai.run_impl(w["dialect"], w["req"])
    stmts, unknown = ai.parse_script(w["dialect"], r["text"])
    return r, stmts, unknown


def check_witness(ctx, finding):
    w = finding.get("witness") or WITNESSES.get(finding["id"])
    if finding["id"] == "C13-PG-IDENTITY-ASSUMED":
        r, stmts, unknown = _replay_witness(ctx, w)
        if r["err"] is None and [st["k"] for st in stmts] == ["identityAlter"] and stmts[0].get("always") is None \
                and stmts[0].get("start") is None:
            return "PostgreSQL emits %r for identity -> plain default and raises nothing" % r["text"].strip()
        return None
    return None


def classify(failure):
    """narrow structural signatures of the *open* known findings (C13-ORACLE-COMMENT-SCHEMA and
    C13-TYPE-CONSTRAINT-AFTER-RENAME are fixed: schema / address failures are never suppressed)"""
    tags = failure.get("tags") or []
    if "exact-nonplain" in tags and "postgresql" in tags:
        impl = failure.get("impl") or {}
        kinds = tuple(impl.get("default_kinds") or ())
        stmts = impl.get("stmts") or []
        # PostgreSQL, no exception, an identity is involved on one side only (or the existing default is unstated),
        # and the only default-related statement is the identity ALTER (SET GENERATED / SET START WITH / nothing)
        # ... and the default is the ONLY attribute that is wrong (Lean verdict with the default request taken out)
        if (impl.get("err") is None
                and impl.get("only_default") is True
                and kinds in (("identity", "unset"), ("identity", "plain"), ("plain", "identity"))
                and any(st["k"] == "identityAlter" for st in stmts)
                and not any(st["k"] in ("default", "identityAdd", "identityDrop") for st in stmts)):
            return "C13-PG-IDENTITY-ASSUMED"
    return None


def search(ctx):
    # only reached when the correspondence / a proof is broken and the main run found no failing input:
    # one more pass with fresh values, capped at 12 s (every dialect is visited within the cap)
    run(ctx, rng_name="search", draws=(1, 1), budget_s=12)


def replay(ctx, case):
    inp = case["input"]
    dialect, req = inp["dialect"], inp["req"]
    r = ai.run_impl(dialect, req)
    stmts, unknown = ai.parse_script(dialect, r["text"])
    lreq = ai.to_lean(dialect, req)
    m = ctx.drv.ask1({"op": "alter.run", "dialect": dialect, "req": lreq})
    inits = [inp["init"]] if "init" in inp else init_states(ctx.rng("replay"), dialect, lreq)
    specs = []
    if not unknown:
        for init in inits:
            specs.append({"init": init, "verdict": ctx.drv.ask1(
                {"op": "alter.spec", "dialect": dialect, "req": lreq, "init": init, "stmts": stmts, "err": r["err"]})})
    return {"script": r["text"], "impl_error": r["err"], "impl_statements": stmts, "unparsed": unknown, "model": m, "spec": specs}
