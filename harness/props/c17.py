"""C17 - a generated revision file reloads as the revision that was requested.

Implementation side (always on): sequences of `ScriptDirectory.generate_revision` /
`command.revision` / `command.merge` calls in a scratch directory.  After EACH call

  * the file's module attributes (and the text of its four identifier assignments, judged by
    the Lean literal parser `Spec.Gen.denotesB`) are compared with the requested values,
  * `view(incrementally updated revision_map)` is compared with
    `view(ScriptDirectory.from_config(cfg).revision_map)` by the Lean checker `Spec.Gen.sameViewB`,
  * both views, the written values, the file name and "does the docstring close" are compared
    with the Lean model (`genCall` = `generateRevision` + `addRevision`, `load`, `fileName`, `docOk`).

A second, much faster stream drives the real `RevisionMap.add_revision` on fake revisions
(no files) against a fresh `RevisionMap` of the extended history.
"""
from __future__ import annotations

import ast
import datetime
import os
import warnings

from alembic.script import ScriptDirectory
from alembic.script import base as script_base

from .. import gen_impl as G
from .. import rev_impl
from ..gen_graph import all_histories, gen_history
from ..render_py import cps, from_cps, nonprintable

PROPERTY = "C17"
DRIVER = "drv_gen"
THEOREMS = [
    "C17.repr_roundtrip",
    "C17.repr_file",
    "C17.repr_injective",
    "C17.incremental",
    "C17.incremental_given_reload",
    "C17.generate_labels_fresh",
    "C17.generate_refuses_present_id",
    "C17.generate_refuses_taken_label",
    "C17.generate_refuses_unencodable",
    "C17.generate_refuses_taken_file",
    "C17.filename_default_injective",
    "C17.stepCallF_files",
    "C17.runCallsF_files",
    "C17.generate_error_kind",
    "C17.accepted_labels_pass_add_revision",
    "C17.stepCall_refused",
    "C17.message_counterexample",
    "C17.message_partial",
    "C17.filename_suffix",
    "C17.filename_accepted",
    "C17.filename_counterexample",
    "C17.filename_default_partial",
]
PARTIAL = {
    "C17.message_partial": "full statement C17.message_statement is false (F12): the template pastes message, ids and date unescaped; proved for texts without double quote, backslash and NUL",
    "C17.filename_default_partial": "full statement C17.filename_statement is false: a revision id starting with '.#' or '__init__.' gives a file name the loader skips (generate_revision then returns None); proved for the default template and ids starting with a letter or digit",
}
TRUSTED = [
    "Mako substitution is literal substitution of the template arguments; the Python tokenizer/importer and the filesystem are exercised live, not proved",
    "`\\w` and str.lower() (Unicode database) are parameters of the slug model; the harness passes the classification of the non-ASCII characters of each message",
    "identifier resolution (get_revisions/get_revision, property C16) on a freshly loaded directory defines what the arguments request",
]
RULE = (
    "(a) sequences of 3-8 generate_revision/command.revision/command.merge calls per scratch directory x "
    "{file_template, truncate_slug_length, one|two version_locations, recursive_version_locations, output_encoding default|ascii|utf-8}; version_path none|location|"
    "sub-directory|sibling with a location's name as prefix|unrelated, absolute|relative; arguments: message class, rev_id given|generated, "
    "head selection (default, head id, partial id, label@head, base, heads, several heads, spliced non-head, non-head without splice), "
    "branch label (fresh|taken|tuple), depends_on (id|partial id|label|label@head|label@id|label@partial|head|missing|several); "
    "after a REFUSED call the directory must reload as the same history and the in-memory map must be unchanged; (b) add_revision on fake revisions over random "
    "and (thorough) all histories with <=3 revisions; a case is non-trivial when the call is accepted and the history has >=2 revisions; "
    "distinct by (view after the call, arguments)"
)
ASSUMPTIONS = [
    "revision ids are new (a repeated --rev-id only warns in alembic and is outside the property)",
    "lone surrogates are outside the string model (Lean Char = Unicode scalar value)",
]

# ---------------------------------------------------------------------------------------
# generators

MSG_CLASSES = {
    "plain": ["add user table", "create index", "x", "fix", "Add Column Foo_bar 2", "a  b   c"],
    "quotes": ["it's", 'say "hi"', "'", '"', 'ends with "', "''", '""', 'a "quoted" \'mix\'', '"start'],
    "newline": ["line one\nline two", "a\n\nb", "trailing\n", "\nleading", "tab\there", "cr\rhere"],
    "nonascii": ["caf\u00e9 table", "\u65e5\u672c\u8a9e\u306e\u30c6\u30fc\u30d6\u30eb", "emoji \U0001f600 here", "nb\u00a0sp", "\u00dcBER gro\u00df", "\u0130stanbul"],
    "long": ["this is a rather long message that certainly exceeds the default slug length limit of forty", "averyveryveryveryveryveryveryveryverylongwordwithoutanyunderscore here", "a_b " * 15],
    "punct": ["100% done", "${message} <%text>", "## not a comment", "% if x:", "a-b+c@d", "__init__", "...", "{} {0} %(rev)s"],
    "empty": ["", None, " "],
}
F12_MESSAGES = [
    "C:\\xyz", 'triple """ quote', '"""', "bad \\N{ name", "\\u12", "\\U0011ffff0", "nul \x00 byte", "\\x", "path \\users\\new",
    'ends """', "\\xzz", 'a""""b',
]
BACKSLASH_OK = ["tab \\t ok", "trailing backslash \\", "octal \\101", "\\d regex", "win\\path"]  # valid escapes: must load

TEMPLATES = [
    None, None, None,
    "%(rev)s_%(slug)s",
    "%(year)d_%(month).2d_%(day).2d_%(hour).2d%(minute).2d-%(rev)s_%(slug)s",
    "%(slug)s_%(rev)s",
    "%(epoch)s_%(rev)s",
    "%(rev)s",
    "%(year)d/%(rev)s_%(slug)s" if False else "%(year)04d%(month)02d%(day)02d_%(second)d_%(rev)s_%(slug)s",
    "rev%%_%(rev)s_%(slug)s",
]


def gen_message(rng):
    k = rng.choice(["plain", "plain", "quotes", "quotes", "newline", "nonascii", "nonascii", "long", "punct", "empty"])
    return rng.choice(MSG_CLASSES[k]), k


ILLEGAL_IDS = ["a-b1", "x+y2", "r@v3", "-lead"]
ODD_IDS = ["it's", 'q"q', "r \u00e9v", "A.B", "x_1", "\u65e5\u672c", "sp ace", "(paren)", "per%cent", "1a", "abc"]


def gen_rev_id(rng, taken):
    while True:
        r0 = rng.random()
        if taken and r0 < 0.06:
            # a different id that differs from a taken one only in punctuation (rel.2024.1 / rel_2024_1)
            base = rng.choice(sorted(taken))
            s = base.replace(".", "_") if "." in base else base.replace("_", ".") if "_" in base else base + ".1"
        elif rng.random() < 0.15:
            s = rng.choice(ODD_IDS) + "".join(rng.choice("0123456789abcdef") for _ in range(rng.choice([0, 2, 4])))
        else:
            s = "".join(rng.choice("0123456789abcdef") for _ in range(rng.choice([4, 5, 6, 8, 12])))
        if s not in taken and s not in ("head", "heads", "base"):
            return s


def gen_label(rng, taken):
    while True:
        if rng.random() < 0.2:
            s = rng.choice(["la'bel", 'l"b', "l\u00e4bel", "br anch", "b.r", "lab_"]) + str(rng.randint(0, 99))
        else:
            s = "br" + "".join(rng.choice("xyzuvw") for _ in range(3)) + str(rng.randint(0, 9))
        if s not in taken:
            return s


class State:
    """what the generator knows about the directory: the canonical view of a fresh load"""

    def __init__(self, v):
        self.v = v
        self.ids = [r["id"] for r in v["revs"]]
        self.heads = list(v["heads"])
        self.nonheads = [i for i in self.ids if i not in self.heads]
        self.labels = {k: i for k, i in v["labelKeys"]}
        self.rev = {r["id"]: r for r in v["revs"]}

    def ident_for(self, rng, rid):
        """full id, or a unique prefix of at least one character (partial identifiers need ids longer than 3)"""
        if len(rid) > 3 and rng.random() < 0.3:
            for n in range(1, len(rid)):
                p = rid[:n]
                if sum(1 for i in self.ids if i.startswith(p)) == 1 and p not in self.labels and p not in self.ids \
                        and p not in ("head", "heads", "base") and not p.lstrip("-").isdigit():
                    if rng.random() < 0.6:
                        return p, "partial"
        return rid, "id"


def gen_call(rng, st: State, all_taken, recent=()):
    kinds = ["generate"] * 5 + ["revision"] * 2 + (["merge"] * 2 if len(st.heads) >= 2 else [])
    kind = rng.choice(kinds)
    msg, mclass = gen_message(rng)
    call = {"kind": kind, "message": msg, "mclass": mclass, "splice": False}
    # rev id
    call["ik"] = "given"
    x = rng.random()
    if x < 0.025:
        call["rev_id"] = rng.choice(ILLEGAL_IDS)          # verify_rev_id refuses @ - +
        call["ik"] = "illegal-char"
    elif x < 0.05 and (st.ids or st.labels):
        # an id that is already a key of the map (a revision id or a branch label): refused before the write
        call["rev_id"] = rng.choice(st.ids + sorted(st.labels))
        call["ik"] = "repeated"
    elif x < 0.09 and any(len((m_ or "").split()) >= 2 for _, m_ in recent):
        # another revision whose id + "_" + slug is the file name of an earlier one (a_b + c / a + b c): refused, nothing replaced
        rid0, m0 = rng.choice([(i_, m_) for i_, m_ in recent if len((m_ or "").split()) >= 2])
        w = m0.split()
        call["rev_id"] = rid0 + "_" + w[0].lower()
        call["message"] = " ".join(w[1:])
        call["mclass"] = "collides"
        call["ik"] = "file-name-of-another"
        if call["rev_id"] in all_taken:
            call["rev_id"] = gen_rev_id(rng, all_taken)
            call["ik"] = "given"
    elif kind == "generate" or rng.random() < 0.6:
        call["rev_id"] = gen_rev_id(rng, all_taken)
    else:
        call["rev_id"] = None
        call["ik"] = "generated"
    if kind == "revision" and rng.random() < 0.12:
        call["sql"] = True
    # head selection
    hk = "default"
    if kind == "merge":
        k = rng.choice([2, 2, 3]) if len(st.heads) >= 3 else 2
        hs = rng.sample(st.heads, k)
        if rng.random() < 0.2:
            call["head"] = "heads"
            hk = "heads"
        else:
            call["head"] = [st.ident_for(rng, h)[0] for h in hs]
            hk = "several"
    else:
        opts = [("default", 25), ("base", 8)]
        if st.ids:
            opts += [("head-id", 22), ("heads", 3)]
            opts.append(("label@head", 10 if st.labels else 3))
            if len(st.heads) >= 2:
                opts.append(("several", 10))
            if st.nonheads:
                opts += [("splice", 14), ("nonhead-nosplice", 4)]
            if st.heads:
                opts.append(("dup", 3))
        tot = sum(w for _, w in opts)
        x = rng.random() * tot
        for hk, w in opts:
            x -= w
            if x < 0:
                break
        if hk == "default":
            if kind == "generate" and rng.random() < 0.5:
                call["head"] = None
            else:
                call["head"] = "head"
        elif hk == "head-id":
            h = rng.choice(st.heads)
            ident, how = st.ident_for(rng, h)
            call["head"] = ident
            hk = "head-" + how
        elif hk == "base":
            call["head"] = "base"
        elif hk == "label@head":
            if not st.labels or rng.random() < 0.3:
                # the part before @ may also be a (partial) revision id (_resolve_branch falls back to it)
                call["head"] = st.ident_for(rng, rng.choice(st.ids))[0] + "@head"
                hk = "id@head"
            else:
                call["head"] = rng.choice(sorted(st.labels)) + "@head"
        elif hk == "several":
            call["head"] = [st.ident_for(rng, h)[0] for h in rng.sample(st.heads, 2)]
        elif hk == "splice":
            call["head"] = st.ident_for(rng, rng.choice(st.nonheads))[0]
            call["splice"] = True
        elif hk == "nonhead-nosplice":
            call["head"] = rng.choice(st.nonheads)
        elif hk == "dup":
            h = rng.choice(st.heads)
            call["head"] = [h, h]
        elif hk == "heads":
            call["head"] = "heads"
    call["hk"] = hk
    # branch label
    lk = "none"
    r = rng.random()
    if r < 0.3:
        call["branch_label"] = gen_label(rng, all_taken)
        lk = "fresh"
    elif r < 0.34 and kind == "generate":
        call["branch_label"] = [gen_label(rng, all_taken), gen_label(rng, all_taken)]
        if call["branch_label"][0] == call["branch_label"][1]:
            call["branch_label"] = call["branch_label"][:1]
        lk = "tuple"
    elif r < 0.38 and st.labels:
        call["branch_label"] = rng.choice(sorted(st.labels))
        lk = "taken"
    elif r < 0.40 and st.ids:
        call["branch_label"] = rng.choice(st.ids)
        lk = "taken-id"
    elif r < 0.425 and call.get("rev_id") is not None:
        # a name the call itself introduces: the label spelled like the new revision's own id
        call["branch_label"] = call["rev_id"] if rng.random() < 0.6 else [gen_label(rng, all_taken), call["rev_id"]]
        lk = "own-id"
    elif r < 0.45 and kind == "generate":
        l = gen_label(rng, all_taken)
        call["branch_label"] = [l, l] if rng.random() < 0.6 else [l, gen_label(rng, all_taken), l]
        lk = "same-label-twice"
    call["lk"] = lk
    # depends_on (command.merge has none)
    dk = "none"
    if kind != "merge" and st.ids and rng.random() < 0.4:
        n = rng.choice([1, 1, 2])
        deps, kinds_ = [], []
        for _ in range(n):
            r = rng.random()
            if r < 0.18 and st.labels:
                deps.append(rng.choice(sorted(st.labels)))
                kinds_.append("label")
            elif r < 0.30 and st.labels:
                # symbolic forms that get_revision() resolves: label@head, label@<id or partial id of the branch>
                lab = rng.choice(sorted(st.labels))
                members = [i for i in st.ids if lab in st.rev[i]["labels"]]
                if members and rng.random() < 0.5:
                    ident, how = st.ident_for(rng, rng.choice(members))
                    deps.append("%s@%s" % (lab, ident))
                    kinds_.append("label@" + how)
                else:
                    deps.append(lab + "@head")
                    kinds_.append("label@head")
            elif r < 0.35:
                deps.append("nosuchrev")
                kinds_.append("missing")
            elif r < 0.43:
                deps.append("head")
                kinds_.append("head")
            elif r < 0.47:
                deps.append("heads")
                kinds_.append("heads")
            elif r < 0.52:
                deps.append(st.ident_for(rng, rng.choice(st.ids))[0] + "@head")
                kinds_.append("id@head")
            else:
                ident, how = st.ident_for(rng, rng.choice(st.ids))
                deps.append(ident)
                kinds_.append(how)
        call["depends_on"] = deps if (len(deps) > 1 or rng.random() < 0.5) else deps[0]
        dk = "+".join(sorted(set(kinds_)))
    call["dk"] = dk
    return call


def gen_date(rng):
    return datetime.datetime(
        rng.choice([1999, 2009, 2024, 2026]), rng.choice([1, 2, 9, 10, 12]), rng.choice([1, 7, 10, 28]),
        rng.choice([0, 5, 13, 23]), rng.choice([0, 9, 30, 59]), rng.choice([0, 1, 30, 59]),
    )


# ---------------------------------------------------------------------------------------
# model ops


def model_args(call, rid, env=None, req=None, want_file=None):
    head = call.get("head")
    extra = {}
    if env is not None and req is not None:
        # what the template is handed: message, id, resolved down revisions, labels, written dependencies
        msg = call.get("message") if call.get("message") is not None else "empty message"
        extra["encodable"] = env.encodable([msg, rid] + list(req["down"]) + list(req["labels"]) + list(req["deps"]))
    if want_file is not None:
        extra["file"] = want_file     # Model.Gen.stepCallF decides from the files of the directory whether it is taken
    if env is not None:
        vp, locs = env.model_paths(call.get("version_path"))
        extra.update({"locations": locs, "tzOk": env.tz_ok(),
                      "sqlNoEnv": bool(call.get("sql")) and call.get("kind") == "revision" and not env.revision_environment})
        if vp is not None:
            extra["versionPath"] = vp
    return {
        **extra,
        "revid": rid,
        "heads": ["head"] if head is None else G._tl(head),
        "splice": bool(call.get("splice")),
        "labels": G._tl(call.get("branch_label")),
        "deps": G._tl(call.get("depends_on")),
    }


def val_json(x):
    """None | str | tuple/list of str  ->  driver value"""
    if x is None:
        return None
    if isinstance(x, str):
        return ["str", cps(x)]
    return ["tuple", [cps(e) for e in x]]


def scalar(lst):
    """tuple_rev_as_scalar"""
    if not lst:
        return None
    if len(lst) == 1:
        return lst[0]
    return tuple(lst)


def path_op(env, rid, message, dt):
    msg = message or ""
    extra = sorted({ord(c) for c in msg if ord(c) > 127 and script_base._slug_re.fullmatch(c)})
    lower = [[ord(c), cps(c.lower())] for c in sorted(set(msg)) if ord(c) > 127 and c.lower() != c]
    return {
        "op": "gen.path", "template": cps(env.file_template), "rev": cps(rid), "message": cps(msg), "trunc": env.trunc,
        "extraWord": extra, "lower": lower, "epoch": int(dt.timestamp()), "year": dt.year, "month": dt.month,
        "day": dt.day, "hour": dt.hour, "minute": dt.minute, "second": dt.second,
    }


def expected_dir(env, fresh_before, call, req):
    """the version location generate_revision writes into, from the configuration and the request: the given
    --version-path when it is a location; else the only location; else the directory of the first resolved head"""
    spec = call.get("version_path")
    if spec is not None:
        if isinstance(spec, dict) and spec.get("kind") != "location":
            return None
        return os.path.normpath(os.path.abspath(env.version_path(spec)))
    if len(env.locations) == 1:
        return os.path.normpath(env.locations[0])
    if req is None:
        return None
    for d in req["down"]:
        sc = fresh_before.revision_map._revision_map.get(d)
        if sc is not None and getattr(sc, "path", None):
            return os.path.normpath(os.path.dirname(sc.path))
    return None


def in_f12_class(*texts):
    """the texts pasted into the docstring contain a `\"\"\"`, a backslash or a NUL"""
    return any(t is not None and ('"""' in t or "\\" in t or "\x00" in t) for t in texts)


# ---------------------------------------------------------------------------------------
# (a) file based sequences


class fixed_date:
    def __init__(self, dt):
        self.dt = dt

    def __enter__(self):
        self.orig = ScriptDirectory._generate_create_date
        dt = self.dt
        ScriptDirectory._generate_create_date = lambda self_: dt

    def __exit__(self, *a):
        ScriptDirectory._generate_create_date = self.orig


def judge_refused(ctx, env, sd, call, rid, res, inp, before_view, extra_tags=()):
    """a refused call must leave the directory loadable and unchanged, on disk and in memory"""
    left = [os.path.relpath(f, env.dir) for f in res["new_files"]]
    problems = []
    try:
        with warnings.catch_warnings():
            warnings.simplefilter("ignore")
            after = G.view(env.fresh().revision_map)
        if after != before_view:
            problems.append("the directory reloads as a different history (%s)" % ",".join(G.view_diff(before_view, after)))
    except Exception as e:  # noqa
        problems.append("the directory no longer loads (%s: %s)" % (type(e).__name__, str(e)[:120]))
    if call["kind"] == "generate":
        try:
            mem = G.view(sd.revision_map)
            if mem != before_view:
                problems.append("the in-memory history was changed (%s)" % ",".join(G.view_diff(before_view, mem)))
        except Exception as e:  # noqa
            problems.append("the in-memory history is unusable (%s)" % type(e).__name__)
    ctx.hist("refused_call_state", "clean" if not problems else "; ".join(p.split(" (")[0] for p in problems))
    if problems:
        keys = {r["id"] for r in before_view["revs"]} | {k for k, _ in before_view["labelKeys"]} | {rid}
        dup = res["err"] == "revisionError" and any(l in keys for l in G._tl(call.get("branch_label")))
        ctx.fail(inp, "refused: the call was refused (%s) but %s; file left behind: %s" % (res["err"], "; ".join(problems), left),
                 impl={"error": res.get("exc"), "files": left}, tags=(["dup-label"] if dup else []) + list(extra_tags))


def check_call(ctx, env, sd, model_m_hist, seg_calls, call, rid, dt, fresh_before, stream):
    """runs one call on the implementation and performs every implementation-side check.
    returns (result dict, fresh_after or None)"""
    inp = {"call": {k: v for k, v in call.items()}, "rid": rid, "history": G.hist_of_map(fresh_before.revision_map),
           "file_template": env.file_template, "trunc": env.trunc, "locations": len(env.locations), "recursive": env.recursive, "stream": stream,
           "options": env.options()}
    try:
        req = G.requested(fresh_before, call, rid)
        unordered = req.pop("down_unordered")
    except Exception as e:  # the arguments do not resolve: nothing is requested
        req = None
        unordered = False
        inp["request_error"] = rev_impl.err_name(e)
    before_view = G.view(fresh_before.revision_map)   # taken now: the call may mutate this very map
    # the files each version location holds before the call, and - decided here, from the configuration, the model's
    # file name and the request, not from what the implementation does - whether the name this call maps to is taken
    pre_files = {}
    for loc in env.locations:
        try:
            pre_files[os.path.normpath(loc)] = set(os.listdir(loc))
        except OSError:
            pre_files[os.path.normpath(loc)] = set()
    file_taken = None
    want_file = None
    if not getattr(env, "real_date", False) or not any(t in env.file_template for t in ("epoch", "year", "month", "day", "hour", "minute", "second")):
        want_dir = expected_dir(env, fresh_before, call, req)
        if want_dir is not None:
            a_ = ctx.drv.ask1(path_op(env, rid, call.get("message"), dt))
            if "name" in a_:
                want_file = os.path.join(want_dir, from_cps(a_["name"]))
                file_taken = from_cps(a_["name"]) in pre_files.get(want_dir, set())
    if getattr(env, "real_date", False):
        res = G.run_call(env, sd, call, rid)
    else:
        with fixed_date(dt):
            res = G.run_call(env, sd, call, rid)
    ctx.evaluation()
    out = {"res": res, "req": req, "inp": inp, "file_taken": file_taken, "want_file": want_file,
           "files_before": sorted(os.path.join(d_, f_) for d_, fs_ in pre_files.items() for f_ in fs_)}
    if file_taken is not None:
        ctx.hist("file_name_taken", file_taken)
    if "err" not in res and res.get("script") is not None:
        p_ = res["script"].path
        if os.path.basename(p_) in pre_files.get(os.path.normpath(os.path.dirname(p_)), set()):
            # an accepted call wrote over a file that was there before: the earlier revision is gone from the disk
            ctx.fail(inp, "overwrote: the accepted call wrote its revision into %s, which already held another revision; "
                          "that revision no longer loads back" % os.path.relpath(p_, env.dir),
                     impl={"file": os.path.basename(p_), "files_before": sorted(pre_files.get(os.path.normpath(os.path.dirname(p_)), set()))[:12]},
                     tags=["overwrote"])
    if "err" in res:
        ctx.hist("impl_error", res["err"])
        # an accepted request whose file then does not load: the property fails on the real code
        if res["err"].startswith("fileDoesNotLoad") and req is not None:
            ctx.fail(inp, "docstring: the generated file does not load (%s)" % res["exc"], impl={"files": [os.path.basename(f) for f in res["new_files"]]},
                     tags=["f12-class"] if in_f12_class(call.get("message"), rid) else [])
        else:
            judge_refused(ctx, env, sd, call, rid, res, inp, before_view)
        for f in res["new_files"]:
            env.unlink(f)
        return out, None
    script = res["script"]
    if script is None:
        # the written file is not a revision file name
        out["ignored"] = [os.path.basename(f) for f in res["new_files"]]
        for f in res["new_files"]:
            env.unlink(f)
        return out, None
    # fresh load
    try:
        with warnings.catch_warnings():
            warnings.simplefilter("ignore")
            fresh = env.fresh()
            fv = G.view(fresh.revision_map)
    except Exception as e:  # noqa
        ctx.fail(inp, "reload: the directory does not load after an accepted call (%s: %s)" % (type(e).__name__, str(e)[:200]))
        for f in res["new_files"]:
            env.unlink(f)
        return out, None
    out["fresh_view"] = fv
    out["fresh_hist"] = G.hist_of_map(fresh.revision_map)
    out["inc_view"] = G.view(res["rm"]) if res["rm"] is not None else None
    out["attrs"] = G.file_attrs(script)
    out["path"] = script.path
    with open(script.path, encoding="utf-8", newline="") as f:
        out["src"] = f.read()
    if getattr(env, "real_date", False):
        # the date alembic chose (timezone option): read back from the docstring
        import re as _re
        m_ = _re.search(r"^Create Date: (.*)$", out["src"], _re.M)
        out["real_dt"] = datetime.datetime.fromisoformat(m_.group(1)) if m_ else None
    # file attributes of the freshly loaded revision = requested
    fr = fresh.revision_map._revision_map.get(rid)
    if fr is None or fr.revision != rid:
        ctx.fail(inp, "reload: the generated revision is not loaded by a fresh ScriptDirectory (file %s)" % os.path.relpath(script.path, env.dir),
                 impl={"ids": [r["id"] for r in fv["revs"]], "incremental_ids": [r["id"] for r in (out["inc_view"] or {"revs": []})["revs"]]})
        for f in res["new_files"]:
            env.unlink(f)
        out.pop("fresh_view")
        out["unloaded"] = True
        return out, None
    else:
        got = G.file_attrs(fr)
        if req is not None and unordered and sorted(got["down"]) == sorted(req["down"]):
            req["down"] = got["down"]  # `heads`: the order in which the heads are written is not part of the request
        if req is not None and got != req:
            ctx.fail(inp, "attrs: the reloaded revision is not the requested one", impl={"loaded": got, "requested": req})
    return out, fresh


def run_sequences(ctx, n_seq, rng_name="seq", f12=False):
    rng = ctx.rng(rng_name)
    for si in range(n_seq):
        tmpl = rng.choice(TEMPLATES)
        trunc = rng.choice([None, None, None, 5, 12, 1, 60])
        two = rng.random() < 0.25
        rec = rng.random() < 0.4
        # options that a user can combine with the revision/merge commands (each a small fixed set)
        tz = None if f12 else rng.choice([None] * 14 + ["UTC", "utc", "Europe/Paris", "Asia/Kolkata", "europe/berlin", "Mars/Phobos"])
        real_date = tz is not None or (not f12 and rng.random() < 0.1)   # the real _generate_create_date instead of a generated date
        sourceless = rng.random() < 0.15
        rev_env = rng.random() < 0.07
        hooks = rng.random() < 0.08
        # an output_encoding that cannot represent every message (a call whose text does not fit must be refused cleanly)
        enc = None if f12 else rng.choice([None] * 8 + ["ascii", "ascii", "utf-8"])
        # sourceless directories that still hold their sources: Python caches the byte code next to them
        bytecode = sourceless and rng.random() < 0.7
        env = G.Scratch(file_template=tmpl, trunc=trunc, two_locations=two, recursive=rec, timezone=tz, sourceless=sourceless,
                        revision_environment=rev_env, hooks=hooks, output_encoding=enc, bytecode=bytecode)
        ctx.hist("options", "byte code cached next to the sources=%s" % bytecode)
        ctx.hist("options", "output_encoding=%s" % enc)
        env.real_date = real_date
        ctx.hist("config", "template=%s trunc=%s locations=%d" % (tmpl, trunc, 2 if two else 1))
        ctx.hist("recursive_version_locations", rec)
        ctx.hist("options", "timezone=%s create_date=%s" % (tz, "real" if real_date else "generated"))
        ctx.hist("options", "sourceless=%s" % sourceless)
        ctx.hist("options", "revision_environment=%s" % rev_env)
        ctx.hist("options", "post_write_hooks=%s" % hooks)
        try:
            run_one_sequence(ctx, rng, env, rng.randint(3, 8 if not ctx.thorough else 10), f12)
        finally:
            env.close()


def run_one_sequence(ctx, rng, env, n_calls, f12, scripted=None):
    with warnings.catch_warnings():
        warnings.simplefilter("ignore")
        sd = env.fresh()
        fresh = sd
    all_taken = set()
    # one segment = lifetime of one incrementally updated ScriptDirectory
    seg_hist0 = G.hist_of_map(sd.revision_map)
    seg_calls = []      # model args of the accepted/refused calls of this segment, in order
    seg_records = []    # (index into seg_calls, out)
    pending = []        # finished segments: (hist0, calls, records)
    for ci in range(n_calls if scripted is None else len(scripted)):
        st = State(G.view(fresh.revision_map))
        if scripted is not None:
            call = dict({"kind": "generate", "message": "m", "mclass": "battery", "splice": False, "hk": "battery", "lk": "battery",
                         "dk": "battery", "ik": "battery"}, **scripted[ci])
        else:
            # (with the real clock the date tokens of the name are not known before the call: no deliberate collisions there)
            call = gen_call(rng, st, all_taken, () if getattr(env, "real_date", False) else getattr(env, "recent", ()))
        if f12:
            if rng.random() < 0.75:
                call["message"] = rng.choice(F12_MESSAGES)
                call["mclass"] = "f12"
            else:
                call["message"] = rng.choice(BACKSLASH_OK)
                call["mclass"] = "backslash-ok"
        # version_path: a configured location, or (must be refused) a sub-directory of one, a sibling whose
        # name starts with a location's name, an unrelated directory; absolute or relative to the cwd
        vk = "none"
        x = rng.random()
        nloc = len(env.locations)
        if call["kind"] == "merge" or scripted is not None:
            pass  # command.merge has no version_path; a scripted call says what it wants
        elif x < 0.18:
            vk = rng.choice(["subdir", "sibling", "sibling", "sibling2", "unrelated"])
            call["version_path"] = {"kind": vk, "idx": rng.randrange(nloc), "relative": rng.random() < 0.3}
        elif nloc > 1 and ((call.get("head") == "base" or not st.ids) and rng.random() < 0.8 or x < 0.45):
            # with two version locations a new root needs an explicit --version-path
            vk = "location"
            call["version_path"] = {"kind": "location", "idx": rng.randrange(nloc), "relative": rng.random() < 0.3}
        elif x < 0.30:
            vk = "location"
            call["version_path"] = {"kind": "location", "idx": rng.randrange(nloc), "relative": rng.random() < 0.3}
        if vk != "none" and call["version_path"].get("relative"):
            vk += "-relative"
        ctx.hist("version_path", vk)
        rid = call["rev_id"] if call.get("rev_id") is not None else G_next_id(rng, all_taken)
        all_taken.add(rid)
        for l in G._tl(call.get("branch_label")):
            all_taken.add(l)
        dt = gen_date(rng)
        ctx.hist("call_kind", call["kind"])
        ctx.hist("message_class", call["mclass"])
        ctx.hist("head_selection", call["hk"])
        ctx.hist("branch_label", call["lk"])
        ctx.hist("depends_on", call["dk"])
        ctx.hist("rev_id", call.get("ik", "given"))
        ctx.hist("sql_option", bool(call.get("sql")))
        if call["kind"] != "generate":
            # command.* builds its own ScriptDirectory: the incremental map starts from a fresh load
            if seg_calls:
                pending.append((seg_hist0, seg_calls, seg_records))
            seg_hist0, seg_calls, seg_records = G.hist_of_map(fresh.revision_map), [], []
        out, fresh_after = check_call(ctx, env, sd, None, seg_calls, call, rid, dt, fresh, "f12" if f12 else "main")
        out["dt"] = out.get("real_dt") or dt
        seg_calls.append(model_args(call, rid, env, out.get("req"), out.get("want_file")))
        seg_records.append(out)
        accepted = fresh_after is not None
        if accepted:
            fresh = fresh_after
            ctx.hist("history_size", len(out["fresh_view"]["revs"]))
            if not hasattr(env, "recent"):
                env.recent = []
            env.recent.append((rid, call.get("message")))
        if call["kind"] != "generate" or not accepted:
            # the persistent directory is stale (command.*) or possibly half-updated (exception): restart it
            pending.append((seg_hist0, seg_calls, seg_records))
            try:
                with warnings.catch_warnings():
                    warnings.simplefilter("ignore")
                    sd = env.fresh()
                    fresh = sd
                seg_hist0, seg_calls, seg_records = G.hist_of_map(sd.revision_map), [], []
            except Exception as e:  # noqa
                # the directory no longer loads (already reported by the call that broke it): this sequence ends here
                ctx.hist("sequence_cut_short", type(e).__name__)
                seg_calls = []
                break
    if seg_calls:
        pending.append((seg_hist0, seg_calls, seg_records))
    flush_segments(ctx, env, pending)


def G_next_id(rng, taken):
    while True:
        s = "".join(rng.choice("0123456789abcdef") for _ in range(12))
        if s not in taken:
            return s


def flush_segments(ctx, env, pending):
    ops = []
    index = []
    for hist0, calls, records in pending:
        ops.append({"op": "gen.seq", "revs": hist0, "calls": calls, "files": records[0].get("files_before", []) if records else []})
        index.append(("seq", records))
        for k, out in enumerate(records):
            res = out["res"]
            call = out["inp"]["call"]
            rid = out["inp"]["rid"]
            if "fresh_view" in out:
                ops.append({"op": "gen.spec.view", "a": out["inc_view"], "b": out["fresh_view"]})
                index.append(("specview", out))
                ops.append({"op": "gen.fresh", "revs": out["fresh_hist"]})
                index.append(("fresh", out))
                texts = G.assignment_texts(out["src"])
                req = out["req"]
                if req is not None:
                    want = {"revision": req["id"], "down_revision": req["down"], "branch_labels": req["labels"], "depends_on": req["deps"]}
                    for name, t in texts.items():
                        tc = cps(t if t is not None else "")
                        if name == "revision":
                            ops.append({"op": "gen.spec.denotes", "text": tc, "val": val_json(want[name])})
                        else:
                            ops.append({"op": "gen.spec.denotesSeq", "text": tc, "seq": [cps(e) for e in want[name]]})
                        index.append(("denotes", (out, name, t, want[name])))
                ops.append(path_op(env, rid, call.get("message"), out["dt"]))
                index.append(("path", out))
            if "fresh_view" in out or str(res.get("err", "")).startswith("fileDoesNotLoad") or "ignored" in out:
                down = out["req"]["down"] if out["req"] else []
                date = str(out["dt"])
                msg = call.get("message") if call.get("message") is not None else "empty message"
                ops.append({"op": "gen.doc", "message": cps(msg), "revid": cps(rid), "down": [cps(d) for d in down], "date": cps(date)})
                index.append(("doc", out))
            if "ignored" in out:
                ops.append(path_op(env, rid, call.get("message"), out["dt"]))
                index.append(("path-ignored", out))
    ans = ctx.drv.ask(ops)
    for (what, obj), op, a in zip(index, ops, ans):
        if what == "seq":
            records = obj
            if "loadErr" in a:
                ctx.disagree("gen.seq", {"revs": op["revs"]}, "loads", a)
                continue
            for out, m in zip(records, a["results"]):
                compare_call(ctx, out, m, op)
        elif what == "specview":
            out = obj
            if a.get("holds") is not True:
                ctx.fail(out["inp"], "incremental: the in-memory history differs from the reloaded one in %s" % ",".join(a.get("differ", [])),
                         impl={"incremental": out["inc_view"], "fresh": out["fresh_view"]},
                         tags=["differ:" + ",".join(sorted(a.get("differ", [])))] + (["model-agrees"] if out.get("model_agrees") else []))
        elif what == "fresh":
            out = obj
            if "ok" not in a or G.canon_view(a["ok"]) != out["fresh_view"]:
                ctx.disagree("gen.fresh", {"revs": op["revs"]}, out["fresh_view"], a)
            else:
                ctx.trace_ok()
        elif what == "denotes":
            out, name, t, want = obj
            if a.get("holds") is not True:
                ctx.fail(out["inp"], "repr: the text of the %s assignment does not denote the requested value" % name,
                         impl={"text": t, "requested": want})
        elif what == "path":
            out = obj
            base = os.path.basename(out["path"])
            if "name" not in a or from_cps(a["name"]) != base:
                ctx.disagree("gen.path", {k: v for k, v in op.items()}, base, a)
            else:
                ctx.trace_ok()
                if a.get("isRevFile") is not True:
                    ctx.disagree("gen.path.isRevFile", op, "loaded", a)
        elif what == "path-ignored":
            out = obj
            names = out["ignored"]
            if "name" not in a or [from_cps(a["name"])] != names or a.get("isRevFile") is not False:
                # generate_revision returned no Script although the model says the name is a revision file name
                ctx.fail(out["inp"], "filename: the generated file %r is not picked up as a revision file" % names, impl={"files": names})
            else:
                ctx.hist("ignored_file_name", "model agrees")
        elif what == "doc":
            out = obj
            loaded = "fresh_view" in out or "ignored" in out
            if a.get("ok") is True and not loaded:
                ctx.disagree("gen.doc", op, "file does not load: " + out["res"].get("exc", ""), a)
            elif a.get("ok") is True:
                ctx.trace_ok()
            ctx.hist("docstring", "model ok=%s impl loads=%s" % (a.get("ok"), loaded))


def compare_call(ctx, out, m, op):
    res = out["res"]
    inp = out["inp"]
    if "err" in res:
        if res["err"].startswith("fileDoesNotLoad"):
            return  # judged by the docstring model
        if "err" not in m:
            ctx.disagree("gen.seq.call", inp, {"err": res["err"], "exc": res.get("exc")}, m)
        elif m["err"] != res["err"]:
            ctx.disagree("gen.seq.err", inp, res["err"], m["err"])
        else:
            ctx.trace_ok()
        return
    if "ignored" in out or "unloaded" in out:
        return
    if "ok" not in m:
        ctx.disagree("gen.seq.call", inp, {"accepted": out.get("attrs")}, m)
        return
    mrev = m["ok"]["rev"]
    if mrev != out.get("attrs"):
        ctx.disagree("gen.seq.rev", inp, out.get("attrs"), mrev)
        return
    if out.get("inc_view") is None:
        ctx.disagree("gen.seq.view", inp, None, "no incremental map captured")
        return
    mv = G.canon_view(m["ok"]["view"])
    if mv != out["inc_view"]:
        ctx.disagree("gen.seq.view", inp, out["inc_view"], mv, note="differ in %s" % G.view_diff(out["inc_view"], mv))
        return
    out["model_agrees"] = True
    ctx.trace_ok()
    if len(out["inc_view"]["revs"]) >= 2:
        ctx.nontrivial(("seq", repr(out["inc_view"]), repr(op["calls"][-1] if op["calls"] else None)))
    ctx.sample({"call": {k: v for k, v in inp["call"].items() if k not in ("mclass", "hk", "lk", "dk")},
                "file": os.path.basename(out["path"]), "written": out["attrs"]})


# ---------------------------------------------------------------------------------------
# (b) add_revision on fake revisions (no files)


def gen_addition(rng, hist, k):
    ids = [r["id"] for r in hist]
    children = {i: 0 for i in ids}
    for r in hist:
        for d in r["down"]:
            if d in children:
                children[d] += 1
    heads = [i for i in ids if children[i] == 0]
    r = rng.random()
    if not ids or r < 0.12:
        down = []
    elif r < 0.6:
        down = [rng.choice(heads)] if heads else []
    elif r < 0.8:
        down = [rng.choice(ids)]
    else:
        pool = heads if len(heads) >= 2 and rng.random() < 0.7 else ids
        down = rng.sample(pool, min(2, len(pool)))
    deps = []
    if ids and rng.random() < 0.3:
        pool = [i for i in ids if i not in down]
        labels_in = [l for x in hist for l in x["labels"]]
        for _ in range(rng.choice([1, 1, 2])):
            if labels_in and rng.random() < 0.25:
                deps.append(rng.choice(labels_in))
            elif pool:
                c = rng.choice(pool)
                pool.remove(c)
                deps.append(c)
    labels = ["nl%d" % k] if rng.random() < 0.3 else []
    taken = [l for x in hist for l in x["labels"]] + ids
    if taken and rng.random() < 0.04:
        labels = [rng.choice(taken)]   # _map_branch_labels must refuse it
    return {"id": "new%d" % k, "down": down, "deps": deps, "labels": labels}


def fake_case(ctx, hist, adds, pending, exhaustive=False):
    res, err = G.add_fake(hist, adds)
    ctx.evaluation()
    if res is None:
        ctx.hist("fake.history_load_error", err["err"])
        return
    pending.append((hist, adds, res))


def flush_fake(ctx, pending):
    ops, index = [], []
    for hist, adds, res in pending:
        ops.append({"op": "gen.add", "revs": hist, "adds": adds})
        index.append(("add", (hist, adds, res)))
        cur = list(hist)
        for r, one in zip(adds, res):
            if "err" in one:
                break
            cur = cur + [r]
            inp = {"history": cur[:-1], "add": r, "stream": "fake"}
            if "fresh" in one:
                ops.append({"op": "gen.fresh", "revs": cur})
                index.append(("fresh", (inp, one)))
                ops.append({"op": "gen.spec.view", "a": one["inc"], "b": one["fresh"]})
                index.append(("spec", (inp, one)))
            else:
                ops.append({"op": "gen.fresh", "revs": cur})
                index.append(("freshErr", (inp, one)))
    ans = ctx.drv.ask(ops)
    for (what, obj), op, a in zip(index, ops, ans):
        if what == "add":
            hist, adds, res = obj
            if "loadErr" in a:
                ctx.disagree("gen.add", {"revs": hist}, "loads", a)
                continue
            for k, (one, m) in enumerate(zip(res, a["results"])):
                inp = {"history": hist, "adds": adds[: k + 1]}
                if "err" in one:
                    if m.get("err") != one["err"]:
                        ctx.disagree("gen.add.err", inp, one["err"], m)
                    else:
                        ctx.trace_ok()
                    break
                if "ok" not in m or G.canon_view(m["ok"]) != one["inc"]:
                    ctx.disagree("gen.add.view", inp, one["inc"], m)
                    break
                one["model_agrees"] = True
                ctx.trace_ok()
                if len(one["inc"]["revs"]) >= 2:
                    ctx.nontrivial(("fake", repr(one["inc"])))
        elif what == "fresh":
            inp, one = obj
            if "ok" not in a or G.canon_view(a["ok"]) != one["fresh"]:
                ctx.disagree("gen.fresh", inp, one["fresh"], a)
            else:
                ctx.trace_ok()
        elif what == "freshErr":
            inp, one = obj
            # add_revision accepted a revision with which the history no longer loads
            if a.get("err") != one["freshErr"]:
                ctx.disagree("gen.fresh.err", inp, one["freshErr"], a)
            ctx.fail(inp, "reload: add_revision accepted a revision but the extended history does not load (%s)" % one["freshErr"],
                     impl={"incremental": one["inc"]})
        elif what == "spec":
            inp, one = obj
            if a.get("holds") is not True:
                ctx.fail(inp, "incremental: the in-memory history differs from the reloaded one in %s" % ",".join(a.get("differ", [])),
                         impl={"incremental": one["inc"], "fresh": one["fresh"]},
                         tags=["differ:" + ",".join(sorted(a.get("differ", [])))] + (["model-agrees"] if one.get("model_agrees") else []))
    pending.clear()


def run_fake(ctx, n, rng_name="fake"):
    rng = ctx.rng(rng_name)
    pending = []
    for _ in range(n):
        hist = gen_history(rng, rng.randint(0, 6 if not ctx.thorough else 9), labels=True, deps=True)
        adds, cur = [], list(hist)
        for k in range(rng.choice([1, 1, 2, 3])):
            r = gen_addition(rng, cur, k)
            adds.append(r)
            cur = cur + [r]
        ctx.hist("fake.history_size", len(hist))
        ctx.hist("fake.labelled_revisions", sum(1 for r in hist if r["labels"]))
        for r in adds:
            ctx.hist("fake.addition", "down=%d deps=%d labels=%d" % (len(r["down"]), len(r["deps"]), len(r["labels"])))
        fake_case(ctx, hist, adds, pending)
        if len(pending) >= 400:
            flush_fake(ctx, pending)
    flush_fake(ctx, pending)


def run_fake_exhaustive(ctx, n_max):
    """every history on <= n_max revisions (<=2 parents, <=1 dependency), every subset of labelled
    revisions, every single addition with <=2 down revisions, <=1 dependency, with/without a label"""
    import itertools

    pending = []
    count = 0
    for n in range(0, n_max + 1):
        for base in all_histories(n):
            ids = [r["id"] for r in base]
            for mask in range(2 ** n):
                hist = [dict(r, labels=(["L" + r["id"]] if mask >> i & 1 else [])) for i, r in enumerate(base)]
                downs = [list(c) for k in range(0, 3) for c in itertools.combinations(ids, k)]
                for d in downs:
                    rest = [i for i in ids if i not in d]
                    for dp in [[]] + [[x] for x in rest] + [["L" + x] for i, x in enumerate(ids) if mask >> i & 1 and x not in d]:
                        for lb in ([], ["Lnew"]):
                            fake_case(ctx, hist, [{"id": "new", "down": d, "deps": dp, "labels": lb}], pending)
                            count += 1
                if len(pending) >= 600:
                    flush_fake(ctx, pending)
    flush_fake(ctx, pending)
    ctx.note("exhaustive add_revision stream: %d (history, addition) pairs on histories with <= %d revisions" % (count, n_max))
    return count


# ---------------------------------------------------------------------------------------
# (c) the value grammar against the interpreter


def gen_value(rng):
    from ..render_py import gen_string

    k = rng.choice(["none", "str", "str", "tuple", "tuple", "list"])
    if k == "none":
        return None, k
    if k == "str":
        return gen_string(rng)[0], k
    n = rng.choice([0, 1, 1, 2, 3])
    xs = [gen_string(rng)[0] for _ in range(n)]
    return (tuple(xs) if k == "tuple" else list(xs)), "%s%d" % (k, n)


def val_json2(x):
    if x is None:
        return None
    if isinstance(x, str):
        return ["str", cps(x)]
    return ["tuple" if isinstance(x, tuple) else "list", [cps(e) for e in x]]


def val_of_json(j):
    if j is None:
        return None
    if j[0] == "str":
        return from_cps(j[1])
    xs = [from_cps(e) for e in j[1]]
    return tuple(xs) if j[0] == "tuple" else xs


def strings_of(x):
    return [] if x is None else ([x] if isinstance(x, str) else list(x))


def run_values(ctx, n, rng_name="values"):
    rng = ctx.rng(rng_name)
    ops, meta = [], []
    for _ in range(n):
        v, k = gen_value(rng)
        if any(0xD800 <= ord(c) <= 0xDFFF for s_ in strings_of(v) for c in s_):
            continue
        text = repr(v)
        np = sorted({c for s_ in strings_of(v) for c in nonprintable(s_)})
        ops.append({"op": "gen.repr", "val": val_json2(v), "nonprintable": np})
        meta.append(("repr", v, k, text))
        ops.append({"op": "gen.parse", "text": cps(text)})
        meta.append(("parse", v, k, text))
        ops.append({"op": "gen.spec.denotes", "text": cps(text), "val": val_json2(v)})
        meta.append(("spec", v, k, text))
        # a mangled text: the parser must agree with ast.literal_eval on acceptance
        if text and rng.random() < 0.5:
            i = rng.randrange(len(text))
            bad = text[:i] + rng.choice(["", "'", ",", " ", ")", "\\", "x"]) + text[i + 1:]
            ops.append({"op": "gen.parse", "text": cps(bad)})
            meta.append(("parse-mangled", None, "mangled", bad))
    ans = ctx.drv.ask(ops)
    for (what, v, k, text), op, a in zip(meta, ops, ans):
        ctx.evaluation()
        if what == "repr":
            ctx.hist("value_kind", k)
            got = from_cps(a.get("text", []))
            if got != text:
                ctx.disagree("gen.repr", {"val": op["val"]}, text, got)
            else:
                ctx.trace_ok()
                ctx.nontrivial(("val", text))
        elif what == "parse":
            if "ok" not in a or val_of_json(a["ok"]) != v or type(val_of_json(a["ok"])) is not type(v):
                ctx.disagree("gen.parse", {"text": text}, repr(v), a)
            else:
                ctx.trace_ok()
        elif what == "spec":
            if a.get("holds") is not True:
                ctx.fail({"value": op["val"], "text": text}, "repr: repr(value) is not a literal denoting the value (Spec.Gen.denotesB)", impl=text)
        else:
            # the model's grammar is a subset of Python's: whatever it accepts must evaluate to the same value
            if "ok" in a:
                try:
                    with warnings.catch_warnings():
                        warnings.simplefilter("ignore")
                        pv = ast.literal_eval(text)
                except Exception as e:  # noqa
                    pv = ("error", type(e).__name__)
                mv = val_of_json(a["ok"])
                if pv != mv or type(pv) is not type(mv):
                    ctx.disagree("gen.parse.mangled", {"text": text}, repr(pv), a)
                else:
                    ctx.trace_ok()


# ---------------------------------------------------------------------------------------
# (d) file names that Script._from_filename ignores


def run_ignored_names(ctx):
    """rev ids / templates that produce a name the loader skips: generate_revision returns None"""
    for tmpl, rid, msg in [(None, ".#lock", "x"), ("%(slug)s", "abcd", "__init__"), ("%(rev)s.x_%(slug)s", "__init__", "m")]:
        env = G.Scratch(file_template=tmpl)
        try:
            with warnings.catch_warnings():
                warnings.simplefilter("ignore")
                sd = env.fresh()
            call = {"kind": "generate", "rev_id": rid, "message": msg, "head": "head", "mclass": "plain", "hk": "default", "lk": "none", "dk": "none"}
            out, _ = check_call(ctx, env, sd, None, [], call, rid, datetime.datetime(2024, 1, 2, 3, 4, 5), sd, "ignored-names")
            out["dt"] = datetime.datetime(2024, 1, 2, 3, 4, 5)
            if "ignored" not in out:
                ctx.note("name expected to be ignored was loaded: %r %r" % (tmpl, rid))
            flush_segments(ctx, env, [(G.hist_of_map(sd.revision_map), [model_args(call, rid, env)], [out])])
        finally:
            env.close()


# ---------------------------------------------------------------------------------------


# a small fixed battery: option/argument combinations every run has to reach, whatever the seed
BATTERY = [
    ({}, [
        {"rev_id": "a1a1", "branch_label": "feat"},
        {"rev_id": "b1b1", "head": "base"},
        {"rev_id": "c1c1", "head": "a1a1", "depends_on": "head"},            # several heads: MultipleHeads from get_revision
        {"rev_id": "c2c2", "head": "a1a1", "depends_on": "heads"},
        {"rev_id": "c3c3", "head": "nosuch@head"},                           # _resolve_branch: no such branch
        {"rev_id": "c3c4", "head": "nosuch@a1a1", "splice": True},           # _resolve_branch: neither a label nor a revision
        {"rev_id": "c4c4", "head": "a1a1@head"},                             # a revision id before the @
        {"rev_id": "c5c5", "head": "feat@head", "depends_on": ["feat@head", "b1b"]},
        {"rev_id": "x-y", "head": "b1b1"},                                   # verify_rev_id
        {"kind": "revision", "rev_id": "d1d1", "head": "b1b1", "sql": True}, # --sql without revision_environment
        {"kind": "merge", "rev_id": "e1e1", "head": "heads", "branch_label": "merged"},
        {"rev_id": "e1e1", "head": "e1e1"},                                  # repeated id (on itself): refused before the write
        {"rev_id": "a1a1", "head": "e1e1"},                                  # repeated id elsewhere
        {"rev_id": "feat", "head": "e1e1"},                                  # an id that is a branch label
        {"rev_id": "f1f1", "head": "e1e1", "branch_label": "feat"},          # taken label: refused before the write
        {"rev_id": "g1g1", "head": "e1e1", "branch_label": "g1g1"},          # label spelled like the new id: refused before the write
        {"rev_id": "h1h1", "head": "e1e1", "branch_label": ["twice", "twice"]},  # one label twice in a call: refused before the write
    ]),
    ({"two_locations": True, "sourceless": True, "revision_environment": True, "hooks": True, "timezone": "europe/berlin",
      "file_template": "%(year)d_%(month).2d_%(day).2d_%(hour).2d%(minute).2d_%(second).2d-%(rev)s_%(slug)s", "trunc": 7}, [
        {"rev_id": "a2a2", "head": "base"},                                  # several locations, no head, no --version-path
        {"rev_id": "a2a2", "head": "base", "version_path": 1, "message": "A rather long message, truncated"},
        {"kind": "revision", "rev_id": "b2b2", "sql": True, "message": "caf\u00e9 \u00dcber"},
        {"kind": "revision", "rev_id": "c2c2", "head": "a2a2", "splice": True, "version_path": 0, "depends_on": "b2b"},
        {"kind": "merge", "rev_id": "d2d2", "head": ["b2b2", "c2c2"]},
    ]),
    ({"timezone": "Mars/Phobos"}, [{"rev_id": "a3a3"}]),
    # two different revisions whose id + "_" + slug coincide (a_b + c / a + b_c): the second is refused, nothing is replaced
    ({}, [
        {"rev_id": "a_b", "head": "base", "message": "c"},
        {"rev_id": "a", "head": "a_b", "message": "b c"},
        {"rev_id": "a1", "head": "a_b", "message": "b c"},
        {"kind": "revision", "rev_id": "a_b_c", "head": "a1"},
    ]),
    # a template without the id, one location: the same message twice
    ({"file_template": "%(slug)s"}, [
        {"rev_id": "a7a7", "head": "base", "message": "initial"},
        {"rev_id": "b7b7", "head": "a7a7", "message": "Initial!"},
        {"kind": "merge", "rev_id": "c7c7", "head": ["a7a7", "base"], "message": "initial"},
        {"rev_id": "d7d7", "head": "a7a7", "message": "second"},
    ]),
    # different ids that differ only in punctuation, same message (and none): each keeps its own file
    ({}, [
        {"rev_id": "rel.2024.1", "head": "base", "message": "release"},
        {"rev_id": "rel_2024_1", "head": "rel.2024.1", "message": "release"},
        {"rev_id": "v1.0", "head": "rel_2024_1"},
        {"rev_id": "v1_0", "head": "v1.0"},
        {"rev_id": "v1 0", "head": "v1_0"},
        {"kind": "merge", "rev_id": "v1,0", "head": ["v1 0", "base"], "message": "release"},
    ]),
    # a sourceless directory that still holds its sources and the byte code Python cached for them; dotted revision ids
    # (version numbers) put dots into the file names
    ({"sourceless": True, "bytecode": True}, [
        {"rev_id": "1.0", "head": "base", "message": "first release"},
        {"rev_id": "1.1", "head": "1.0", "branch_label": "stable"},
        {"rev_id": "v2.0", "head": "base", "message": "other root"},
        {"kind": "merge", "rev_id": "2.1", "head": ["1.1", "v2.0"]},
        {"rev_id": "abcd12", "head": "2.1"},
    ]),
    # a file_template without the revision id: revisions of different version locations may share a file name
    ({"two_locations": True, "file_template": "%(slug)s"}, [
        {"rev_id": "a5a5", "head": "base", "version_path": 0, "message": "initial"},
        {"rev_id": "b5b5", "head": "base", "version_path": 1, "message": "initial"},
        {"rev_id": "c5c5", "head": "b5b5", "message": "second", "depends_on": "a5a5"},
        {"rev_id": "d5d5", "head": "a5a5", "message": "second"},
    ]),
    ({"two_locations": True, "recursive": True, "file_template": "%(year)d_%(slug)s"}, [
        {"rev_id": "a6a6", "head": "base", "version_path": 0, "message": "tables"},
        {"rev_id": "b6b6", "head": "base", "version_path": 1, "message": "tables"},
        {"kind": "merge", "rev_id": "c6c6", "head": ["a6a6", "b6b6"], "message": "tables"},
    ]),
    ({"sourceless": True, "bytecode": True, "file_template": "%(rev)s.%(slug)s"}, [
        {"rev_id": "a4a4", "head": "base", "message": "dots from the template"},
        {"rev_id": "b4b4", "head": "a4a4", "message": "second"},
    ]),
]


def run_battery(ctx):
    rng = ctx.rng("battery")
    for opts, calls in BATTERY:
        env = G.Scratch(**opts)
        env.real_date = opts.get("timezone") is not None
        try:
            run_one_sequence(ctx, rng, env, len(calls), False, scripted=calls)
        finally:
            env.close()


def run(ctx):
    with warnings.catch_warnings():
        warnings.simplefilter("ignore")
        _run(ctx)


def _run(ctx):
    run_values(ctx, 300 if not ctx.thorough else 6000)
    run_fake(ctx, 1500 if not ctx.thorough else 40000)
    run_fake_exhaustive(ctx, 2 if not ctx.thorough else 3)
    run_ignored_names(ctx)
    run_battery(ctx)
    run_sequences(ctx, 110 if not ctx.thorough else 2500)
    run_sequences(ctx, 25 if not ctx.thorough else 400, rng_name="f12", f12=True)


def search(ctx):
    run_fake(ctx, 6000, rng_name="search-fake")
    run_sequences(ctx, 400, rng_name="search")


# ---------------------------------------------------------------------------------------
# known findings


def classify(failure):
    what = failure.get("what", "")
    tags = failure.get("tags", [])
    # (F5, incremental vs reloaded branch_labels, is fixed in /repo: any `incremental:` failure is a violation again)
    # (F14, a taken branch label refused only after the write, is fixed in /repo: every `refused:` failure is a violation)
    # (F16, a --rev-id that is already a key of the map, is fixed in /repo: such a call is an ordinary refused call)
    # F12: an accepted request whose file does not load, with a `"""`, backslash or NUL in the pasted texts
    if what.startswith("docstring:") and "f12-class" in tags:
        return "F12-docstring-unescaped"
    return None


def check_witness(ctx, finding):
    w = finding["witness"]
    if finding["id"].startswith("F5"):
        res, err = G.add_fake(w["history"], [w["add"]])
        if res and "fresh" in res[0] and res[0]["inc"] != res[0]["fresh"] and G.view_diff(res[0]["inc"], res[0]["fresh"]) == ["labels"]:
            # the same on files
            env = G.Scratch()
            try:
                with warnings.catch_warnings():
                    warnings.simplefilter("ignore")
                    sd = env.fresh()
                    for r in w["history"] + [w["add"]]:
                        sd.generate_revision(r["id"], "m", head=(r["down"] or "base"), branch_labels=(r["labels"] or None), splice=True)
                    inc = G.view(sd.revision_map)
                    fresh = G.view(env.fresh().revision_map)
            finally:
                env.close()
            if G.view_diff(inc, fresh) == ["labels"]:
                return "incremental labels %s, reloaded labels %s" % (
                    {r["id"]: r["labels"] for r in inc["revs"]}, {r["id"]: r["labels"] for r in fresh["revs"]})
        return None
    if finding["id"].startswith("F16"):
        env = G.Scratch()
        try:
            with warnings.catch_warnings():
                warnings.simplefilter("ignore")
                sd = env.fresh()
                for r in w["history"]:
                    sd.generate_revision(r["id"], "m", head=(r["down"] or "base"), splice=True)
                sd.generate_revision(w["rev_id"], "again", head=w["head"])
                inc = G.view(sd.revision_map)
                try:
                    fresh = G.view(env.fresh().revision_map)
                except Exception as e:  # noqa
                    return "accepted; the directory then fails to load with %s" % type(e).__name__
                d = G.view_diff(inc, fresh)
                return ("accepted; in-memory and reloaded history differ in %s" % d) if d else None
        except Exception as e:  # noqa
            return None
        finally:
            env.close()
    if finding["id"].startswith("F14"):
        env = G.Scratch()
        try:
            with warnings.catch_warnings():
                warnings.simplefilter("ignore")
                sd = env.fresh()
                sd.generate_revision(w["first"]["id"], "m", branch_labels=w["first"]["label"])
                try:
                    sd.generate_revision(w["second"]["id"], "m", branch_labels=w["second"]["label"])
                    return None
                except Exception as e1:  # noqa
                    try:
                        env.fresh().revision_map._revision_map
                        return None
                    except Exception as e2:  # noqa
                        return "refused with %s: %s; the directory then fails to load with %s" % (type(e1).__name__, e1, type(e2).__name__)
        finally:
            env.close()
    if finding["id"].startswith("F12"):
        env = G.Scratch()
        try:
            from alembic import command

            try:
                with warnings.catch_warnings():
                    warnings.simplefilter("ignore")
                    command.revision(env.cfg, message=w["message"], rev_id=w.get("rev_id", "f12a"))
            except SyntaxError as e:
                return "SyntaxError: %s" % e
            except ValueError as e:
                return "ValueError: %s" % e
        finally:
            env.close()
        return None
    return None


def replay(ctx, case):
    inp = case.get("input", {})
    if inp.get("stream") == "fake" or "add" in inp:
        res, err = G.add_fake(inp["history"], [inp["add"]])
        m = ctx.drv.ask1({"op": "gen.add", "revs": inp["history"], "adds": [inp["add"]]})
        f = ctx.drv.ask1({"op": "gen.fresh", "revs": inp["history"] + [inp["add"]]})
        spec = None
        if res and "fresh" in res[0]:
            spec = ctx.drv.ask1({"op": "gen.spec.view", "a": res[0]["inc"], "b": res[0]["fresh"]})
        return {"impl": res or err, "model_incremental": m, "model_fresh": f, "spec": spec}
    # file based: rebuild the history with generate_revision, then run the call
    env = G.Scratch(file_template=inp.get("file_template"), trunc=inp.get("trunc"), two_locations=inp.get("locations", 1) > 1,
                    recursive=inp.get("recursive", False), **(inp.get("options") or {}))
    try:
        with warnings.catch_warnings():
            warnings.simplefilter("ignore")
            sd = env.fresh()
            for r in inp.get("history", []):
                sd.generate_revision(r["id"], "m", head=(r["down"] or "base"), branch_labels=(r["labels"] or None),
                                     depends_on=(r["deps"] or None), splice=True,
                                     version_path=(env.locations[0] if len(env.locations) > 1 else None))
            sd = env.fresh()
        call = inp["call"]
        res = G.run_call(env, sd, call, inp["rid"])
        out = {"impl_error": res.get("err"), "exc": res.get("exc"), "files": [os.path.basename(f) for f in res["new_files"]]}
        if "err" in res:
            try:
                out["directory_after_refused_call"] = {"loads": True, "ids": [r["id"] for r in G.view(env.fresh().revision_map)["revs"]]}
            except Exception as e:  # noqa
                out["directory_after_refused_call"] = {"loads": False, "error": "%s: %s" % (type(e).__name__, str(e)[:200])}
        if res.get("script") is not None:
            out["written"] = G.file_attrs(res["script"])
            out["incremental"] = G.view(res["rm"])
            try:
                out["fresh"] = G.view(env.fresh().revision_map)
                out["spec"] = ctx.drv.ask1({"op": "gen.spec.view", "a": out["incremental"], "b": out["fresh"]})
            except Exception as e:  # noqa
                out["fresh_error"] = repr(e)
        out["model"] = ctx.drv.ask1({"op": "gen.seq", "revs": G.hist_of_map(sd.revision_map) if False else inp.get("history", []),
                                     "calls": [model_args(call, inp["rid"], env)]})
        return out
    finally:
        env.close()
