"""C18 - offline scripts frame transactions correctly for each dialect.

Implementation side: the real MigrationContext (as_sql) with the real per-dialect impl,
driven in the env.py shape `with ctx.begin_transaction(): ctx.run_migrations()`, with the
real ScriptDirectory._upgrade_revs/_downgrade_revs/_stamp_revs over fake revisions whose
bodies execute marker statements and open autocommit blocks.  The output buffer is
tokenised and compared with Model.Txn.runToks; the Lean recogniser Spec.Txn.framingOk is
evaluated on the implementation's own token stream.
"""
from __future__ import annotations

import io
import re

from alembic.runtime.migration import MigrationContext

from .. import revfake
from ..gen_graph import gen_history, reachable_state

PROPERTY = "C18"
DRIVER = "drv_txn"
THEOREMS = [
    "C18.framed_of_tddl",
    "C18.single_block_count",
    "C18.per_migration_block_count",
    "C18.per_migration_one_mig_per_block",
    "C18.no_markers_without_tddl",
    "C18.framingOk_run",
    "C18.multidb_framed",
    "C18.multidb_own_override",
    "C18.multidb_default",
    "C18.multidb_own_counterexample",
    "C18.framing_balanced",
    "C18.begin_commit_count",
    "C18.commit_count_single",
    "C18.commit_count_per_migration",
]
PARTIAL = {
    "C18.multidb_own_override": "full statement C18.multidb_own_statement (every configure() call of an env.py run is framed by its own override or its "
                                "dialect's default) is false on the unchanged tree (C18.multidb_own_counterexample, finding C18-F1 = C04-F1); proved for a call "
                                "that passes the argument (multidb_own_override) and for runs in which no call passes it (multidb_default)",
}
TRUSTED = [
    "which dialects have transactional DDL when nothing is overridden (DEFAULT_TDDL: postgresql and mssql yes; sqlite, mysql, mariadb, oracle no) is specification data of the harness, "
    "not read from the implementation; an explicit transactional_ddl= counts for the configure() call that passes it",
    "tokeniser of the offline output buffer (harness/props/c18.py:tokenise): BEGIN/COMMIT spellings and batch separators per dialect",
    "nver (number of version-table statements per step) and createVT/dropVT are read from the implementation run and passed to the model as parameters; the theorems hold for every value of them",
]
RULE = (
    "(dialect_name for 5 dialects | 2-3 configure() calls of one EnvironmentContext with mixed dialects and overrides (multidb shape) | mssql/oracle with their batch separator emptied or customised | output_encoding with a binary buffer | live SQLite connection, fresh or already in a transaction) x transactional_ddl override x transaction_per_migration x history x command(upgrade/downgrade/stamp) "
    "x bodies with 0-2 autocommit blocks (left normally or through an exception the migration handles); a case is non-trivial when the plan has >=1 step; distinct by "
    "(dialect, override, per_migration, token stream)"
)
ASSUMPTIONS = ["env.py has the documented shape: with context.begin_transaction(): context.run_migrations()"]

DIALECTS = ["sqlite", "postgresql", "mysql", "mariadb", "mssql", "oracle"]
# "a dialect with transactional DDL": what each dialect's impl declares when nothing is overridden (spec data, see TRUSTED);
# an explicit transactional_ddl= of the *same* configure() call overrides it
DEFAULT_TDDL = {"sqlite": False, "postgresql": True, "mysql": False, "mariadb": False, "mssql": True, "oracle": False}


def expected_tddl(dialect, override):
    return bool(override) if override is not None else DEFAULT_TDDL[dialect]


def tokenise(text, rev_index, seps=()):
    toks = []
    cur = None
    unknown = []
    nrun = 0
    for chunk in re.split(r"\n\s*\n", text):
        c = chunk.strip()
        if not c:
            continue
        first = c.splitlines()[0].strip()
        u = first.upper().rstrip(";").strip()
        if c in ("GO", "/") or c in seps:
            continue
        if u in ("BEGIN", "BEGIN TRANSACTION", "SET TRANSACTION READ WRITE"):
            toks.append("begin")
        elif u == "COMMIT":
            toks.append("commit")
        elif first.startswith("-- Running"):
            # steps are emitted in plan order; the k-th "-- Running" line belongs to step k
            cur = nrun
            nrun += 1
            toks.append("running:%d" % cur)
        elif u.startswith("CREATE TABLE ALEMBIC_VERSION"):
            toks.append("createVT")
        elif u.startswith("DROP TABLE ALEMBIC_VERSION"):
            toks.append("dropVT")
        elif re.match(r"(INSERT INTO|UPDATE|DELETE FROM) ALEMBIC_VERSION", u):
            toks.append("version:%s" % cur)
        else:
            m = re.search(r"MARK_(\w+?)_(stmt|auto)_", c)
            if m:
                toks.append("%s:%s" % (m.group(2), rev_index.get(("rev", m.group(1)))))
            else:
                unknown.append(first)
                toks.append("unknown")
        # a chunk may hold a second statement on following lines (e.g. "COMMIT;\nGO")
    return toks, unknown


_ENGINES = {}


def _live_connection(in_txn):
    """a real SQLite connection handed to configure(); optionally already inside a transaction
    (SQLAlchemy 2.0 autobegins on the first statement)"""
    from sqlalchemy import create_engine, text

    eng = _ENGINES.get("sqlite")
    if eng is None:
        eng = _ENGINES["sqlite"] = create_engine("sqlite://")
    conn = eng.connect()
    if in_txn:
        conn.execute(text("select 1"))
        assert conn.in_transaction()
    return conn


class _Skip(Exception):
    pass


def run_impl(dialect, override, per_mig, hist, cmd, target, start_rows, bodies, conn_mode=None, dopts=None, prefix=None,
             none_key=False, pm_int=False):
    """returns dict(toks, migs(for the model), dropVT, tddl, steps) or dict(err=...).
    prefix (a list of [dialect, override] pairs, possibly empty): the multidb shape - one EnvironmentContext, one
    configure()/begin_transaction()/run_migrations() per entry of prefix, each into a buffer of its own, and then the
    judged call"""
    # with output_encoding the context wraps a *binary* buffer in an encoding writer of its own
    enc = (dopts or {}).get("output_encoding")
    buf = io.BytesIO() if enc else io.StringIO()
    holder = {}

    def mk_body(rev, segs):
        def body(**kw):
            ctx = holder["ctx"]
            n = 0
            for kind, k in segs:
                if kind == "plain":
                    for _ in range(k):
                        ctx.execute("SELECT 'MARK_%s_stmt_%d'" % (rev, n))
                        n += 1
                elif kind == "auto":
                    with ctx.autocommit_block():
                        for _ in range(k):
                            ctx.execute("SELECT 'MARK_%s_auto_%d'" % (rev, n))
                            n += 1
                elif kind == "autoindex":
                    # the documented practice for concurrent indexes: a real op inside the autocommit section
                    from alembic.operations import Operations

                    with ctx.autocommit_block():
                        for _ in range(k):
                            Operations(ctx).create_index("ix_MARK_%s_auto_%d" % (rev, n), "some_table", ["some_col"],
                                                         postgresql_concurrently=True)
                            n += 1
                else:
                    # an autocommit section left through an exception the migration itself handles
                    # (`if context.is_offline_mode(): raise Skip()` around a data backfill)
                    try:
                        with ctx.autocommit_block():
                            for _ in range(k):
                                ctx.execute("SELECT 'MARK_%s_auto_%d'" % (rev, n))
                                n += 1
                            raise _Skip()
                    except _Skip:
                        pass

        return body

    fb = {r: (mk_body(r, segs), mk_body(r, segs)) for r, segs in bodies.items()}
    sd = revfake.make_sd(hist, fb)
    steps_seen = []
    heads_after = []

    def fn(heads, ctx):
        if cmd == "upgrade":
            st = sd._upgrade_revs(target, heads)
        elif cmd == "downgrade":
            st = sd._downgrade_revs(target, heads)
        else:
            st = sd._stamp_revs(target, heads)
        steps_seen.extend(st)
        return st

    def on_apply(ctx, step, heads, run_args):
        heads_after.append(sorted(heads))

    if pm_int:
        # a truth value that is not a bool: `transaction_per_migration=int(config.get_main_option(...))`
        per_mig = int(per_mig)
    opts = {
        "as_sql": True,
        "output_buffer": buf,
        "transaction_per_migration": per_mig,
        "fn": fn,
        "script": sd,
        "on_version_apply": (on_apply,),
    }
    if override is not None or none_key:
        # none_key: the documented "no override" value written out, `opts={"transactional_ddl": None}` /
        # `EnvironmentContext(cfg, script, transactional_ddl=None)`
        opts["transactional_ddl"] = override
    if start_rows:
        opts["starting_rev"] = start_rows if len(start_rows) > 1 else start_rows[0]
    if dopts:
        opts.update(dopts)  # dialect options such as mssql_batch_separator
    conn = None
    if prefix is not None:
        from alembic.config import Config
        from alembic.runtime.environment import EnvironmentContext

        ekw = {"fn": fn, "as_sql": True}
        if none_key:
            ekw["transactional_ddl"] = None
        if start_rows:
            ekw["starting_rev"] = opts["starting_rev"]
        env = EnvironmentContext(Config(), sd, **ekw)
        try:
            for d_, ov_ in list(prefix) + [[dialect, override]]:
                del steps_seen[:]
                del heads_after[:]
                ckw = {"dialect_name": d_, "output_buffer": io.StringIO(), "transaction_per_migration": per_mig,
                       "on_version_apply": on_apply}
                if ov_ is not None:
                    ckw["transactional_ddl"] = ov_
                env.configure(**ckw)
                ctx = holder["ctx"] = env.get_context()
                with env.begin_transaction():
                    env.run_migrations()
            buf = ckw["output_buffer"]      # the judged call is the last one
        except Exception as e:
            return {"err": revfake.exc_class(e)}
    else:
        if conn_mode is None:
            ctx = MigrationContext.configure(dialect_name=dialect, opts=opts)
        else:
            conn = _live_connection(conn_mode == "in-txn")
            ctx = MigrationContext.configure(connection=conn, opts=opts)
        holder["ctx"] = ctx
        try:
            with ctx.begin_transaction():
                ctx.run_migrations()
        except Exception as e:  # resolution errors etc.: not this property's business
            return {"err": revfake.exc_class(e)}
        finally:
            if conn is not None:
                conn.close()
    # index of each step
    rev_index = {}
    migs = []
    for i, st in enumerate(steps_seen):
        if hasattr(st, "revision"):  # RevisionStep
            rid = st.revision.revision
            rev_index[("rev", rid)] = i
            rev_index[("upgrade" if st.is_upgrade else "downgrade", *st.short_log.split(" ", 1)[1].split(" -> "))] = i
            segs = bodies.get(rid, [])
        else:
            rev_index[("stamp_revision", *st.short_log.split(" ", 1)[1].split(" -> "))] = i
            segs = []
        # for the framing an autocommit section is one however it is left
        migs.append({"segs": [{"kind": "auto" if k in ("autoraise", "autoindex") else k, "n": n} for k, n in segs]})
    text_out = buf.getvalue().decode(enc) if enc else buf.getvalue()
    toks, unknown = tokenise(text_out, rev_index, seps=tuple(v for k, v in (dopts or {}).items() if v and k != "output_encoding"))
    before = [sorted(start_rows)] + heads_after[:-1]
    for i, m in enumerate(migs):
        m["nver"] = sum(1 for t in toks if t == "version:%d" % i)
        m["createVT"] = not before[i] if i < len(before) else False
    final = heads_after[-1] if heads_after else sorted(start_rows)
    return {
        "toks": toks,
        "unknown": unknown,
        "migs": migs,
        "dropVT": not final,
        "tddl": expected_tddl(dialect, override),
        "impl_tddl": bool(ctx.impl.transactional_ddl),
        "nsteps": len(steps_seen),
        "text": text_out,
    }


def gen_bodies(rng, hist):
    bodies = {}
    for r in hist:
        segs = []
        for _ in range(rng.choice([0, 1, 1, 2, 3])):
            if rng.random() < 0.4:
                segs.append((rng.choice(["auto", "auto", "autoraise", "autoindex"]), rng.choice([0, 1, 1, 2])))
            else:
                segs.append(("plain", rng.choice([0, 1, 2, 3])))
        bodies[r["id"]] = segs
    return bodies


def gen_case(rng, max_n):
    hist = gen_history(rng, rng.randint(1, max_n), labels=False, deps=rng.random() < 0.4)
    ids = [r["id"] for r in hist]
    cmd = rng.choice(["upgrade", "upgrade", "downgrade", "stamp"])
    rows = reachable_state(rng, hist) if rng.random() < 0.7 else []
    if cmd == "upgrade":
        target = rng.choice(["heads", "heads", rng.choice(ids), "head"])
    elif cmd == "downgrade":
        target = rng.choice(["base", rng.choice(ids), "-1"])
        if not rows:
            rows = reachable_state(rng, hist, force_nonempty=True)
    else:
        target = rng.choice([("heads",), ("base",), (rng.choice(ids),)])
    return hist, cmd, target, rows, gen_bodies(rng, hist)


def leaked_override(inp):
    """the explicit transactional_ddl= of the most recent earlier configure() call of the same env.py run, when the judged
    call passes none (known finding C18-F1 = C04-F1: EnvironmentContext.configure keeps it in the shared context_opts)"""
    if inp.get("prefix") is None or inp["override"] is not None:
        return None
    for _, ov in reversed(inp["prefix"]):
        if ov is not None:
            return bool(ov)
    return None


def one_case(ctx, dialect, override, per_mig, hist, cmd, target, rows, bodies, pending, conn_mode=None, dopts=None, prefix=None,
             none_key=False, pm_int=False):
    inp = {"dialect": dialect, "override": override, "perMig": per_mig, "hist": hist, "cmd": cmd,
           "target": target, "rows": rows, "bodies": {k: [list(s) for s in v] for k, v in bodies.items()},
           "conn": conn_mode}
    if dopts:
        inp["dopts"] = dopts
        ctx.hist("dialect_option", ", ".join("%s=%r" % kv for kv in sorted(dopts.items())))
    if prefix is not None:
        inp["prefix"] = [list(x) for x in prefix]
        ctx.hist("configure_calls_before_the_judged_one", len(prefix))
    if none_key:
        inp["noneKey"] = True
    if pm_int:
        inp["perMigInt"] = True
    ctx.hist("transaction_per_migration_given_as", "int 0/1" if pm_int else "bool")
    ctx.hist("transactional_ddl_option", "given" if override is not None else ("key present, value None" if none_key else "absent"))
    r = run_impl(dialect, override, per_mig, hist, cmd, target, rows, bodies, conn_mode, dopts, prefix, none_key, pm_int)
    ctx.hist("configured_with", conn_mode or ("dialect_name" if prefix is None else "EnvironmentContext.configure(dialect_name)"))
    ctx.evaluation()
    ctx.hist("dialect", dialect)
    ctx.hist("cmd", cmd)
    ctx.hist("settings", "override=%s perMig=%s" % (override, per_mig))
    if "err" in r:
        ctx.hist("impl_error", r["err"])
        if r["err"] != "commandError":
            # a refused command (target does not resolve, nothing to downgrade …) is a CommandError and
            # not this property's business; anything else escaping from script generation is not a refusal
            ctx.disagree("txn.offline", inp, {"raised": r["err"]}, {"expected": "a script, or CommandError for a refused command"})
        return
    ctx.hist("steps", r["nsteps"])
    ctx.hist("auto_sections", sum(1 for m in r["migs"] for s in m["segs"] if s["kind"] == "auto"))
    ctx.hist("auto_sections_left_by_a_handled_exception", sum(1 for v in bodies.values() for s in v if s[0] == "autoraise"))
    if r["nsteps"] >= 1:
        ctx.nontrivial((dialect, override, per_mig, tuple(r["toks"])))
    pending.append((inp, r))


def flush(ctx, pending):
    ops = []
    for inp, r in pending:
        base = {"tddl": r["tddl"], "perMig": inp["perMig"], "migs": r["migs"], "dropVT": r["dropVT"],
                "connInTxn": inp.get("conn") == "in-txn"}
        ops.append({"op": "txn.offline", **base})
        ops.append({"op": "txn.spec", **base, "out": r["toks"]})
    ans = ctx.drv.ask(ops)
    # the multidb shape: which setting the judged configure() call ends up with is the model's configureAll over the
    # shared options (Model.Txn.lastCfg); compared with the implementation's impl.transactional_ddl
    multi = [(inp, r) for inp, r in pending if inp.get("prefix") is not None]
    if multi:
        q = [{"op": "txn.configure", "dialectDefault": DEFAULT_TDDL[inp["dialect"]],
              "calls": [[ov, inp["perMig"]] for _, ov in inp["prefix"]], "call": [inp["override"], inp["perMig"]]} for inp, r in multi]
        for (inp, r), a in zip(multi, ctx.drv.ask(q)):
            if a.get("tddl") != r["impl_tddl"]:
                ctx.disagree("txn.configure", inp, {"transactional_ddl": r["impl_tddl"]}, a,
                             note="the context made by the last configure() call of the run")
            else:
                ctx.trace_ok()
    for k, (inp, r) in enumerate(pending):
        m, s = ans[2 * k], ans[2 * k + 1]
        known_leak = (r["impl_tddl"] != r["tddl"] and leaked_override(inp) is not None and leaked_override(inp) == r["impl_tddl"])
        if r["unknown"]:
            ctx.disagree("txn.offline", inp, {"toks": r["toks"], "unknown": r["unknown"]}, m)
        elif known_leak:
            # the divergence from the model of this call's own settings *is* finding C18-F1 (reported below as a
            # failure and classified); the correspondence is checked against the model run with the setting the
            # implementation ended up with
            m2 = ctx.drv.ask1({"op": "txn.offline", "tddl": r["impl_tddl"], "perMig": inp["perMig"], "migs": r["migs"],
                               "dropVT": r["dropVT"], "connInTxn": False})
            if m2.get("toks") != r["toks"]:
                ctx.disagree("txn.offline", inp, {"toks": r["toks"], "unknown": r["unknown"]}, m2)
            else:
                ctx.trace_ok()
        elif m.get("toks") != r["toks"] or r["impl_tddl"] != r["tddl"]:
            ctx.disagree("txn.offline", inp, {"toks": r["toks"], "unknown": r["unknown"], "transactional_ddl": r["impl_tddl"]},
                         dict(m, transactional_ddl=r["tddl"]))
        else:
            ctx.trace_ok()
        if "err" in s or r["unknown"]:
            pass  # untokenisable output: a correspondence problem, reported above
        elif s.get("holds") is not True:
            ctx.fail(inp, "framing: offline script is not correctly framed for a dialect %s transactional DDL (%s)" % (
                "with" if r["tddl"] else "without", {k: v for k, v in s.items() if k != "holds"}),
                     impl={"toks": r["toks"], "text": r["text"][:4000], "impl_tddl": r["impl_tddl"]})
        elif s.get("balanced") is False:
            # Spec.Txn.balancedB (C18.framing_balanced): the begin/commit markers must be whole `begin commit` pairs
            ctx.fail(inp, "balance: a commit marker without its own begin marker, or nested blocks", impl={"toks": r["toks"], "text": r["text"][:4000]})
        if k < 3:
            ctx.sample({"input": {k2: inp[k2] for k2 in ("dialect", "override", "perMig", "cmd", "target", "rows")},
                        "history": inp["hist"], "tokens": r["toks"]})
    pending.clear()


def run(ctx, n_cases=None, rng_name="main"):
    rng = ctx.rng(rng_name)
    n = n_cases or (2500 if ctx.thorough else 250)
    pending = []
    for _ in range(n):
        hist, cmd, target, rows, bodies = gen_case(rng, 6 if not ctx.thorough else 9)
        # every dialect x override x per-migration for this history
        for d in DIALECTS:
            for ov in (None, True, False):
                for pm in (False, True):
                    one_case(ctx, d, ov, pm, hist, cmd, target, rows, bodies, pending)
        # "no override" written out as an explicit None (MigrationContext.configure directly and through EnvironmentContext(**kw))
        for d in DIALECTS:
            for pm in (False, True):
                one_case(ctx, d, None, pm, hist, cmd, target, rows, bodies, pending, none_key=True)
                one_case(ctx, d, None, pm, hist, cmd, target, rows, bodies, pending, none_key=True, prefix=[])
        # transaction_per_migration given as 0 / 1 (any truth value is accepted there)
        for d in DIALECTS:
            for ov in (None, True):
                for pm in (False, True):
                    one_case(ctx, d, ov, pm, hist, cmd, target, rows, bodies, pending, pm_int=True)
        # the dialects' own offline options: batch separator switched off / customised
        for d, dopts in (("mssql", {"mssql_batch_separator": ""}), ("mssql", {"mssql_batch_separator": "BYE"}),
                         ("oracle", {"oracle_batch_separator": ""}), ("oracle", {"oracle_batch_separator": "RUN"}),
                         ("postgresql", {"output_encoding": "utf-8"}), ("mssql", {"output_encoding": "utf-8"}),
                         ("sqlite", {"output_encoding": "latin-1"})):
            for ov in ((None, True) if d == "sqlite" else (None, False)):
                for pm in (False, True):
                    one_case(ctx, d, ov, pm, hist, cmd, target, rows, bodies, pending, dopts=dopts)
        # offline mode configured with a live connection (SQLite is the only live backend here),
        # fresh or already inside a transaction
        for ov in (None, True, False):
            for pm in (False, True):
                for cm in ("fresh", "in-txn"):
                    one_case(ctx, "sqlite", ov, pm, hist, cmd, target, rows, bodies, pending, conn_mode=cm)
        # the multidb shape: several configure() calls of one EnvironmentContext, mixed dialects, each with or without its
        # own override; every call of the sequence is judged with the calls before it as prefix
        for _ in range(3):
            seq = [[rng.choice(DIALECTS), rng.choice([None, None, None, True, False])] for _ in range(rng.choice([2, 2, 3]))]
            pm = rng.random() < 0.5
            for j, (d, ov) in enumerate(seq):
                one_case(ctx, d, ov, pm, hist, cmd, target, rows, bodies, pending, prefix=seq[:j])
        if len(pending) > 3000:
            flush(ctx, pending)
    flush(ctx, pending)


def search(ctx):
    run(ctx, n_cases=1500, rng_name="search")


def check_witness(ctx, finding):
    """replays the witness of C18-F1 on the real code"""
    if finding["id"] != "C18-F1":
        return None
    w = finding["witness"]
    r = run_impl(w["dialect"], None, w["perMig"], w["hist"], "upgrade", "heads", [], {}, prefix=w["prefix"])
    if "err" not in r and r["impl_tddl"] != r["tddl"] and ("begin" in r["toks"]) != r["tddl"]:
        return ("%s script configured without transactional_ddl after a configure(transactional_ddl=%r) call of the same run: "
                "tokens %s" % (w["dialect"], w["prefix"][-1][1], r["toks"]))
    return None


def classify(failure):
    """C18-F1 only: the judged configure() call passed no transactional_ddl, an earlier call of the same EnvironmentContext did,
    and the implementation framed the script with exactly that earlier value"""
    i = failure.get("input") or {}
    lo = leaked_override(i)
    impl = failure.get("impl") or {}
    if lo is not None and impl.get("impl_tddl") == lo and lo != expected_tddl(i["dialect"], None):
        return "C18-F1"
    return None


def replay(ctx, case):
    inp = case["input"]
    bodies = {k: [tuple(s) for s in v] for k, v in inp["bodies"].items()}
    tgt = tuple(inp["target"]) if isinstance(inp["target"], list) else inp["target"]
    r = run_impl(inp["dialect"], inp["override"], inp["perMig"], inp["hist"], inp["cmd"], tgt, inp["rows"], bodies, inp.get("conn"), inp.get("dopts"),
                 inp.get("prefix"), bool(inp.get("noneKey")), bool(inp.get("perMigInt")))
    if "err" in r:
        return {"impl": r}
    base = {"tddl": r["tddl"], "perMig": inp["perMig"], "migs": r["migs"], "dropVT": r["dropVT"],
            "connInTxn": inp.get("conn") == "in-txn"}
    m = ctx.drv.ask1({"op": "txn.offline", **base})
    s = ctx.drv.ask1({"op": "txn.spec", **base, "out": r["toks"]})
    return {"impl_tokens": r["toks"], "model_tokens": m.get("toks"), "spec": s, "script": r["text"],
            "transactional_ddl": {"this call's own settings": r["tddl"], "implementation": r["impl_tddl"]}}
