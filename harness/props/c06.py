"""C06 - autogenerate is quiet on a matching database and converges in one pass (SQLite).

Implementation side: abstract schema pairs -> SQLAlchemy MetaData -> in-memory SQLite
(`create_all`) -> the real `produce_migrations` / `as_diffs()` -> the upgrade rendered with
`render_python_code`, executed through `Operations` (batch and, where SQLite can ALTER,
non-batch) -> second autogenerate.  The Lean recogniser `Spec.Diff.quietOk` judges the
implementation's own op lists; `Model.Diff.diff` / `applyAll` are compared op by op and
table by table; the type / default reflection tables are validated entry by entry.
"""
from __future__ import annotations

from .. import diff_check as K
from .. import diff_gen as G
from .. import diff_schema as S

PROPERTY = "C06"
DRIVER = "drv_diff"
THEOREMS = [
    "C06.compareType_self",
    "C06.types_quiet_counterexample",
    "C06.types_quiet_partial",
    "C06.defaults_quiet_counterexample",
    "C06.defaults_quiet_partial",
    "C06.quiet_counterexample",
    "C06.quiet_partial",
    "C06.converge_column",
    "C06.converge_counterexample",
    "C06.converge_partial",
    "C06.quiet_partial_deferring",
    "C06.converge_partial_deferring",
    "C06.converge_of_pairOk",
    "C06.pkStableB_iff",
    "C06.batch_decision_perm",
    "C06.batch_decision_any",
    "C06.pk_preserved",
]
PARTIAL = {
    "C06.types_quiet_partial": "types whose SQLite DDL name is not in SQLAlchemy's ischema_names (CLOB, BINARY, VARBINARY, DOUBLE PRECISION, UUID) reflect through affinity and are reported as changed (C06-T1; types_quiet_counterexample)",
    "C06.defaults_quiet_partial": "string defaults that are empty / contain ' or a newline / are wrapped in parentheses (F9), and padded or doubly parenthesised expression defaults (F9x), are reported as changed (defaults_quiet_counterexample)",
    "C06.converge_partial": "hypothesis SchemaOk cfg b on the *target* schema (the source schema a is arbitrary); the full statement is refuted by converge_counterexample (server_default=\"it's\"). Model.Diff.apply is my semantics of the ops on SQLite (batch recreate assumed to preserve untouched parts: C06-BIND / C06-EMPTYCOPY are exactly where the real batch code does not)",
    "C06.quiet_partial": "hypothesis SchemaOk cfg: every compared column type reflects by name and every compared default is plain; the full statement is refuted by quiet_counterexample (server_default=\"it's\")",
}
TRUSTED = [
    "Model.Diff.ddlTy / reflTy / sqliteStore / createAll / reflect: my tables of SQLAlchemy's SQLite type compiler, SQLite's stored default text and the inspector; validated entry by entry against the live inspector on every run",
    "Model.Diff.apply: my semantics of executing each op on SQLite (batch move-and-copy assumed to preserve what it was not told to change: property C10); validated against the live database after the rendered upgrade on every in-class pair",
    "canonicalisation of as_diffs() (harness/diff_schema.py:canon_diffs) and the multiset comparison of the runs the implementation emits in Python set order (dropped tables, dropped columns, foreign keys)",
]
RULE = (
    "schema pairs: A random (1-5 tables, 1-6 columns over a 35-entry type catalogue with random arguments, nullability, "
    "defaults of every syntactic class, 0-3 indexes, 0-2 named uniques, 0-2 FKs); B = A with 0-6 random edits (85%) or independent (15%); "
    "x compare_type x compare_server_default (on / off, plus one run per pair with both as callables: always answering None, or False on ~20% of the columns) x batch (non-batch only when SQLite can ALTER every op); 25% of pairs leave the proved class "
    "(non-plain defaults, unreflectable types). Non-trivial = the first diff is non-empty; distinct by (settings, op list)"
)
ASSUMPTIONS = [
    "SQLite 3.40 in-memory database, foreign key enforcement off (pysqlite default), no include_object/include_name filters, default schema only",
    "all constraints named; index names unique in the database; no two unique constraints / foreign keys of a table with the same signature",
]

CFGS = [(True, True), (True, False), (False, True), (False, False)]


def run(ctx, n_pairs=None, rng_name="main", max_seconds=None):
    import time

    t_end = time.time() + max_seconds if max_seconds else None
    rng = ctx.rng(rng_name)
    K.check_reflect_tables(ctx, ctx.rng(rng_name + "/reflect"), 6 if ctx.thorough else 2)
    n = n_pairs or (1500 if ctx.thorough else 90)
    pending = []
    if rng_name == "main":
        for label, a, b in G.battery_pairs():
            ctx.hist("pair.battery", label)
            K.run_pair(ctx, a, b, True, True, True, pending)
    for i in range(n):
        odd = rng.random() < 0.25
        if t_end and time.time() > t_end:
            ctx.note("search stopped after %d pairs (time cap %ss)" % (i, max_seconds))
            break
        a, b = G.gen_pair(rng, odd=odd, funcs=True, computed=0.08)
        ctx.hist("pair.class", "odd" if odd else "plain")
        ctx.hist("pair.tables", "%d->%d" % (len(a["tables"]), len(b["tables"])))
        if i < 3:
            ctx.sample({"a": a, "b": b})
        for ct, cd in CFGS:
            r = K.run_pair(ctx, a, b, ct, cd, True, pending)
            if r == "create-failed":
                break
        else:
            # compare_type / compare_server_default as callables: always deferring (None), or answering False on some columns
            if i % 2 == 0:
                K.run_pair(ctx, a, b, {"callable": []}, {"callable": []}, True, pending)
            else:
                K.run_pair(ctx, a, b, K.callable_setting(rng, [a, b]), K.callable_setting(rng, [a, b]), True, pending)
        K.run_pair(ctx, a, b, True, True, False, pending, compare_model=False)
        if len(pending) > 400:
            K.flush_pairs(ctx, pending)
    K.flush_pairs(ctx, pending)


def search(ctx):
    # runs only when a proof or the correspondence is broken and the main run found no failing input; capped
    run(ctx, n_pairs=600, rng_name="search", max_seconds=45)


# --- known findings -----------------------------------------------------------------------------------

def classify(failure):
    tags = set(failure.get("tags", []))
    what = failure.get("what", "")
    kind = what.split(":")[0]
    if kind == "upgrade-error":
        # batch recreate re-emits a stored default `(a) + (b)` (from text("((a) + (b))")) without parentheses
        if "default-expr-nonplain" in tags and "syntax error" in what and "batch:True" in tags:
            return "C06-F9x"
        # batch recreate re-emits a stored default like 'a' || 'b' (from text("('a' || 'b')")) without parentheses
        if "default-expr-quotedlooking" in tags and "syntax error" in what and "batch:True" in tags:
            return "C06-F9q"
        # batch recreate + create_index([literal_column('a DESC'), ...]) in one block: the new index's column is looked up by name
        if "index-desc" in tags and "exc:KeyError" in tags and " DESC'" in what and "batch:True" in tags:
            return "C06-DESCIX"
        # batch recreate of a table none of whose columns survives: INSERT .. SELECT without columns
        if "table-without-common-column" in tags and "exc:KeyError" in tags and "insert_from_select" in what and "batch:True" in tags:
            return "C06-EMPTYCOPY"
        return None
    if kind not in ("quiet", "converge"):
        return None
    if "op:modify_default" in tags:
        if "md-default:str-nonplain" in tags:
            return "C06-F9"
        if "md-default:expr-nonplain" in tags:
            return "C06-F9x"
        if kind == "converge" and "batch:True" in tags and "md-default:bindlike" in tags:
            return "C06-BIND"
    if "op:modify_type" in tags and "md-type:unreflectable" in tags:
        return "C06-T1"
    if ("op:add_fk" in tags or "op:remove_fk" in tags) and "fk-default-schema" in tags:
        return "C06-MAINFK"
    if kind == "converge" and "op:modify_type" in tags and "md-type:enum-with-sqlite-variant" in tags:
        return "C06-ENUMVAR"
    return None


def _replay_pair(ctx, w):
    pending = []
    before = len(ctx.failures)
    K.run_pair(ctx, w["a"], w["b"], w.get("ct", True), w.get("cd", True), w.get("batch", True), pending, compare_model=False)
    K.flush_pairs(ctx, pending)
    new = ctx.failures[before:]
    del ctx.failures[before:]
    return new


def check_witness(ctx, finding):
    new = _replay_pair(ctx, finding["witness"])
    hits = [f for f in new if classify(f) == finding["id"]]
    return hits[0]["what"] if hits else None


def replay(ctx, case):
    inp = case["input"]
    new = _replay_pair(ctx, inp)
    return {"failures": [{"what": f["what"], "finding": classify(f)} for f in new]}
