"""C14 - emitted DDL quotes every identifier and honours the schema.

Implementation side: the real `Operations` methods on a real offline (`as_sql`) MigrationContext
per dialect; every construct object Alembic hands to `impl._exec` is recorded together with the text
it wrote.  Each of Alembic's own constructs is described in the model's vocabulary
(`ident_impl.describe`; type/default/comment texts are rendered by SQLAlchemy and passed as opaque
strings, the reserved-word predicate is read from the live preparer), the Lean model's text
(`Model.Ident.render` + `emit`) is compared with the written text EXACTLY, and the Lean
specification `Spec.Ident.c14Ok` (lexer + statement shape) is evaluated on the text Alembic wrote.
The quote model is re-validated against the live `IdentifierPreparer` on every run.
"""
from __future__ import annotations

import itertools
import re

from .. import ident_gen as G
from .. import ident_impl as I

PROPERTY = "C14"
DRIVER = "drv_ident"
THEOREMS = [
    "C14.delimit_roundtrip",
    "C14.quote_roundtrip_counterexample",
    "C14.quote_roundtrip_partial",
    "C14.needs_quotes_counterexample",
    "C14.needs_quotes_partial",
    "C14.literal_roundtrip",
    "C14.mssql_literal_roundtrip",
    "C14.stmt_dropColumn",
    "C14.stmt_renameTable",
    "C14.stmt_addColumn",
    "C14.stmt_columnNullable",
    "C14.stmt_columnType",
    "C14.stmt_columnName",
    "C14.stmt_columnDefault",
    "C14.stmt_columnComment",
    "C14.stmt_identity",
    "C14.stmt_mysqlAlterDefault",
    "C14.stmt_mysqlModify",
    "C14.stmt_mysqlChange",
    "C14.stmt_mysqlDropConstraint",
    "C14.mssqlDropTail_literals",
    "C14.mssqlDrop_objectId_reads_back",
    "C14.good_iff",
    "C14.good_iff_c14Ok",
    "C14.stmt_sqlite_renameColumn",
    "C14.stmt_sqlite_renameTable",
    "C14.stmt_mssql_columnName",
    "C14.stmt_mssql_renameTable",
    "C14.percent_counterexample",
    "C14.tab_counterexample",
]
PARTIAL = {
    "C14.quote_roundtrip_partial": "full statement (quote_roundtrip_statement) fails on postgresql/mysql/mariadb for names containing '%' "
    "(written '%%' in --sql scripts, finding C14-PERCENT); C14.delimit_roundtrip is the unconditional theorem about delimiter doubling",
    "C14.needs_quotes_partial": "names ending in a newline excluded (SQLAlchemy's LEGAL_CHARACTERS '$' quirk)",
    "C14.stmt_*": "`Good` is the oracle c14Ok (shape + forced-quote clause, theorem good_iff_c14Ok) on the model's text; every stmt_ theorem is universally quantified over names/schemas/opaque texts/reserved-word predicates but assumes "
    "NameOK (non-empty, no '%' on the %-doubling dialects, no TAB, no trailing newline, not quoted_name(quote=False)) and okText for "
    "the SQLAlchemy-rendered texts; it speaks about `compiled statement ++ command terminator`, the TAB/strip post-processing of "
    "DefaultImpl._exec is covered by the correspondence only (tab_counterexample shows it matters exactly for TAB)",
    "C14.stmt_mysqlDropConstraint": "MySQL/MariaDB DROP CHECK / CONSTRAINT / FOREIGN KEY / INDEX / PRIMARY KEY proved for all names when the schema "
    "argument is one identifier (quoted_name, or plain str without a dot); excluded case = open finding C14-MYSQL-DROP-DOTTED "
    "(dotted plain-str schema quoted whole by SQLAlchemy's format_table)",
    "C14.stmt_mssql_*": "COMMENT ON COLUMN (oracle) and both sp_rename forms are proved for all names; the token shapes of "
    "_ExecDropConstraint/_ExecDropFKConstraint (three literals each) are modelled, specified and checked by the correspondence + "
    "spec-on-implementation only (no stmt_ theorem); proved about them: mssqlDropTail_literals (the tail is fixed text around three "
    "correctly escaped sqlLiteral's: schema.table, column, 'alter table <formatted table> drop constraint ') and literal_roundtrip "
    "(each reads back as the embedded text)",
}
TRUSTED = [
    "SQLAlchemy's rendering of types, server defaults, comment literals and column specifications (opaque texts passed to the model; "
    "checked to be lexically complete by Spec.Ident.okText)",
    "the per-dialect lexer Spec.Ident.lex as a description of how the five databases tokenise DDL (delimited identifiers with doubled "
    "close delimiter, '' in literals, backslash escapes on MySQL) and Spec.Ident.shape as the grammar of each statement",
    "bare non-ASCII letters other than U+0130/U+212A are taken to denote themselves (SQLAlchemy leaves U+0131/U+017F unquoted)",
    "statements compiled by SQLAlchemy's own constructs on behalf of an operation have no model: they are judged only by "
    "Spec.Ident.mentionsRef (schema.table named as identifiers, text lexically complete); MSSQL sp_addextendedproperty comments are "
    "not judged; for those statements MSSQL schema names avoid '[', ']', '.' (interpreted by SQLAlchemy's quote_schema)",
    "the reserved-word predicate is the live preparer's (passed per case for the names of that case)",
    "SQLAlchemy's LEGAL_CHARACTERS regex ends in '$', which also matches before one trailing newline: a name such as 'abc\\n' is left "
    "unquoted by SQLAlchemy (not Alembic's code); the model mirrors this (Model.Ident.legalChars), the theorems exclude names ending "
    "in a newline, and the generator does not produce them",
]
RULE = (
    "op template (Operations.rename_table/add_column/drop_column/alter_column variants/drop_constraint, 19 templates) x dialect "
    "(sqlite, postgresql, mysql, mariadb, mssql, oracle) x schema kind (none, plain, needs-quoting, dotted, quoted_name) x identifier "
    "class per name slot; third stream 'impl-paths': op.alter_column with every subset of {type_, nullable, server_default set/None, "
    "new_column_name, comment, autoincrement} x 3 existing_* patterns and MSSQL drop_column with every subset of mssql_drop_* flags, "
    "x dialect x all five schema kinds, random name classes; every statement of a multi-statement op is judged by the Lean "
    "specification against the table/schema/column the OPERATION named (not what the construct object carries) "
    "fifth stream 'sequences': two operations emitted in ONE fresh MigrationContext in which the same schema / table text is given "
    "first in one object form and later in another (all ordered pairs of plain str, quoted_name(quote=None), quoted_name(quote=True); "
    "dotted schema text; plain table text), each statement judged against the operation that wrote it; "
    "fourth stream 'sa-ops': operations whose statements SQLAlchemy's own constructs compile (create/drop table/index incl. "
    "if_exists, mssql_include/postgresql_include, constraints, table comments, bulk_insert incl. MSSQL SET IDENTITY_INSERT, PG "
    "exclude constraint, add_column with column-level CHECK/FK/index/comment/unique/constraint-carrying type/attached column, "
    "alter_column across constraint-carrying types, PG identity ALTER form) x dialect x schema none/plain/quoting x the seven "
    "classes: Alembic's own constructs among them are compared with the model, the others are judged by Spec.Ident.mentionsRef "
    "(lexically complete and naming the op's schema.table); a battery of 25 operations that must raise; "
    "(main stream: plain, reserved, mixed case, space, dialect quote char, single quote, non-ASCII, digit/_/$ "
    "initial, edge; separate extra-classes stream: names containing % or TAB): exhaustive over the class product, random inside a class; a case is non-trivial when at least one "
    "name needs quoting or a schema is given; distinct by emitted text"
)
ASSUMPTIONS = [
    "names are non-empty (SQLAlchemy raises IndexError on the empty name); schema components are non-empty",
    "argument kinds (Spec.Ident.schemaPartsOf): a plain str schema containing dots is a multi-part qualifier by design (one identifier "
    "per part); any quoted_name (quote=None as stored in Table.schema, True, False) is ONE identifier, dots included; quote=False is "
    "the caller's assertion that no quoting is needed and is only generated for such names; table / column / constraint names are "
    "always one identifier",
    "statements compiled by SQLAlchemy's own constructs are judged with the weaker join reading (refOkJoin)",
]



def dec(x):
    """driver strings: JSON string, or the list of code points when not printable ASCII"""
    if isinstance(x, list):
        return "".join(chr(i) for i in x)
    return x


def dec_toks(toks):
    out = []
    for t in toks or []:
        out.append({k: dec(v) for k, v in t.items()} if isinstance(t, dict) else t)
    return out


# ------------------------------------------------------------------------------------------------
def check_params(ctx):
    ops = [{"op": "ident.params", "kind": d, "probe": I.PROBE} for d in I.ALL_DIALECTS]
    ans = ctx.drv.ask(ops)
    for d, a in zip(I.ALL_DIALECTS, ans):
        live = I.Ctx.get(d).params()
        ctx.evaluation()
        a = {k: (dec(v) if k != "dblPercent" else v) for k, v in a.items()}
        if a != live:
            ctx.disagree("ident.params", {"dialect": d}, live, a)
        else:
            ctx.trace_ok()


def check_preparer(ctx, rng, per_class):
    """model of IdentifierPreparer._requires_quotes/quote/quote_identifier vs the live preparer"""
    for d in I.ALL_DIALECTS:
        c = I.Ctx.get(d)
        p = c.prep
        names = []
        for cls in G.CLASSES + G.EXTRA_CLASSES:
            for _ in range(per_class):
                names.append(G.gen_name(rng, cls, p.final_quote, p.initial_quote, p.reserved_words))
        names += [e for e in G.EDGE]
        names += [chr(x) for x in range(1, 0x250)] + ["a" + chr(x) for x in range(1, 0x250)]
        names += [rng.choice("ab_$1") + chr(rng.randrange(0x250, 0xFFFF if not ctx.thorough else 0x2FFFF)) for _ in range(per_class * 4)]
        names = [n for n in dict.fromkeys(names) if n and not any(0xD800 <= ord(ch) <= 0xDFFF for ch in n)]
        p._strings.clear()
        a = ctx.drv.ask1({"op": "ident.quote", "kind": d, "reserved": c.reserved(names), "names": names})
        bad = 0
        for i, n in enumerate(names):
            impl = (bool(p._requires_quotes(n)), p.quote(n), p.quote_identifier(n))
            model = (a["req"][i], dec(a["quoted"][i]), dec(a["forced"][i]))
            ctx.evaluation()
            if impl != model:
                bad += 1
                if bad <= 5:
                    ctx.disagree("ident.quote", {"dialect": d, "name": n}, impl, model)
            else:
                ctx.trace_ok()
            ctx.hist("preparer_roundtrip", "%s:%s" % (d, "denotes" if a["denotes"][i] else "does-not-denote"))
        p._strings.clear()


# ------------------------------------------------------------------------------------------------
def name_class_flags(names, close_q):
    s = set()
    for n in names:
        if "'" in n:
            s.add("squote")
        if "%" in n:
            s.add("percent")
        if "\t" in n:
            s.add("tab")
        if close_q in n:
            s.add("qchar")
    return sorted(s)


def expected_construct(cj, desc):
    """What the OPERATION asked for, in the construct's vocabulary: the table, schema and column names of the op
    description override whatever the construct object carries (a construct built without the op's schema must
    fail the specification, not pass it vacuously)."""
    e = dict(cj)
    if desc.get("op") == "compile":
        return e
    e["t"] = desc["t"]
    e["schema"] = desc.get("schema")
    if "col" in desc:
        if "col" in cj:
            e["col"] = desc["col"]
        if "rawcol" in cj:
            e["rawcol"] = I.name_str(desc["col"])
    if cj.get("c") == "renameTable":
        e["new"] = desc["new"]
    if cj.get("c") in ("columnName", "mysqlChange") and (desc.get("kw") or {}).get("new_column_name") is not None:
        e["new"] = desc["kw"]["new_column_name"]
    if cj.get("c") == "mysqlDropConstraint" and cj.get("dkind") != "pk":
        e["cname"] = desc["cname"]
    return e


def records_of(dialect, desc):
    """-> ([(the op description that wrote the statement, construct, emitted, raw)], error).  A `seq` description is a
    sequence of operations emitted in ONE fresh MigrationContext; every statement is attributed to its own operation."""
    if desc.get("op") == "seq":
        out, err = I.apply_seq(dialect, desc["ops"])
        return [(desc["ops"][i], el, em, raw) for i, el, em, raw in out], err
    recs, err = I.apply_op(I.Ctx.get(dialect), desc)
    return [(desc, el, em, raw) for el, em, raw in recs], err


def run_desc(ctx, dialect, whole, meta, pending, expect_ok=True):
    c = I.Ctx.get(dialect)
    recs, err = records_of(dialect, whole)
    ctx.evaluation()
    if err is not None:
        ctx.hist("impl_error", "%s:%s" % (meta.get("template"), type(err).__name__))
        if expect_ok:
            ctx.disagree("ident.op", {"dialect": dialect, "desc": whole}, "raised %r" % (err,), "model: every construct of this template renders")
    for idx, (desc, el, emitted, raw) in enumerate(recs):
        cj = I.describe(c, el)
        if cj is None:
            # compiled by one of SQLAlchemy's own constructs on behalf of the operation: no model, but the statement is
            # still judged: it must be lexically complete and name schema.table of the operation (Spec.Ident.mentionsRef)
            if desc.get("op") == "compile" or "t" not in desc:
                continue
            if dialect == "mssql" and type(el).__name__ in ("SetColumnComment", "DropColumnComment", "SetTableComment", "DropTableComment"):
                ctx.hist("not_judged", "mssql:%s (sp_addextendedproperty 'schema', [s], 'table', [t]: SQLAlchemy's own non-dotted form)" % type(el).__name__)
                continue
            inp = {"dialect": dialect, "desc": whole, "index": idx, "by": desc, "construct": {"c": "sa:" + type(el).__name__}, **meta}
            if emitted is None:
                ctx.disagree("ident.describe", inp, {"raw": raw}, None)
                continue
            t = I.name_str(desc["t"])
            alts = [[t]]
            for key in ("col", "name"):
                if desc.get(key) is not None:
                    alts.append([t, I.name_str(desc[key])] if key == "col" else [I.name_str(desc[key])])
            if type(el).__name__ in ("CreateIndex", "DropIndex") and getattr(el.element, "name", None) is not None:
                alts.append([str(el.element.name)])  # SQLite / Oracle / PostgreSQL qualify the INDEX name with the schema
            sch = desc.get("schema")
            names = [a for alt in alts for a in alt] + [t] + [I.name_str(desc[k]) for k in ("col", "name", "schema") if desc.get(k) is not None]
            pending.append((inp, emitted, {"op": "ident.mentions", "kind": dialect, "reserved": c.reserved(names),
                                           "schema": None if sch is None else I.name_str(sch), "alts": alts, "emitted": emitted}))
            continue
        inp = {"dialect": dialect, "desc": whole, "index": idx, "by": desc, "construct": cj, **meta}
        if cj.get("c") == "?" or emitted is None:
            ctx.disagree("ident.describe", inp, {"raw": raw}, cj)
            continue
        ecj = expected_construct(cj, desc)
        names = I.all_names(cj) + I.all_names(ecj)
        ctx.hist("statements_per_op", len(recs))
        pending.append((inp, emitted, {"op": "ident.stmt", "kind": dialect, "reserved": c.reserved(names), "construct": cj,
                                       "specConstruct": ecj, "emitted": emitted}))


def flush(ctx, pending):
    if not pending:
        return
    ans = ctx.drv.ask([p[2] for p in pending])
    for (inp, emitted, q), a in zip(pending, ans):
        cj = inp["construct"]
        key = "%s@%s" % (cj["c"], inp["dialect"])
        ctx.hist("construct@dialect", key)
        if q["op"] == "ident.mentions":
            if "err" in a:
                ctx.disagree("ident.mentions", inp, {"emitted": emitted}, a)
            elif a.get("holds") is not True:
                ctx.fail(inp, "%s: a statement written for the operation does not name the operation's schema.table as identifiers" % key,
                         impl={"emitted": emitted, "tokens": dec_toks(a.get("toks"))}, tags=[key])
            else:
                ctx.trace_ok()
                ctx.nontrivial(emitted)
            continue
        if "err" in a:
            ctx.disagree("ident.stmt", inp, {"emitted": emitted}, a)
            continue
        if dec(a.get("emit")) != emitted:
            ctx.disagree("ident.stmt", inp, {"emitted": emitted}, {"emit": dec(a.get("emit"))})
        else:
            ctx.trace_ok()
        if not a.get("okTexts"):
            ctx.hist("opaque_text_not_lexically_complete", key)
        names = I.all_names(cj)
        c = I.Ctx.get(inp["dialect"])
        if (inp.get("by") or inp["desc"]).get("schema") is not None or any(c.prep._requires_quotes(n) for n in names if n):
            ctx.nontrivial(emitted)
        if a.get("spec") is not True:
            flags = name_class_flags(names, c.prep.final_quote)
            kind = ("seq/" + key) if inp["desc"].get("op") == "seq" else key
            fl = {"input": inp, "impl": {"emitted": emitted}}
            if inp["desc"].get("op") != "seq" and classify(fl) is None:
                # the per-dialect context is shared by the cases of a stream: does the operation fail on its own?
                alone, _ = _spec_of(ctx, inp["dialect"], {"op": "seq", "ops": [inp["desc"]]})
                if alone and all(r["spec"] is True for r in alone):
                    kind = "state-dependent/" + key
                    inp = dict(inp, note="passes when emitted alone in a fresh MigrationContext: the text depends on what the same "
                                         "context emitted before (see the seq/ failures for self-contained sequences)")
            ctx.fail(inp, "%s: the text Alembic wrote does not tokenise into the requested identifiers / schema qualification "
                          "(object forms: plain dotted str schema = multi-part, quoted_name = one identifier, quote=True = delimited)" % kind,
                     impl={"emitted": emitted, "tokens": dec_toks(a.get("toks"))}, tags=[key] + flags)
        if len(ctx.samples) < ctx.max_samples and ctx.rng("sample" + emitted).random() < 0.002:
            ctx.sample({"dialect": inp["dialect"], "op": inp["desc"], "emitted": emitted, "spec": a.get("spec")})
    pending.clear()


def gen_cases(ctx, rng, classes, schema_kinds, reps, dialects=None, templates=None):
    """exhaustive over template x dialect x schema kind x class product; `reps` random draws per cell"""
    for key, dialects_t, slots, build in G.TEMPLATES:
        if templates and key not in templates:
            continue
        for d in dialects_t:
            if dialects and d not in dialects:
                continue
            c = I.Ctx.get(d)
            p = c.prep
            for sk in schema_kinds:
                for combo in itertools.product(classes, repeat=len(slots)):
                    for _ in range(reps):
                        names = {s: G.arg_kind(rng, G.gen_name(rng, cls, p.final_quote, p.initial_quote, p.reserved_words), cls)
                                 for s, cls in zip(slots, combo)}
                        schema = G.gen_schema(rng, sk, p.final_quote, p.initial_quote, p.reserved_words, classes)
                        desc = build(names, schema, rng)
                        yield d, desc, {"template": key, "classes": list(combo), "schema_kind": sk}


def gen_impl_paths(ctx, rng, schema_kinds, reps):
    """impl-level multi-statement paths: op.alter_column with EVERY subset of {type_, nullable, server_default (set / None),
    new_column_name, comment, autoincrement} x a small set of existing_* patterns, on every dialect and schema kind
    (names: random classes per slot); plus MSSQL drop_column with every subset of the mssql_drop_* flags."""
    existing = [
        {"existing_type": "INTEGER"},
        {"existing_type": "VARCHAR50", "existing_nullable": False, "existing_server_default": "zero"},
        {"existing_type": "DATETIME", "existing_nullable": True, "existing_server_default": "now", "existing_comment": "old c'm"},
    ]
    for d in I.ALL_DIALECTS:
        c = I.Ctx.get(d)
        p = c.prep
        has_comment = d in ("postgresql", "mysql", "mariadb", "oracle")
        has_autoinc = d in ("mysql", "mariadb")
        for sk in schema_kinds:
            for ty, nu, df, nm, cm, ai in itertools.product([0, 1], [0, 1], [0, 1, 2], [0, 1], [0, 1] if has_comment else [0],
                                                            [0, 1] if has_autoinc else [0]):
                if not (ty or nu or df or nm or cm or ai):
                    continue
                for _ in range(reps):
                    def nm_():
                        cls = rng.choice(G.CLASSES)
                        return G.arg_kind(rng, G.gen_name(rng, cls, p.final_quote, p.initial_quote, p.reserved_words), cls)

                    names = {"t": nm_(), "col": nm_(), "new": nm_()}
                    schema = G.gen_schema(rng, sk, p.final_quote, p.initial_quote, p.reserved_words, G.CLASSES)
                    kw = dict(rng.choice(existing))
                    if ty:
                        kw["type_"] = rng.choice(G.TY)
                    if nu:
                        kw["nullable"] = rng.random() < 0.5
                    if df == 1:
                        kw["server_default"] = rng.choice(G.DF)
                    elif df == 2:
                        kw["server_default"] = None
                    if nm:
                        kw["new_column_name"] = names["new"]
                    if cm:
                        kw["comment"] = rng.choice(["a comment", "it's", None])
                    if ai:
                        kw["autoincrement"] = rng.random() < 0.7
                    if not has_comment:
                        kw.pop("existing_comment", None)
                    desc = {"op": "alter_column", "t": names["t"], "col": names["col"], "schema": schema, "kw": kw}
                    key = "alter[%s]" % "".join(x for x, on in zip("TNDRCA", (ty, nu, df, nm, cm, ai)) if on)
                    yield d, desc, {"template": key, "classes": [], "schema_kind": sk}
            if d == "mssql":
                for flags in itertools.product([False, True], repeat=3):
                    for _ in range(reps * 3):
                        nm_ = lambda: G.gen_name(rng, rng.choice(G.CLASSES), p.final_quote, p.initial_quote, p.reserved_words)  # noqa
                        schema = G.gen_schema(rng, sk, p.final_quote, p.initial_quote, p.reserved_words, G.CLASSES)
                        kw = {k: True for k, on in zip(("mssql_drop_default", "mssql_drop_check", "mssql_drop_foreign_key"), flags) if on}
                        yield d, {"op": "drop_column", "t": nm_(), "col": nm_(), "schema": schema, "kw": kw}, \
                            {"template": "mssql_drop_column%s" % ("".join("DCF"[i] for i in range(3) if flags[i]) or "-"),
                             "classes": [], "schema_kind": sk}


FORMS = ["str", "qn_none", "qn_true"]


def in_form(text, form):
    return text if form == "str" else {"s": text, "q": None if form == "qn_none" else True}


def gen_sequences(ctx, rng, reps):
    """Sequences of two operations emitted in ONE fresh MigrationContext in which the same text is given first in one
    object form and later in another (all ordered pairs of {plain str, quoted_name(quote=None), quoted_name(quote=True)}):
    (a) a schema literally containing a dot (plain str = multi-part, quoted_name = one identifier), same table text;
    (b) a table / column name that needs no quoting, plain vs forced quote=True, with and without a schema.
    Every statement is judged against the operation that wrote it."""
    def ops_for(d, t, schema, col, rng):
        cands = [
            {"op": "rename_table", "t": t, "new": G.word(rng, 3, 7), "schema": schema},
            {"op": "drop_column", "t": t, "col": col, "schema": schema},
            {"op": "add_column", "t": t, "col": col, "schema": schema, "type": "INTEGER", "kw": {}},
            {"op": "alter_column", "t": t, "col": col, "schema": schema, "kw": {"nullable": True, "existing_type": "INTEGER"}},
            {"op": "alter_column", "t": t, "col": col, "schema": schema, "kw": {"new_column_name": G.word(rng, 3, 7), "existing_type": "INTEGER"}},
        ]
        if d == "mssql":
            cands.append({"op": "drop_column", "t": t, "col": col, "schema": schema, "kw": {"mssql_drop_default": True}})
        if d in ("postgresql", "oracle"):
            cands.append({"op": "alter_column", "t": t, "col": col, "schema": schema, "kw": {"comment": "c"}})
        return rng.choice(cands)

    for d in I.ALL_DIALECTS:
        p = I.Ctx.get(d).prep
        for f1 in FORMS:
            for f2 in FORMS:
                if f1 == f2:
                    continue
                for _ in range(reps):
                    # (a) dotted schema text, identical table text
                    stext = G.plain(rng, p.reserved_words) + "." + G.plain(rng, p.reserved_words)
                    ttext = G.plain(rng, p.reserved_words)
                    col = G.plain(rng, p.reserved_words)
                    seq = [ops_for(d, ttext, in_form(stext, f1), col, rng), ops_for(d, ttext, in_form(stext, f2), col, rng)]
                    yield d, {"op": "seq", "ops": seq}, {"template": "seq:schema:%s>%s" % (f1, f2), "classes": [], "schema_kind": "dotted-forms"}
                    # (b) plain table text, plain vs forced-quote forms, with / without schema
                    if "qn_none" not in (f1, f2) or True:
                        sch = rng.choice([None, G.plain(rng, p.reserved_words)])
                        seq = [ops_for(d, in_form(ttext, f1), sch, col, rng), ops_for(d, in_form(ttext, f2), sch, col, rng)]
                        yield d, {"op": "seq", "ops": seq}, {"template": "seq:table:%s>%s" % (f1, f2), "classes": [],
                                                             "schema_kind": "none" if sch is None else "plain"}


SA_CLASSES = ["plain", "reserved", "mixed", "space", "qchar", "squote", "nonascii"]
GENERIC = ["create_table", "drop_table", "create_index", "drop_index", "create_unique_constraint", "create_check_constraint",
           "create_primary_key", "create_foreign_key", "create_table_comment", "drop_table_comment", "bulk_insert",
           "create_exclude_constraint"]
SQLITE_NOT_IMPLEMENTED = {"create_unique_constraint", "create_check_constraint", "create_primary_key", "create_foreign_key"}


def gen_sa_ops(ctx, rng, reps):
    """Operations whose statements SQLAlchemy's own constructs compile (toimpl.py paths, impl.create_index/bulk_insert
    overrides, type-bound CHECK constraints dropped/added around alter_column, column-level FK / index / comment /
    CHECK of add_column, PostgreSQL identity ALTER form).  Alembic's own constructs among the statements are compared
    with the model as everywhere; the others are judged by Spec.Ident.mentionsRef with the op's schema.table.
    Names: the property's seven classes; schema kinds none / plain / needs-quoting.  On MSSQL the schema avoids
    '[', ']' and '.', which SQLAlchemy's own MSIdentifierPreparer.quote_schema interprets (not Alembic's code)."""
    for d in I.ALL_DIALECTS:
        c = I.Ctx.get(d)
        p = c.prep

        def nm(cls=None):
            return G.gen_name(rng, cls or rng.choice(SA_CLASSES), p.final_quote, p.initial_quote, p.reserved_words)

        def sch(sk):
            if sk == "none":
                return None
            if sk == "plain":
                return G.plain(rng, p.reserved_words)
            for _ in range(50):
                v = nm(rng.choice([x for x in SA_CLASSES if x != "plain" and not (d == "mssql" and x == "qchar")]))
                if not (d == "mssql" and any(ch in v for ch in "[].")):
                    return v
            return "My Schema"

        for sk in ("none", "plain", "quoting"):
            for _ in range(reps):
                for g in GENERIC:
                    if g == "create_exclude_constraint" and d != "postgresql":
                        continue
                    if d == "mssql" and g in ("create_table_comment", "drop_table_comment"):
                        continue  # sp_addextendedproperty 'schema', [s], 'table', [t]: SQLAlchemy's own non-dotted form
                    desc = {"op": "generic", "g": g, "t": nm(), "schema": sch(sk), "col": nm(), "name": nm()}
                    if g in ("create_table", "drop_table", "create_index", "drop_index"):
                        desc["if"] = rng.random() < 0.5   # if_exists / if_not_exists
                    if g == "create_index":
                        desc["unique"] = rng.random() < 0.3
                        if d == "mssql" and rng.random() < 0.6:
                            desc["kw"] = {"mssql_include": [nm("plain"), desc["col"]]}   # a new and an already present column
                        if d == "postgresql" and rng.random() < 0.6:
                            desc["kw"] = {"postgresql_include": [nm("plain"), desc["col"]]}
                    if g == "create_table":
                        desc["index"] = rng.random() < 0.5
                        # (MSSQL without schema: SQLAlchemy's table comment needs dialect.default_schema_name, None offline)
                        desc["comment"] = rng.random() < 0.5 and not (d == "mssql" and sk == "none")
                    if g == "create_exclude_constraint" and rng.random() < 0.5:
                        desc["where"] = "1 > 0"
                    yield d, desc, {"template": "sa:" + g, "classes": [], "schema_kind": sk}, not (d == "sqlite" and g in SQLITE_NOT_IMPLEMENTED)
                # add_column with column-level CHECK (inline, base.add_column), FK, index, comment, constraint-carrying
                # types, a column already attached to another table
                for kw, extra in (({"check": True}, {}), ({"fk": "ref_tbl.id"}, {}), ({"index": True}, {}), ({"comment": "c'mt"}, {}),
                                  ({"unique": True}, {}), ({}, {"type": "BOOLEAN_C"}), ({}, {"type": "ENUM_C"}), ({}, {"attached": True}),
                                  ({"check": True, "index": True, "comment": "x", "nullable": False, "server_default": "zero"}, {})):
                    desc = {"op": "add_column", "t": nm(), "col": nm(), "schema": sch(sk), "type": "INTEGER", "kw": dict(kw), **extra}
                    if d == "mssql" and sk == "none" and kw.get("comment"):
                        continue  # SQLAlchemy's sp_addextendedproperty needs dialect.default_schema_name (None offline): AttributeError
                    # SQLite: explicit constraints raise NotImplementedError; type-bound ones (with a _create_rule) are skipped silently
                    ok = not (d == "sqlite" and (kw.get("fk") or kw.get("unique")))
                    yield d, desc, {"template": "add_column+" + "+".join(sorted(list(kw) + [str(v) for v in extra.values()] + list(extra))), "classes": [], "schema_kind": sk}, ok
                # alter_column whose existing / new type carries a CHECK constraint (toimpl drops / adds it)
                for ex, new in (("BOOLEAN_C", None), ("BOOLEAN_C", "INTEGER"), ("INTEGER", "BOOLEAN_C"), ("ENUM_C", "BOOLEAN_C")):
                    kw = {"existing_type": ex, "existing_nullable": True}
                    if new:
                        kw["type_"] = new
                    else:
                        kw["nullable"] = False
                    if rng.random() < 0.5:
                        kw["new_column_name"] = nm()
                    desc = {"op": "alter_column", "t": nm(), "col": nm(), "schema": sch(sk), "kw": kw}
                    yield d, desc, {"template": "alter_type_constraint:%s->%s" % (ex, new), "classes": [], "schema_kind": sk}, True
                if d == "postgresql":
                    for a, b in (("identity", "identity2"), ("identity2", "identity")):
                        desc = {"op": "alter_column", "t": nm(), "col": nm(), "schema": sch(sk),
                                "kw": {"server_default": a, "existing_server_default": b}}
                        yield d, desc, {"template": "identity_alter", "classes": [], "schema_kind": sk}, True


# operations that must raise and write nothing (error paths of the anchored visitors / impls)
def raise_battery():
    out = []
    for d in I.ALL_DIALECTS:
        out.append((d, {"op": "alter_column", "t": "t", "col": "c", "schema": "s", "kw": {"server_default": "computed"}}, "computed"))
        out.append((d, {"op": "alter_column", "t": "t", "col": "c", "schema": "s",
                        "kw": {"server_default": None, "existing_server_default": "computed", "existing_type": "INTEGER"}}, "computed-drop"))
        if d not in ("postgresql", "oracle"):
            out.append((d, {"op": "alter_column", "t": "t", "col": "c", "schema": "s",
                            "kw": {"server_default": "identity", "existing_type": "INTEGER", "existing_nullable": False}}, "identity"))
    out.append(("mssql", {"op": "alter_column", "t": "t", "col": "c", "schema": None, "kw": {"nullable": True}}, "mssql-nullable-without-type"))
    out.append(("mysql", {"op": "alter_column", "t": "t", "col": "c", "schema": None, "kw": {"nullable": True}}, "mysql-without-type"))
    out.append(("mariadb", {"op": "alter_column", "t": "t", "col": "c", "schema": None, "kw": {"new_column_name": "d"}}, "mysql-without-type"))
    out.append(("postgresql", {"op": "alter_column", "t": "t", "col": "c", "schema": None, "kw": {"postgresql_using": "c::int"}}, "pg-using-without-type"))
    for d in ("mysql", "mariadb"):
        out.append((d, {"op": "drop_constraint", "cname": "x", "t": "t", "schema": None, "type_": None}, "mysql-drop-constraint-no-type"))
    out.append(("sqlite", {"op": "drop_constraint", "cname": "x", "t": "t", "schema": "s", "type_": "unique"}, "sqlite-drop-constraint"))
    return out


def check_raises(ctx):
    for d, desc, why in raise_battery():
        c = I.Ctx.get(d)
        recs, err = I.apply_op(c, desc)
        ctx.evaluation()
        ctx.hist("raise_battery", "%s:%s:%s" % (d, why, type(err).__name__ if err else "no-error"))
        own = [r for r in recs if I.describe(c, r[0]) is not None]
        # statements written BEFORE the error (e.g. MODIFY before the unsupported identity change) are judged like any other
        if err is None:
            ctx.disagree("ident.raises", {"dialect": d, "desc": desc, "why": why}, "no error; wrote %r" % [r[1] for r in recs], "expected an error")
        else:
            ctx.trace_ok()
        pending = []
        for idx, (el, emitted, raw) in enumerate(recs):
            cj = I.describe(c, el)
            if cj is None or cj.get("c") == "?" or emitted is None:
                continue
            ecj = expected_construct(cj, desc)
            pending.append(({"dialect": d, "desc": desc, "index": idx, "construct": cj, "template": "raises:" + why}, emitted,
                            {"op": "ident.stmt", "kind": d, "reserved": [], "construct": cj, "specConstruct": ecj, "emitted": emitted}))
        flush(ctx, pending)


UNSUPPORTED = [
    ("sqlite", "columnComment"), ("mssql", "columnComment"), ("mysql", "columnNullable"), ("mysql", "columnType"),
    ("mysql", "columnName"), ("mysql", "columnDefault"), ("mariadb", "columnName"),
]


def check_unsupported(ctx):
    for d, k in UNSUPPORTED:
        cj = {"c": k, "t": "t", "schema": None, "col": "c", "new": "n", "nullable": True, "default": None, "ty": "INTEGER"}
        c = I.Ctx.get(d)
        recs, err = I.apply_op(c, {"op": "compile", "construct": cj})
        a = ctx.drv.ask1({"op": "ident.stmt", "kind": d, "reserved": [], "construct": cj})
        ctx.evaluation()
        if (err is None) != (a.get("model") is not None):
            ctx.disagree("ident.unsupported", {"dialect": d, "construct": cj}, repr(err), a)
        else:
            ctx.trace_ok()


def run(ctx, rng_name="main", scale=1):
    rng = ctx.rng(rng_name)
    check_params(ctx)
    check_preparer(ctx, rng, 40 if not ctx.thorough else 400)
    check_unsupported(ctx)
    pending = []
    plan = []
    if ctx.thorough:
        plan.append(("main", G.CLASSES, G.SCHEMA_KINDS, 2 * scale))
        plan.append(("extra", ["plain", "space", "qchar", "squote"] + G.EXTRA_CLASSES, G.SCHEMA_KINDS, 2 * scale))
    else:
        # main stream: the property's seven classes + initial-character/edge classes, product over all name slots
        plan.append(("main", G.CLASSES, ["none", "plain", "quoting"], 1 * scale))
        # extra-classes stream (% and TAB: outside the property's list) and the extra schema kinds, against a reduced class set
        plan.append(("extra", ["plain", "qchar", "squote"] + G.EXTRA_CLASSES, ["none", "dotted", "qn"], 1 * scale))
    for stream, classes, sks, reps in plan:
        for d, desc, meta in gen_cases(ctx, rng, classes, sks, reps):
            meta["stream"] = stream
            ctx.hist("stream", stream)
            ctx.hist("dialect", d)
            ctx.hist("template", meta["template"])
            ctx.hist("schema_kind", meta["schema_kind"])
            for cl in meta["classes"]:
                ctx.hist("name_class", cl)
            run_desc(ctx, d, desc, meta, pending)
            if len(pending) >= 4000:
                flush(ctx, pending)
    for d, desc, meta in gen_impl_paths(ctx, rng, G.SCHEMA_KINDS, (2 if not ctx.thorough else 8) * scale):
        meta["stream"] = "impl-paths"
        ctx.hist("stream", "impl-paths")
        ctx.hist("dialect", d)
        ctx.hist("template", meta["template"])
        ctx.hist("schema_kind", meta["schema_kind"])
        run_desc(ctx, d, desc, meta, pending)
        if len(pending) >= 4000:
            flush(ctx, pending)
    for d, desc, meta, ok in gen_sa_ops(ctx, rng, (1 if not ctx.thorough else 6) * scale):
        meta["stream"] = "sa-ops"
        ctx.hist("stream", "sa-ops")
        ctx.hist("dialect", d)
        ctx.hist("template", meta["template"])
        ctx.hist("schema_kind", meta["schema_kind"])
        if ok:
            run_desc(ctx, d, desc, meta, pending)
        else:
            recs, err = I.apply_op(I.Ctx.get(d), desc)
            ctx.evaluation()
            ctx.hist("expected_not_implemented", "%s:%s:%s" % (d, meta["template"], type(err).__name__ if err else "no-error"))
            if not isinstance(err, NotImplementedError):
                ctx.disagree("ident.op", {"dialect": d, "desc": desc}, repr(err), "expected NotImplementedError (SQLite has no ALTER for constraints)")
        if len(pending) >= 4000:
            flush(ctx, pending)
    flush(ctx, pending)
    for d, desc, meta in gen_sequences(ctx, rng, (2 if not ctx.thorough else 10) * scale):
        meta["stream"] = "sequences"
        ctx.hist("stream", "sequences")
        ctx.hist("dialect", d)
        ctx.hist("template", meta["template"])
        run_desc(ctx, d, desc, meta, pending)
    flush(ctx, pending)
    check_raises(ctx)
    ctx.exhaustive = True  # the class product is enumerated; inside a class names are random


def search(ctx):
    run(ctx, rng_name="search", scale=3)


# ------------------------------------------------------------------------------------------------
def classify(failure):
    """Narrow structural signatures of the known findings (construct + dialect + name class + form of the text)."""
    inp = failure.get("input") or {}
    cj = inp.get("construct") or {}
    d = inp.get("dialect")
    k = cj.get("c")
    emitted = (failure.get("impl") or {}).get("emitted") or ""
    allnames = I.all_names(cj)
    if any("\t" in n for n in allnames) and "\t" not in emitted:
        return "C14-TAB"
    sch = (inp.get("by") or inp.get("desc") or {}).get("schema")
    if (d in ("mysql", "mariadb") and k == "mysqlDropConstraint" and isinstance(sch, str) and "." in sch
            and emitted.startswith("ALTER TABLE `%s`." % sch.replace("`", "``").replace("%", "%%"))):
        return "C14-MYSQL-DROP-DOTTED"
    if d in ("postgresql", "mysql", "mariadb") and any("%" in n for n in allnames) and "%%" in emitted:
        return "C14-PERCENT"
    return None


def _spec_of(ctx, dialect, whole):
    c = I.Ctx.get(dialect)
    recs, err = records_of(dialect, whole)
    out = []
    for idx, (desc, el, emitted, raw) in enumerate(recs):
        cj = I.describe(c, el)
        if cj is None or cj.get("c") == "?":
            continue
        ecj = expected_construct(cj, desc)
        a = ctx.drv.ask1({"op": "ident.stmt", "kind": dialect, "reserved": c.reserved(I.all_names(cj) + I.all_names(ecj)),
                          "construct": cj, "specConstruct": ecj, "emitted": emitted})
        out.append({"index": idx, "by": desc, "construct": cj, "emitted": emitted, "model": dec(a.get("emit")), "spec": a.get("spec"), "tokens": dec_toks(a.get("toks"))})
    return out, err


def check_witness(ctx, finding):
    w = finding["witness"]
    res, err = _spec_of(ctx, w["dialect"], w["desc"])
    bad = [r for r in res if r["spec"] is not True]
    if bad:
        return "%s -> %s" % (w["desc"], bad[0]["emitted"])
    return None


def replay(ctx, case):
    inp = case["input"]
    res, err = _spec_of(ctx, inp["dialect"], inp["desc"])
    return {"dialect": inp["dialect"], "op": inp["desc"], "error": repr(err) if err else None, "statements": res}
