"""C19 - every revision file in the configured locations is loaded exactly once.

Implementation side: the real `ScriptDirectory.from_config(cfg)` over a generated directory
tree materialised in a scratch directory (tempfile.mkdtemp, removed after each case): real
`.py` modules, real byte-code files made by py_compile (legacy `x.pyc` layout and
`__pycache__/x.<tag>.pyc` layout), symlinked files/directories, 0-3 version locations.
Observed: the scripts yielded by `_load_revisions` (canonical file + revision id, in order),
the keys of `revision_map._revision_map`, `walk_revisions()` ids, and the warnings
("loaded twice", "present more than once").  The tree handed to the Lean model is read back
from the real scratch directory (os.scandir / os.path.realpath), not taken from the plan.

Three correspondence streams:  files.match (the file-name regexes),  files.split
(`version_locations` splitting in from_config),  files.load (the whole discovery).
The Lean spec `Spec.Files.judge` / `errorJustified` is evaluated on the implementation's output.
"""
from __future__ import annotations

import os
import tempfile

from alembic.script import ScriptDirectory

from .. import files_fs as F

PROPERTY = "C19"
DRIVER = "drv_files"
THEOREMS = [
    "C19.loaded_once",
    "C19.loaded_sound",
    "C19.loaded_complete",
    "C19.exact",
    "C19.ids_right",
    "C19.error_loud",
    "C19.loads_when_loadable",
    "C19.dup_id",
    "C19.dup_id_expected",
    "C19.map_keys",
    "C19.split",
    "C19.split_legacy",
    "C19.checker_expected",
    "C19.checker_exact",
]
PARTIAL = {}
TRUSTED = [
    "the abstract filesystem handed to the model is read back from the real scratch tree by harness/files_fs.py "
    "(os.scandir, os.path.realpath, os.path.exists); os.walk order, realpath and byte-code loading are the platform's",
    "what importing a generated file yields (revision id / no `revision` attribute / raises) is taken from the generator's "
    "manifest; `.pyo` files are recorded as unloadable because importlib has no loader for them on CPython >= 3.5",
]
RULE = (
    "trees: 1-3 top directories (+ optional scripts/versions), nested sub-directories, per directory 0-4 module stems in "
    "forms .py/.pyc/.pyo/__pycache__ entries/.txt, __init__, __init__-prefixed, .#lock, plain files, file and directory "
    "symlinks; 0-3 version locations (overlapping/ancestor/descendant/alias/missing/default); every tree is run under all "
    "four (sourceless, recursive) settings with a random version_path_separator; a case is non-trivial when at least one "
    "file is listed; distinct by (settings, listed names, loaded ids, warnings)"
)
ASSUMPTIONS = [
    "file and directory names contain no newline; no dangling symlinks; no sub-directories inside __pycache__; no file named like '.py'/'..pyc' (only leading dots before the suffix: os.path.splitext finds no extension and load_python_file asserts)",
    "a canonical (realpath) file is judged by its real name and real directory (this is also what the implementation does)",
    "no version location is itself named '...__pycache__' (outside the property's quantifier; the model still mirrors the "
    "implementation's behaviour there and is compared with it)",
    "every revision module defines down_revision (a module without it fails with AttributeError in Script.__init__, not modelled)",
]

SEPS = [None, "space", "newline", "os", ":", ";"]
SEP_CHAR = {"space": " ", "newline": "\n", "os": os.pathsep, ":": ":", ";": ";"}


# --------------------------------------------------------------------------------------
# stream 1: the regexes
# --------------------------------------------------------------------------------------

NAME_ALPHABET = list("._#pycoinit_a0f9xZ-") + ["__init__", ".py", ".pyc", ".pyo", ".#", "__pycache__", " ", "\t"]


def gen_name(rng):
    r = rng.random()
    if r < 0.3:
        stem = rng.choice(F.STEMS + F.SPECIAL_STEMS + F.INIT_PREFIXED + ["", "__init__.", "__init", "_init__", ".", "#", "x.#"])
        return stem + rng.choice(["", ".py", ".pyc", ".pyo", ".pyx", "py", ".py.bak", ".PY", ".pyco", ".pycc", "." + F.TAG + ".pyc", "__pycache__"])
    return "".join(rng.choice(NAME_ALPHABET) for _ in range(rng.randint(0, 7)))


def stream_match(ctx, n):
    rng = ctx.rng("match")
    names = [gen_name(rng) for _ in range(n)]
    ops = []
    for nm in names:
        ops.append({"op": "files.match", "name": nm, "sourceless": True})
        ops.append({"op": "files.match", "name": nm, "sourceless": False})
    ans = ctx.drv.ask(ops)
    for i, nm in enumerate(names):
        for k, (key, sl) in enumerate((("sourceless", True), ("source", False))):
            m = F.REGEXES[key].match(nm)
            impl = None if not m else [m.group(1), (m.group(2) or "") if sl else ""]
            lg = F.REGEXES["legacy"].match(nm)
            impl_all = {"match": impl, "legacy": lg.group(1) if lg else None, "stem": nm.split(".")[0],
                        "cacheDir": nm.endswith("__pycache__"), "strip": nm.strip()}
            ctx.evaluation()
            if ans[2 * i + k] != impl_all:
                ctx.disagree("files.match", {"name": nm, "sourceless": sl}, impl_all, ans[2 * i + k])
            else:
                ctx.trace_ok()
        ctx.hist("match_outcome", "match" if F.REGEXES["sourceless"].match(nm) else "no-match")


# --------------------------------------------------------------------------------------
# stream 2: version_locations splitting
# --------------------------------------------------------------------------------------

PIECE_ALPHABET = list("ab/._-%s") + [" ", " ", ",", ":", ";", "\n", "\t", " ", " ", "\x1f", "\r"]


def gen_split_case(rng):
    """returns (sep option, string, listed paths or None). `listed` is set when the string was made by joining
    clean paths (no separator character inside, no surrounding white space, non-empty): then the property's
    splitting clause says the result must be exactly `listed`."""
    sep = rng.choice(SEPS + ["comma", "", "OS"]) if rng.random() < 0.1 else rng.choice(SEPS)
    if rng.random() < 0.5:
        n = rng.randint(1, 4)
        bad = {None: " ,", "space": " ", "newline": "\n", "os": os.pathsep, ":": ":", ";": ";"}.get(sep, "")
        paths = []
        for _ in range(n):
            p = "".join(rng.choice("abc/._-xyz :;,") for _ in range(rng.randint(1, 8)))
            p = "".join(c for c in p if c not in bad).strip()
            paths.append(p or "v")
        if sep is None:
            joiner = rng.choice([" ", ", ", ",", "  ", ",   "])
        elif sep in SEP_CHAR:
            joiner = SEP_CHAR[sep]
            if sep != "space" and rng.random() < 0.3:
                joiner = joiner + "  "  # stripped
            if sep == "space" and rng.random() < 0.3:
                joiner = "   "  # empty pieces are dropped
        else:
            joiner = " "
        s = joiner.join(paths)
        if sep in SEP_CHAR and rng.random() < 0.2:
            s = s + SEP_CHAR[sep]
        return sep, s, (paths if (sep is None or sep in SEP_CHAR) else None)
    s = "".join(rng.choice(PIECE_ALPHABET) for _ in range(rng.randint(0, 10))).replace("%", "")
    return sep, s, None


def impl_split(script_dir, sep, s):
    cfg = F.make_config(script_dir, version_locations=s, sep=sep)
    try:
        sd = ScriptDirectory.from_config(cfg)
    except ValueError:
        return {"err": "ValueError"}
    vl = sd.version_locations
    # `if self.version_locations:` - an empty list behaves like None (default versions directory)
    return {"locations": list(vl) if vl else None}


def stream_split(ctx, n):
    rng = ctx.rng("split")
    tmp = tempfile.mkdtemp(prefix="c19s_")
    try:
        cases = [gen_split_case(rng) for _ in range(n)]
        ops = [{"op": "files.split", "sep": sep, "pathsep": os.pathsep, "s": s} for sep, s, _ in cases]
        ans = ctx.drv.ask(ops)
        for (sep, s, listed), m in zip(cases, ans):
            impl = impl_split(tmp, sep, s)
            ctx.evaluation()
            ctx.hist("split_sep", sep)
            inp = {"sep": sep, "s": s}
            if impl != m:
                ctx.disagree("files.split", inp, impl, m)
            else:
                ctx.trace_ok()
            if listed is not None:
                ctx.hist("split_listed", len(listed))
                ctx.nontrivial(("split", sep, s))
                if impl.get("locations") != listed:
                    ctx.fail({"kind": "split", **inp, "listed": listed},
                             "split: version_locations %r with separator %r gives %r, listed %r" % (s, sep, impl, listed),
                             impl=impl, tags=["split"])
    finally:
        os.rmdir(tmp)


# --------------------------------------------------------------------------------------
# stream 3: whole discovery on real trees
# --------------------------------------------------------------------------------------

def join_locations(rng, sep, paths):
    if sep is None:
        return rng.choice([" ", ", ", ","]).join(paths)
    j = SEP_CHAR[sep]
    if sep == "newline" and rng.random() < 0.5:
        return "\n" + "".join("    %s\n" % p for p in paths)
    return j.join(paths)


def plan_features(plan):
    locs = plan["locations"] or []
    feats = []
    if any(not l["dir"] for l in plan["links"]):
        feats.append("file symlink")
    if any(l["dir"] and l["path"].startswith("alias") for l in plan["links"]):
        feats.append("symlinked directory available as location")
    if any(l["dir"] and not l["path"].startswith("alias") for l in plan["links"]):
        feats.append("symlinked sub-directory inside a tree")
    if any(a != b and (a.startswith(b + "/") or b.startswith(a + "/")) for a in locs for b in locs):
        feats.append("location nested in another location")
    if len(set(locs)) < len(locs):
        feats.append("same location listed twice")
    if any(l.startswith("alias") for l in locs):
        feats.append("location reached through a symlink")
    if "missing_dir" in locs:
        feats.append("missing location")
    if any("/__pycache__/" in f["path"] for f in plan["files"]):
        feats.append("__pycache__ entries")
    if any(f["path"].endswith(".pyo") for f in plan["files"]):
        feats.append(".pyo files")
    if any(f["path"].endswith(".pyc") and "/__pycache__/" not in f["path"] for f in plan["files"]):
        feats.append("legacy .pyc next to source")
    if any(os.path.basename(f["path"]).startswith("__init__.") for f in plan["files"]):
        feats.append("__init__ module")
    if any(os.path.basename(f["path"]).startswith(".#") for f in plan["files"]):
        feats.append("editor lock file")
    if any(f["kind"] == "plain" for f in plan["files"]):
        feats.append("non-python files")
    if any(d.count("/") >= 1 and not d.endswith("__pycache__") and d != "scripts/versions" for d in plan["dirs"]):
        feats.append("nested sub-directories")
    return feats


def run_tree(ctx, plan, settings, pending):
    """settings: list of (sourceless, recursive, sep, joined-string-seed)"""
    for ft in plan_features(plan):
        ctx.hist("tree_features", ft)
    ctx.hist("tree_files", min(len(plan["files"]), 20))
    with F.Scratch(plan) as sc:
        fs = sc.scan()
        script_dir = os.path.join(sc.root, "scripts")
        for sourceless, recursive, sep, jseed in settings:
            inp = {"kind": "tree", "plan": plan, "sourceless": sourceless, "recursive": recursive, "sep": sep, "jseed": jseed}
            vl = None
            if plan["locations"] is not None:
                import random

                vl = join_locations(random.Random(jseed), sep, [os.path.join(sc.root, p) for p in plan["locations"]])
            cfg = F.make_config(script_dir, version_locations=vl, sep=sep if vl is not None else None,
                                recursive=recursive, sourceless=sourceless)
            impl = F.run_impl(sc, cfg)
            # the locations as the implementation resolved them
            locs = [sc.scan_location(p) for p in impl["resolved"]]
            split_op = {"op": "files.split", "sep": sep if vl is not None else None, "pathsep": os.pathsep, "s": vl}
            base = {"fs": fs, "cfg": {"sourceless": sourceless, "recursive": recursive}, "locs": locs}
            names = {i: n["path"] for i, n in enumerate(sc.nodes)}
            pending.append((inp, impl, split_op, base, names, sc.root))


def flush(ctx, pending):
    ops = []
    for inp, impl, split_op, base, names, root in pending:
        ops.append(split_op)
        ops.append({"op": "files.load", **base})
        simpl = {"err": True} if "err" in impl else {"loaded": impl["loaded"], "keys": impl["keys"], "dupWarn": impl["dupWarn"]}
        ops.append({"op": "files.spec", **base, "impl": simpl})
    ans = ctx.drv.ask(ops)
    for k, (inp, impl, split_op, base, names, root) in enumerate(pending):
        msplit, mload, spec = ans[3 * k], ans[3 * k + 1], ans[3 * k + 2]
        ctx.evaluation()
        small = {"sourceless": inp["sourceless"], "recursive": inp["recursive"], "sep": inp["sep"], "locations": inp["plan"]["locations"]}
        # ---- model vs implementation ------------------------------------------------
        impl_vl = impl["version_locations"] or None
        ok = True
        if msplit.get("locations") != impl_vl:
            ctx.disagree("files.split", inp, impl_vl, msplit)
            ok = False
        if "err" in impl:
            if mload.get("err") != impl["err"]:
                ctx.disagree("files.load", inp, impl, mload)
                ok = False
        else:
            for key in ("loaded", "twice", "keys", "dupWarn"):
                if mload.get(key) != impl[key]:
                    ctx.disagree("files.load", inp, {k2: impl.get(k2) for k2 in ("loaded", "twice", "keys", "dupWarn")},
                                 {k2: mload.get(k2) for k2 in ("err", "loaded", "twice", "keys", "dupWarn")}, note=key)
                    ok = False
                    break
            if impl["other_warnings"]:
                ctx.disagree("files.load", inp, impl["other_warnings"], None, note="unexpected warning")
                ok = False
        if ok:
            ctx.trace_ok()
        # ---- distribution ---------------------------------------------------------------
        ctx.hist("settings", "sourceless=%s recursive=%s" % (inp["sourceless"], inp["recursive"]))
        ctx.hist("separator", inp["sep"] if inp["plan"]["locations"] is not None else "(default versions dir)")
        ctx.hist("n_locations", 0 if inp["plan"]["locations"] is None else len(inp["plan"]["locations"]))
        listed = mload.get("listed")
        if "err" in impl:
            ctx.hist("outcome", "error:" + impl["err"])
        else:
            ctx.hist("outcome", "loaded")
            ctx.hist("n_loaded", len(impl["loaded"]))
            ctx.hist("n_loaded_twice_warnings", min(len(impl["twice"]), 9))
            ctx.hist("n_duplicate_id_warnings", min(len(impl["dupWarn"]), 5))
            if listed:
                ctx.nontrivial(repr((inp["sourceless"], inp["recursive"], [l[0] for l in listed], impl["loaded"], impl["twice"], impl["dupWarn"])))
        # ---- the specification on the implementation's output -----------------------------
        if "holds" not in spec:
            ctx.disagree("files.spec", inp, impl, spec, note="spec op failed")
            continue
        if not spec.get("rootsOk"):
            ctx.hist("outside_quantifier", "cache-named version location")
            continue
        exp = spec["expected"]
        if "err" in impl:
            if not spec["holds"]:
                ctx.fail(inp, "error: loading failed with %s although every expected revision file is loadable" % impl.get("exc"),
                         impl={"exc": impl.get("exc"), "expected": [names[n] for n in exp]}, tags=["error"])
            continue
        if spec["holds"]:
            # walk_revisions() must give exactly the ids of the map
            if not isinstance(impl["walk"], list) or sorted(set(impl["walk"])) != sorted(set(impl["keys"])):
                if not impl["dupWarn"]:
                    ctx.fail(inp, "walk: walk_revisions() gives %r, revision map has %r" % (impl["walk"], impl["keys"]),
                             impl=impl, tags=["walk"])
            if len(ctx.samples) < 5 and len(names) >= 4 and impl["loaded"] and (impl["twice"] or impl["dupWarn"]):
                ctx.sample({"settings": small, "files": sorted(names.values()),
                            "loaded": [[names.get(n), r] for n, r in impl["loaded"]],
                            "loaded_twice_warnings": [names.get(n) for n in impl["twice"]], "duplicate_id_warnings": impl["dupWarn"]})
            continue
        lnodes = [n for n, _ in impl["loaded"]]
        missing = [n for n in exp if n not in lnodes]
        extra = [n for n in lnodes if n not in exp]
        firstbad = [f for f in ("once", "onlyExpected", "allExpected", "idsRight", "keysRight", "dupReported") if not spec[f]]
        tags = list(firstbad)
        ctx.fail(inp, "%s: settings %s; missing %s; unexpected %s; loaded %s; duplicate-id warnings %s" % (
            firstbad[0], small, [names.get(n) for n in missing], [names.get(n) for n in extra],
            [[names.get(n), r] for n, r in impl["loaded"]], impl["dupWarn"]),
            impl={"loaded": [[names.get(n), r] for n, r in impl["loaded"]], "keys": impl["keys"], "dupWarn": impl["dupWarn"],
                  "expected": [names.get(n) for n in exp], "verdict": {f: spec[f] for f in ("once", "onlyExpected", "allExpected", "idsRight", "keysRight", "dupReported")}},
            tags=tags)
    pending.clear()


def gen_settings(rng):
    out = []
    for sl in (False, True):
        for rec in (False, True):
            out.append((sl, rec, rng.choice(SEPS), rng.randrange(1 << 30)))
    return out


def stream_trees(ctx, n, rng_name="trees"):
    rng = ctx.rng(rng_name)
    pending = []
    for i in range(n):
        plan = F.gen_plan(rng)
        run_tree(ctx, plan, gen_settings(rng), pending)
        if len(pending) >= 400:
            flush(ctx, pending)
    flush(ctx, pending)


FORMS = ["py", "pyc", "pyo", "cache", "cache2", "txt"]


def form_plan(stem, forms, second_location):
    """one directory `va` holding one module stem in the given forms, every form defining a different id"""
    files = []
    ids = {"py": "s1", "pyc": "c1", "pyo": "o1", "cache": "h1", "cache2": "g1"}
    for f in forms:
        if f == "py":
            files.append({"path": "va/%s.py" % stem, "kind": "src", "content": {"rev": ids[f]}})
        elif f in ("pyc", "pyo"):
            files.append({"path": "va/%s.%s" % (stem, f), "kind": "pyc", "content": {"rev": ids[f]}})
        elif f == "cache":
            files.append({"path": "va/__pycache__/%s.%s.pyc" % (stem, F.TAG), "kind": "pyc", "content": {"rev": ids[f]}})
        elif f == "cache2":
            files.append({"path": "va/__pycache__/%s.%s.opt-1.pyc" % (stem, F.TAG), "kind": "pyc", "content": {"rev": ids[f]}})
        else:
            files.append({"path": "va/%s.txt" % (stem.split(".")[0] or "dot"), "kind": "plain", "content": None})
    links = [{"path": "alias0", "target": "va", "dir": True}] if second_location else []
    return {"dirs": ["scripts", "va"], "files": files, "links": links,
            "locations": ["va", "alias0"] if second_location else ["va"]}


def stream_forms(ctx):
    """Exhaustive: every subset of the six forms of one module stem, under all four settings
    (and, thorough tier, also reached a second time through a symlinked location)."""
    stems = ["a1", "__init__", ".#a1", "x.y"] if ctx.thorough else ["a1", "__init__"]
    pending = []
    n = 0
    for stem in stems:
        for mask in range(1, 1 << len(FORMS)):
            forms = [f for i, f in enumerate(FORMS) if mask >> i & 1]
            for second in ((False, True) if ctx.thorough else (False,)):
                plan = form_plan(stem, forms, second)
                run_tree(ctx, plan, [(sl, rec, "os", 0) for sl in (False, True) for rec in (False, True)], pending)
                n += 4
        flush(ctx, pending)
    ctx.extra["exhaustive_domain"] = "forms lattice: stems %s x all non-empty subsets of %s x (sourceless, recursive) = %d cases" % (stems, FORMS, n)
    ctx.exhaustive = True


def run(ctx):
    if F.PYO_LOADABLE:
        ctx.note("this interpreter can load .pyo files; they are modelled with their real content")
    stream_match(ctx, 6000 if ctx.thorough else 1500)
    stream_split(ctx, 6000 if ctx.thorough else 1200)
    stream_forms(ctx)
    stream_trees(ctx, 9000 if ctx.thorough else 220)


def search(ctx):
    stream_trees(ctx, 1500, rng_name="search")


# --------------------------------------------------------------------------------------
# known findings / replay
# --------------------------------------------------------------------------------------

def classify(failure):
    # no open findings: C19-F13 (names starting with __init__ skipped) is fixed in 8adcad9 and suppresses nothing
    return None


def _run_one(ctx, inp):
    pending = []
    run_tree(ctx, inp["plan"], [(inp["sourceless"], inp["recursive"], inp.get("sep"), inp.get("jseed", 0))], pending)
    case = pending[0]
    inp2, impl, split_op, base, names, root = case
    simpl = {"err": True} if "err" in impl else {"loaded": impl["loaded"], "keys": impl["keys"], "dupWarn": impl["dupWarn"]}
    m, s = ctx.drv.ask([{"op": "files.load", **base}, {"op": "files.spec", **base, "impl": simpl}])
    return impl, m, s, names


def check_witness(ctx, finding):
    w = finding["witness"]
    impl, m, s, names = _run_one(ctx, w)
    if "err" in impl:
        return None
    loaded = [names.get(n) for n, _ in impl["loaded"]]
    if w["skipped_file"] not in loaded and not s.get("holds"):
        return "%s is silently skipped (loaded: %s)" % (w["skipped_file"], loaded)
    return None


def replay(ctx, case):
    inp = case["input"]
    if inp.get("kind") == "split":
        tmp = tempfile.mkdtemp(prefix="c19s_")
        try:
            impl = impl_split(tmp, inp["sep"], inp["s"])
        finally:
            os.rmdir(tmp)
        m = ctx.drv.ask1({"op": "files.split", "sep": inp["sep"], "pathsep": os.pathsep, "s": inp["s"]})
        return {"impl": impl, "model": m, "listed": inp.get("listed")}
    impl, m, s, names = _run_one(ctx, inp)
    return {"files": names, "impl": impl, "model": m, "spec": s}
