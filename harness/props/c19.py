"""C19 - every revision file in the configured locations is loaded exactly once.

Implementation side: the real `ScriptDirectory.from_config(cfg)` over a generated directory
tree materialised in a scratch directory (tempfile.mkdtemp, removed after each case): real
`.py` modules, real byte-code files made by py_compile (legacy `x.pyc` layout and
`__pycache__/x.<tag>.pyc` layout), symlinked files/directories, 0-3 version locations.
Observed: the scripts yielded by `_load_revisions` (canonical file + revision id, in order),
the keys of `revision_map._revision_map`, `walk_revisions()` ids, and the warnings
("loaded twice", "present more than once").  The tree handed to the Lean model is read back
from the real scratch directory (os.scandir / os.path.realpath), not taken from the plan.

Three correspondence streams:  files.match (the file-name regexes),  files.split
(`version_locations` splitting in from_config),  files.load (the whole discovery).
The Lean spec `Spec.Files.judge` / `errorJustified` is evaluated on the implementation's output.
"""
from __future__ import annotations

import os
import tempfile

from alembic.script import ScriptDirectory

from .. import files_fs as F

PROPERTY = "C19"
DRIVER = "drv_files"
THEOREMS = [
    "C19.loaded_once",
    "C19.loaded_sound",
    "C19.loaded_complete",
    "C19.exact",
    "C19.ids_right",
    "C19.error_loud",
    "C19.loads_when_loadable",
    "C19.dup_id",
    "C19.dup_id_expected",
    "C19.map_keys",
    "C19.split",
    "C19.split_legacy",
    "C19.checker_expected",
    "C19.checker_exact",
    "C19.compiled_needs_no_source",
    "C19.load_prefers_source",
    "C19.name_rule",
    "C19.isRevFile_name",
    "C19.pycache_listing_rule",
    "C19.pycache_entry_loaded_once",
    "C19.pycache_entry_shadowed",
    "C19.twice_warning",
    "C19.only_source_unless_sourceless",
]
PARTIAL = {}
TRUSTED = [
    "which directory a configured location denotes is resolved by the harness and is a parameter of the model/spec (absolute path, "
    "path relative to the working directory, %(here)s of the ini file, package resource 'pkg:dir', 'pkg:dir/sub', 'pkg:dir:sub' = "
    "<directory of the importable package pkg>/dir/sub); the implementation's own resolution is only compared with it",
    "the abstract filesystem handed to the model is read back from the real scratch tree by harness/files_fs.py "
    "(os.scandir, os.path.realpath, os.path.exists); os.walk order, realpath and byte-code loading are the platform's",
    "what importing a generated file yields (revision id / no `revision` attribute / raises) is taken from the generator's "
    "manifest; `.pyo` files are recorded as unloadable because importlib has no loader for them on CPython >= 3.5",
]
RULE = (
    "trees: 1-3 top directories (+ optional scripts/versions), nested sub-directories, per directory 0-4 module stems in "
    "forms .py/.pyc/.pyo/__pycache__ entries/.txt, __init__, __init__-prefixed, .#lock, plain files, file and directory "
    "symlinks; 0-3 version locations (overlapping/ancestor/descendant/alias/missing/default); every tree is run under all "
    "four (sourceless, recursive) settings with a random version_path_separator; a case is non-trivial when at least one "
    "file is listed; distinct by (settings, listed names, loaded ids, warnings).  The configuration reaches from_config either "
    "programmatically (Config() + set_main_option) or through a real alembic.ini (default or other section, %(here)s, multi-line "
    "values, [post_write_hooks], truncate_slug_length); locations are written absolute, relative to the working directory, with a "
    "trailing slash, or as package resources 'pkg:dir'; false settings are spelled 'false' or left out; version_locations may be "
    "the empty string; prepend_sys_path in every separator spelling.  One setting per tree also runs Script._from_path on every "
    "file of the tree.  Deterministic batteries: prepend_sys_path x helper import, load_python_file/pyc_file_from_path over all "
    "16 presence combinations of (source, __pycache__, .pyc, .pyo), configurations that must be refused loudly, version locations "
    "that are textual prefixes of one another (v1/v10/v1_ext, sub/sub2) or a symlinked sub-directory of another location, in every order.  "
    "Random trees use the sibling-prefix directory family va/va_ext/va2 in 40 % of the cases"
)
ASSUMPTIONS = [
    "file and directory names contain no newline; no dangling symlinks; no sub-directories inside __pycache__; no file named like '.py'/'..pyc' (only leading dots before the suffix: os.path.splitext finds no extension and load_python_file asserts)",
    "a canonical (realpath) file is judged by its real name and real directory (this is also what the implementation does)",
    "no version location is itself named '...__pycache__' (outside the property's quantifier; the model still mirrors the "
    "implementation's behaviour there and is compared with it)",
    "every revision module defines down_revision (a module without it fails with AttributeError in Script.__init__, not modelled)",
]

SEPS = [None, "space", "newline", "os", ":", ";"]
SEP_CHAR = {"space": " ", "newline": "\n", "os": os.pathsep, ":": ":", ";": ";"}


# --------------------------------------------------------------------------------------
# stream 1: the regexes
# --------------------------------------------------------------------------------------

NAME_ALPHABET = list("._#pycoinit_a0f9xZ-") + ["__init__", ".py", ".pyc", ".pyo", ".#", "__pycache__", " ", "\t"]


def gen_name(rng):
    r = rng.random()
    if r < 0.3:
        stem = rng.choice(F.STEMS + F.SPECIAL_STEMS + F.INIT_PREFIXED + F.LEADING + ["", "__init__.", "__init", "_init__", ".", "#", "x.#"])
        return stem + rng.choice(["", ".py", ".pyc", ".pyo", ".pyx", "py", ".py.bak", ".PY", ".pyco", ".pycc", "." + F.TAG + ".pyc", "__pycache__"])
    return "".join(rng.choice(NAME_ALPHABET) for _ in range(rng.randint(0, 7)))


def stream_match(ctx, n):
    rng = ctx.rng("match")
    names = [gen_name(rng) for _ in range(n)]
    ops = []
    for nm in names:
        ops.append({"op": "files.match", "name": nm, "sourceless": True})
        ops.append({"op": "files.match", "name": nm, "sourceless": False})
    ans = ctx.drv.ask(ops)
    for i, nm in enumerate(names):
        for k, (key, sl) in enumerate((("sourceless", True), ("source", False))):
            m = F.REGEXES[key].match(nm)
            impl = None if not m else [m.group(1), (m.group(2) or "") if sl else ""]
            lg = F.REGEXES["legacy"].match(nm)
            impl_all = {"match": impl, "legacy": lg.group(1) if lg else None, "stem": nm.split(".")[0],
                        "cacheDir": nm.endswith("__pycache__"), "strip": nm.strip()}
            ctx.evaluation()
            a = dict(ans[2 * i + k])
            spec_name = a.pop("specName", None)
            if a != impl_all:
                ctx.disagree("files.match", {"name": nm, "sourceless": sl}, impl_all, a)
            else:
                ctx.trace_ok()
            # the documented name rule (Spec.Files.isRevName) judged on the implementation's regex
            if "\n" not in nm and spec_name is not None and spec_name != (m is not None):
                ctx.fail({"kind": "name", "name": nm, "sourceless": sl},
                         "name: a file called %r %s a revision file name (sourceless=%s) but the file-name regex %s it" % (
                             nm, "is" if spec_name else "is not", sl, "accepts" if m else "skips"),
                         impl=impl, tags=["name"])
        ctx.hist("match_outcome", "match" if F.REGEXES["sourceless"].match(nm) else "no-match")


# --------------------------------------------------------------------------------------
# stream 2: version_locations splitting
# --------------------------------------------------------------------------------------

PIECE_ALPHABET = list("ab/._-%s") + [" ", " ", ",", ":", ";", "\n", "\t", " ", " ", "\x1f", "\r"]


def gen_split_case(rng):
    """returns (sep option, string, listed paths or None). `listed` is set when the string was made by joining
    clean paths (no separator character inside, no surrounding white space, non-empty): then the property's
    splitting clause says the result must be exactly `listed`."""
    sep = rng.choice(SEPS + ["comma", "", "OS"]) if rng.random() < 0.1 else rng.choice(SEPS)
    if rng.random() < 0.5:
        n = rng.randint(1, 4)
        bad = {None: " ,", "space": " ", "newline": "\n", "os": os.pathsep, ":": ":", ";": ";"}.get(sep, "")
        paths = []
        for _ in range(n):
            p = "".join(rng.choice("abc/._-xyz :;,") for _ in range(rng.randint(1, 8)))
            p = "".join(c for c in p if c not in bad).strip()
            paths.append(p or "v")
        if sep is None:
            joiner = rng.choice([" ", ", ", ",", "  ", ",   "])
        elif sep in SEP_CHAR:
            joiner = SEP_CHAR[sep]
            if sep != "space" and rng.random() < 0.3:
                joiner = joiner + "  "  # stripped
            if sep == "space" and rng.random() < 0.3:
                joiner = "   "  # empty pieces are dropped
        else:
            joiner = " "
        s = joiner.join(paths)
        if sep in SEP_CHAR and rng.random() < 0.2:
            s = s + SEP_CHAR[sep]
        return sep, s, (paths if (sep is None or sep in SEP_CHAR) else None)
    s = "".join(rng.choice(PIECE_ALPHABET) for _ in range(rng.randint(0, 10))).replace("%", "")
    return sep, s, None


def impl_split(script_dir, sep, s):
    cfg = F.Config()
    cfg.set_main_option("script_location", script_dir)
    if s is not None:
        cfg.set_main_option("version_locations", s)
    if sep is not None:
        cfg.set_main_option("version_path_separator", sep)
    try:
        sd = ScriptDirectory.from_config(cfg)
    except ValueError:
        return {"err": "ValueError"}
    except Exception as e:  # anything else is a reported outcome, not a harness crash
        return {"err": "raised:%s" % type(e).__name__}
    vl = sd.version_locations
    # `if self.version_locations:` - an empty list behaves like None (default versions directory)
    return {"locations": list(vl) if vl else None}


def stream_split(ctx, n):
    rng = ctx.rng("split")
    tmp = tempfile.mkdtemp(prefix="c19s_")
    try:
        cases = [gen_split_case(rng) for _ in range(n)]
        ops = [{"op": "files.split", "sep": sep, "pathsep": os.pathsep, "s": s} for sep, s, _ in cases]
        ans = ctx.drv.ask(ops)
        for (sep, s, listed), m in zip(cases, ans):
            impl = impl_split(tmp, sep, s)
            ctx.evaluation()
            ctx.hist("split_sep", sep)
            inp = {"sep": sep, "s": s}
            if impl != m:
                ctx.disagree("files.split", inp, impl, m)
            else:
                ctx.trace_ok()
            if listed is not None:
                ctx.hist("split_listed", len(listed))
                ctx.nontrivial(("split", sep, s))
                if impl.get("locations") != listed:
                    ctx.fail({"kind": "split", **inp, "listed": listed},
                             "split: version_locations %r with separator %r gives %r, listed %r" % (s, sep, impl, listed),
                             impl=impl, tags=["split"])
    finally:
        os.rmdir(tmp)


# --------------------------------------------------------------------------------------
# stream 3: whole discovery on real trees
# --------------------------------------------------------------------------------------

def join_locations(rng, sep, paths):
    if sep is None:
        return rng.choice([" ", ", ", ","]).join(paths)
    j = SEP_CHAR[sep]
    if sep == "newline" and rng.random() < 0.5:
        return "\n" + "".join("    %s\n" % p for p in paths)
    return j.join(paths)


def plan_features(plan):
    locs = plan["locations"] or []
    feats = []
    if any(not l["dir"] for l in plan["links"]):
        feats.append("file symlink")
    if any(l["dir"] and l["path"].startswith("alias") for l in plan["links"]):
        feats.append("symlinked directory available as location")
    if any(l["dir"] and not l["path"].startswith("alias") for l in plan["links"]):
        feats.append("symlinked sub-directory inside a tree")
    if any(a != b and (a.startswith(b + "/") or b.startswith(a + "/")) for a in locs for b in locs):
        feats.append("location nested in another location")
    if len(set(locs)) < len(locs):
        feats.append("same location listed twice")
    if any(a != b and a.startswith(b) and not a.startswith(b + "/") for a in locs for b in locs):
        feats.append("sibling locations sharing a textual prefix")
    if any(l["dir"] and l["path"] in locs and not l["path"].startswith("alias") for l in plan["links"]):
        feats.append("location = symlinked sub-directory inside a tree")
    if any(l.startswith("alias") for l in locs):
        feats.append("location reached through a symlink")
    if "missing_dir" in locs:
        feats.append("missing location")
    if any("/__pycache__/" in f["path"] for f in plan["files"]):
        feats.append("__pycache__ entries")
    if any(f["path"].endswith(".pyo") for f in plan["files"]):
        feats.append(".pyo files")
    if any(f["path"].endswith(".pyc") and "/__pycache__/" not in f["path"] for f in plan["files"]):
        feats.append("legacy .pyc next to source")
    if any(os.path.basename(f["path"]).startswith("__init__.") for f in plan["files"]):
        feats.append("__init__ module")
    if any(os.path.basename(f["path"]).startswith(".#") for f in plan["files"]):
        feats.append("editor lock file")
    if any(f["kind"] == "plain" for f in plan["files"]):
        feats.append("non-python files")
    if any(d.count("/") >= 1 and not d.endswith("__pycache__") and d != "scripts/versions" for d in plan["dirs"]):
        feats.append("nested sub-directories")
    return feats


def as_setting(x):
    """settings are dicts; the older tuple form (sourceless, recursive, sep, jseed) is still accepted"""
    if isinstance(x, dict):
        return x
    sl, rec, sep, jseed = x
    return {"sourceless": sl, "recursive": rec, "sep": sep, "jseed": jseed}


def fs_for(fs, st):
    """revision modules that `import` the helper load only when prepend_sys_path makes <root>/lib importable"""
    if not any(isinstance(n["content"], dict) and n["content"].get("needs") for n in fs["nodes"]):
        return fs
    import re as _re
    ok = bool(st.get("prepend")) and "{root}/lib" in _re.split(r"[ ,:]+", st["prepend"])
    nodes = []
    for n in fs["nodes"]:
        c = n["content"]
        if isinstance(c, dict) and c.get("needs"):
            c = {"rev": c["rev"]} if ok else "broken"
        nodes.append({**n, "content": c})
    return {"nodes": nodes, "exists": fs["exists"]}


def run_tree(ctx, plan, settings, pending):
    """settings: list of dicts {sourceless, recursive, sep, jseed, delivery, section, here, resource,
    script_resource, extras, prepend, from_path}"""
    import random

    for ft in plan_features(plan):
        ctx.hist("tree_features", ft)
    ctx.hist("tree_files", min(len(plan["files"]), 20))
    with F.Scratch(plan) as sc:
        fs0 = sc.scan()
        for st in map(as_setting, settings):
            sourceless, recursive, sep = st["sourceless"], st["recursive"], st.get("sep")
            inp = {"kind": "tree", "plan": plan, "sourceless": sourceless, "recursive": recursive, "sep": sep,
                   "jseed": st.get("jseed", 0), "st": st}
            vl = None
            expected = None
            if plan["locations"] is not None:
                strs = F.location_strings(sc, plan, st)
                vl = join_locations(random.Random(st.get("jseed", 0)), sep, [x for x, _ in strs])
                expected = {"strings": [x.replace("%(here)s", sc.root) for x, _ in strs], "paths": [p for _, p in strs]}
            else:
                expected = {"strings": None, "paths": [os.path.join(sc.root, "scripts", "versions")]}
            cfg = F.make_config(sc, plan, st, vl)
            impl = F.run_impl(sc, cfg, st)
            impl["expected_locations"] = expected
            if "config_err" in impl:
                ctx.evaluation()
                ctx.fail(inp, "config: from_config refuses a valid configuration: %s" % impl["config_err"], impl=impl, tags=["config"])
                continue
            # the listed locations are the ones used (the property's splitting clause, judged on the implementation)
            if (impl["version_locations"] or None) != expected["strings"] or impl["resolved"] != expected["paths"]:
                ctx.evaluation()
                ctx.fail(inp, "split: configured locations %r (separator %r, option %r) are used as %r / %r" % (
                    expected["strings"], sep, impl["vl_option"], impl["version_locations"], impl["resolved"]),
                    impl={"version_locations": impl["version_locations"], "resolved": impl["resolved"]}, tags=["split"])
            # the directories the configuration denotes (resolved by the harness: absolute / relative / %(here)s /
            # package-resource spelling are parameters of the case), NOT the implementation's own resolution:
            # a location the implementation mangles into a non-existing path must show up as missing revisions
            try:
                locs = [sc.scan_location(p) for p in expected["paths"]]
            except RuntimeError:
                continue
            # the option string as the Config hands it to from_config (after ConfigParser, for ini delivery)
            split_op = {"op": "files.split", "sep": sep if vl is not None else None, "pathsep": os.pathsep, "s": impl["vl_option"]}
            base = {"fs": fs_for(fs0, st), "cfg": {"sourceless": sourceless, "recursive": recursive}, "locs": locs}
            names = {i: n["path"] for i, n in enumerate(sc.nodes)}
            pending.append((inp, impl, split_op, base, names, sc.root))


def flush(ctx, pending):
    ops = []
    index = []
    for inp, impl, split_op, base, names, root in pending:
        pos = {"split": len(ops)}
        ops.append(split_op)
        pos["load"] = len(ops)
        ops.append({"op": "files.load", **base})
        simpl = {"err": True} if "err" in impl else {"loaded": impl["loaded"], "keys": impl["keys"], "dupWarn": impl["dupWarn"]}
        pos["spec"] = len(ops)
        ops.append({"op": "files.spec", **base, "impl": simpl})
        if "from_path" in impl:
            pos["from"] = len(ops)
            ops.append({"op": "files.fromPath", "fs": base["fs"], "cfg": base["cfg"], "nodes": list(range(len(names)))})
        if impl.get("prepend_option"):
            pos["prep"] = len(ops)
            ops.append({"op": "files.prepend", "s": impl["prepend_option"]})
        index.append(pos)
    ans = ctx.drv.ask(ops)
    for k, (inp, impl, split_op, base, names, root) in enumerate(pending):
        pos = index[k]
        msplit, mload, spec = ans[pos["split"]], ans[pos["load"]], ans[pos["spec"]]
        mfrom = ans[pos["from"]] if "from" in pos else {}
        mprep = ans[pos["prep"]] if "prep" in pos else {}
        ctx.evaluation()
        st = inp.get("st", {})
        ctx.hist("config_delivery", "%s%s%s%s" % (st.get("delivery", "api"), "+other-section" if st.get("section") not in (None, "alembic") else "",
                                                  "+%(here)s" if st.get("here") and st.get("delivery") == "ini" else "",
                                                  ("+package-resource(%s)" % ("pkg:dir:sub" if st.get("resource") == "colon" else "pkg:dir/sub"))
                                                  if st.get("resource") and inp["sep"] not in (":", "os") else ""))
        for flag, label in (("relative", "relative paths (cwd)"), ("slash", "trailing slash"), ("omit_false", "false settings left out"),
                            ("script_resource", "script_location as package resource"), ("extras", "truncate_slug_length + [post_write_hooks]")):
            if st.get(flag):
                ctx.hist("config_variants", label)
        if inp["plan"]["locations"] is None and st.get("empty_option"):
            ctx.hist("config_variants", "version_locations = '' (empty)")
        # ---- Script._from_path on every file: model = fromFilename ------------------------------
        if "from_path" in impl:
            ctx.hist("from_path_files", min(len(names), 20))
            for i, (got, want) in enumerate(zip(impl["from_path"], mfrom.get("spec") or [])):
                g = got if got is None or got[0] == "ok" else ["err"]
                if g != want:
                    ctx.fail(inp, "frompath: Script._from_path(%s) gives %r, the file taken alone is %r" % (names[i], got, want),
                             impl=got, tags=["frompath"])
                    break
            if mfrom.get("results") != impl["from_path"]:
                bad = [(names[i], a, b) for i, (a, b) in enumerate(zip(impl["from_path"], mfrom.get("results") or [])) if a != b]
                ctx.disagree("files.fromPath", inp, bad[:5], None, note="Script._from_path vs fromFilename")
        # ---- prepend_sys_path: what from_config put in front of sys.path ------------------------------
        if impl.get("prepend_option"):
            ctx.hist("prepend_sys_path", "set")
            if impl["sys_path_new"] != mprep.get("entries"):
                ctx.disagree("files.prepend", inp, impl["sys_path_new"], mprep)
            want = [x for x in __import__("re").split(r"[ ,:]+", st["prepend"].replace("{root}", root)) if x]
            if [x for x in (impl["sys_path_new"] or []) if x] != want:
                ctx.fail(inp, "prepend: prepend_sys_path %r puts %r in front of sys.path, listed %r" % (impl["prepend_option"], impl["sys_path_new"], want),
                         impl={"inserted": impl["sys_path_new"], "sys.path[:6]": impl.get("sys_path_head")}, tags=["prepend"])
        small = {"sourceless": inp["sourceless"], "recursive": inp["recursive"], "sep": inp["sep"], "locations": inp["plan"]["locations"]}
        # ---- model vs implementation ------------------------------------------------
        impl_vl = impl["version_locations"] or None
        ok = True
        if msplit.get("locations") != impl_vl:
            ctx.disagree("files.split", inp, impl_vl, msplit)
            ok = False
        if "err" in impl:
            if mload.get("err") != impl["err"]:
                ctx.disagree("files.load", inp, impl, mload)
                ok = False
        else:
            for key in ("loaded", "twice", "keys", "dupWarn"):
                if mload.get(key) != impl[key]:
                    ctx.disagree("files.load", inp, {k2: impl.get(k2) for k2 in ("loaded", "twice", "keys", "dupWarn")},
                                 {k2: mload.get(k2) for k2 in ("err", "loaded", "twice", "keys", "dupWarn")}, note=key)
                    ok = False
                    break
            if impl["other_warnings"]:
                ctx.disagree("files.load", inp, impl["other_warnings"], None, note="unexpected warning")
                ok = False
        if ok:
            ctx.trace_ok()
        # ---- distribution ---------------------------------------------------------------
        ctx.hist("settings", "sourceless=%s recursive=%s" % (inp["sourceless"], inp["recursive"]))
        ctx.hist("separator", inp["sep"] if inp["plan"]["locations"] is not None else "(default versions dir)")
        ctx.hist("n_locations", 0 if inp["plan"]["locations"] is None else len(inp["plan"]["locations"]))
        listed = mload.get("listed")
        if "err" in impl:
            ctx.hist("outcome", "error:" + impl["err"])
        else:
            ctx.hist("outcome", "loaded")
            ctx.hist("n_loaded", len(impl["loaded"]))
            ctx.hist("n_loaded_twice_warnings", min(len(impl["twice"]), 9))
            ctx.hist("n_duplicate_id_warnings", min(len(impl["dupWarn"]), 5))
            if listed:
                ctx.nontrivial(repr((inp["sourceless"], inp["recursive"], [l[0] for l in listed], impl["loaded"], impl["twice"], impl["dupWarn"])))
        # ---- the specification on the implementation's output -----------------------------
        if "holds" not in spec:
            ctx.disagree("files.spec", inp, impl, spec, note="spec op failed")
            continue
        if not spec.get("rootsOk"):
            ctx.hist("outside_quantifier", "cache-named version location")
            continue
        exp = spec["expected"]
        if "err" in impl:
            if not spec["holds"]:
                ctx.fail(inp, "error: loading failed with %s although every expected revision file is loadable" % impl.get("exc"),
                         impl={"exc": impl.get("exc"), "expected": [names[n] for n in exp]}, tags=["error"])
            continue
        if spec["holds"]:
            # walk_revisions() must give exactly the ids of the map
            if not isinstance(impl["walk"], list) or sorted(set(impl["walk"])) != sorted(set(impl["keys"])):
                if not impl["dupWarn"]:
                    ctx.fail(inp, "walk: walk_revisions() gives %r, revision map has %r" % (impl["walk"], impl["keys"]),
                             impl=impl, tags=["walk"])
            if len(ctx.samples) < 5 and len(names) >= 4 and impl["loaded"] and (impl["twice"] or impl["dupWarn"]):
                ctx.sample({"settings": small, "files": sorted(names.values()),
                            "loaded": [[names.get(n), r] for n, r in impl["loaded"]],
                            "loaded_twice_warnings": [names.get(n) for n in impl["twice"]], "duplicate_id_warnings": impl["dupWarn"]})
            continue
        lnodes = [n for n, _ in impl["loaded"]]
        missing = [n for n in exp if n not in lnodes]
        extra = [n for n in lnodes if n not in exp]
        firstbad = [f for f in ("once", "onlyExpected", "allExpected", "idsRight", "keysRight", "dupReported") if not spec[f]]
        tags = list(firstbad)
        ctx.fail(inp, "%s: settings %s; missing %s; unexpected %s; loaded %s; duplicate-id warnings %s" % (
            firstbad[0], small, [names.get(n) for n in missing], [names.get(n) for n in extra],
            [[names.get(n), r] for n, r in impl["loaded"]], impl["dupWarn"]),
            impl={"loaded": [[names.get(n), r] for n, r in impl["loaded"]], "keys": impl["keys"], "dupWarn": impl["dupWarn"],
                  "expected": [names.get(n) for n in exp], "verdict": {f: spec[f] for f in ("once", "onlyExpected", "allExpected", "idsRight", "keysRight", "dupReported")}},
            tags=tags)
    pending.clear()


def gen_settings(rng):
    out = []
    fp = rng.randrange(4)  # one of the four settings of each tree also runs Script._from_path on every file
    for i, (sl, rec) in enumerate(((False, False), (False, True), (True, False), (True, True))):
        st = {"sourceless": sl, "recursive": rec, "sep": rng.choice(SEPS), "jseed": rng.randrange(1 << 30)}
        r = rng.random()
        if r < 0.45:
            st["delivery"] = "ini"
            st["section"] = "other" if rng.random() < 0.25 else "alembic"
            st["here"] = rng.random() < 0.6
            st["extras"] = rng.random() < 0.4
        if rng.random() < 0.2:
            st["relative"] = True
        if rng.random() < 0.2:
            st["slash"] = True
        if rng.random() < 0.3:
            st["omit_false"] = True
        if rng.random() < 0.4:
            st["empty_option"] = True
        if rng.random() < 0.25:
            st["resource"] = rng.choice(["slash", "colon"])
        if rng.random() < 0.1:
            st["script_resource"] = True
        if rng.random() < 0.15:
            st["prepend"] = rng.choice(["{root}/lib9", "{root}/lib8 {root}/lib9", "{root}/lib8:{root}/lib9", "{root}/lib8, {root}/lib9", "{root}/lib8,{root}/lib9"])
        if i == fp:
            st["from_path"] = True
        out.append(st)
    return out


def stream_trees(ctx, n, rng_name="trees"):
    rng = ctx.rng(rng_name)
    pending = []
    for i in range(n):
        plan = F.gen_plan(rng)
        run_tree(ctx, plan, gen_settings(rng), pending)
        if len(pending) >= 400:
            flush(ctx, pending)
    flush(ctx, pending)


FORMS = ["py", "pyc", "pyo", "cache", "cache2", "txt"]


def form_plan(stem, forms, second_location):
    """one directory `va` holding one module stem in the given forms, every form defining a different id"""
    files = []
    ids = {"py": "s1", "pyc": "c1", "pyo": "o1", "cache": "h1", "cache2": "g1"}
    for f in forms:
        if f == "py":
            files.append({"path": "va/%s.py" % stem, "kind": "src", "content": {"rev": ids[f]}})
        elif f in ("pyc", "pyo"):
            files.append({"path": "va/%s.%s" % (stem, f), "kind": "pyc", "content": {"rev": ids[f]}})
        elif f == "cache":
            files.append({"path": "va/__pycache__/%s.%s.pyc" % (stem, F.TAG), "kind": "pyc", "content": {"rev": ids[f]}})
        elif f == "cache2":
            files.append({"path": "va/__pycache__/%s.%s.opt-1.pyc" % (stem, F.TAG), "kind": "pyc", "content": {"rev": ids[f]}})
        else:
            files.append({"path": "va/%s.txt" % (stem.split(".")[0] or "dot"), "kind": "plain", "content": None})
    links = [{"path": "alias0", "target": "va", "dir": True}] if second_location else []
    return {"dirs": ["scripts", "va"], "files": files, "links": links,
            "locations": ["va", "alias0"] if second_location else ["va"]}


def stream_forms(ctx):
    """Exhaustive: every subset of the six forms of one module stem, under all four settings
    (and, thorough tier, also reached a second time through a symlinked location)."""
    stems = ["a1", "__init__", ".#a1", "x.y"] if ctx.thorough else ["a1", "__init__"]
    pending = []
    n = 0
    for stem in stems:
        for mask in range(1, 1 << len(FORMS)):
            forms = [f for i, f in enumerate(FORMS) if mask >> i & 1]
            for second in ((False, True) if ctx.thorough else (False,)):
                plan = form_plan(stem, forms, second)
                run_tree(ctx, plan, [(sl, rec, "os", 0) for sl in (False, True) for rec in (False, True)], pending)
                n += 4
        flush(ctx, pending)
    ctx.extra["exhaustive_domain"] = "forms lattice: stems %s x all non-empty subsets of %s x (sourceless, recursive) = %d cases" % (stems, FORMS, n)
    ctx.exhaustive = True


def stream_prefix_locations(ctx):
    """Deterministic battery: version locations whose paths are textual prefixes of one another without being
    nested (v1 / v10 / v1_ext, v1/sub / v1/sub2), genuinely nested ones, and a location that is a symlinked
    sub-directory of another location (os.walk does not descend into it) - every order, all four settings."""
    def f(path, rev):
        return {"path": path, "kind": "src", "content": {"rev": rev}}

    plan0 = {"dirs": ["scripts", "v1", "v10", "v1_ext", "v1/sub", "v1/sub2", "v10/deep", "vx"],
             "files": [f("v1/a1.py", "q1"), f("v10/b2.py", "q2"), f("v1_ext/c3.py", "q3"), f("v1/sub/d4.py", "q4"),
                       f("v1/sub2/e5.py", "q5"), f("v10/deep/f6.py", "q6"), f("vx/g7.py", "q7")],
             "links": [{"path": "v1/lsub", "target": "vx", "dir": True}]}
    pending = []
    for k, locs in enumerate((["v1", "v10"], ["v10", "v1"], ["v1", "v1_ext", "v10"], ["v1_ext", "v1"], ["v1/sub", "v1/sub2"],
                              ["v1/sub2", "v1/sub"], ["v1", "v1/lsub"], ["v1/lsub", "v1"], ["v1", "v1/sub"], ["v1/sub", "v1", "v10"])):
        plan = {**plan0, "locations": locs}
        seps = [None, "os", "newline", "space"]
        run_tree(ctx, plan, [{"sourceless": sl, "recursive": rec, "sep": seps[(k + i) % 4], "jseed": k,
                              "delivery": "ini" if (k + i) % 3 == 0 else "api", "here": True}
                             for i, (sl, rec) in enumerate(((False, False), (False, True), (True, False), (True, True)))], pending)
    flush(ctx, pending)


def stream_resource_locations(ctx):
    """Deterministic battery: version locations written as package resources - `pkg:dir`, `pkg:dir/sub` and one colon
    token per path segment `pkg:dir:sub`, `pkg:dir:sub:deep` - under every separator that does not itself split on `:`,
    api and ini delivery, all four settings.  The scratch root is the (uniquely named) importable package."""
    def f(path, rev):
        return {"path": path, "kind": "src", "content": {"rev": rev}}

    plan0 = {"dirs": ["scripts", "v1", "v1/sub", "v1/sub/deep", "v2", "v2/plugins"],
             "files": [f("v1/a1.py", "w1"), f("v1/sub/b2.py", "w2"), f("v1/sub/deep/c3.py", "w3"), f("v2/d4.py", "w4"), f("v2/plugins/e5.py", "w5")],
             "links": []}
    pending = []
    k = 0
    for locs in (["v1"], ["v1/sub"], ["v1/sub/deep", "v2/plugins"], ["v2", "v1/sub"]):
        for spelling in ("slash", "colon"):
            for sep in (None, "space", "newline", ";"):
                k += 1
                sl, rec = bool(k & 1), bool(k & 2)
                run_tree(ctx, {**plan0, "locations": locs},
                         [{"sourceless": sl, "recursive": rec, "sep": sep, "jseed": k, "resource": spelling,
                           "delivery": "ini" if k % 3 == 0 else "api", "script_resource": k % 5 == 0}], pending)
    flush(ctx, pending)


def stream_names(ctx):
    """Deterministic battery: one directory holding a revision file for every unusual-but-legal file name (leading `.`,
    `#`, `_`, `-`, `~`, digit, upper case, `@`, space, non-ASCII, `__init__`-prefixed, ...) next to the names that must be
    ignored (`.#lock`, `__init__`), as `.py` in `va` and as `.pyc` in `vb`; all four settings."""
    files = []
    for i, st in enumerate(F.LEADING + F.INIT_PREFIXED + ["a1", ".#a1", "__init__", "x.y"]):
        files.append({"path": "va/%s.py" % st, "kind": "src", "content": {"rev": "n%d" % i}})
        files.append({"path": "vb/%s.pyc" % st, "kind": "pyc", "content": {"rev": "m%d" % i}})
        files.append({"path": "vc/__pycache__/%s.%s.pyc" % (st, F.TAG), "kind": "pyc", "content": {"rev": "k%d" % i}})
    plan = {"dirs": ["scripts", "va", "vb", "vc", "vc/__pycache__"], "files": files, "links": [], "locations": ["va", "vb", "vc"]}
    pending = []
    run_tree(ctx, plan, [{"sourceless": sl, "recursive": rec, "sep": "os", "jseed": 0, "from_path": not rec}
                         for sl in (False, True) for rec in (False, True)], pending)
    flush(ctx, pending)


def stream_prepend(ctx, n):
    """`_split_on_space_comma_colon` (prepend_sys_path) vs the model, on strings"""
    rng = ctx.rng("prepend")
    cases = ["".join(rng.choice(list("ab/._-") + [" ", " ", ",", ":", ";"]) for _ in range(rng.randint(1, 9))) for _ in range(n)]
    ans = ctx.drv.ask([{"op": "files.prepend", "s": c} for c in cases])
    for c, m in zip(cases, ans):
        impl = F.REGEXES["prepend"].split(c)
        ctx.evaluation()
        if m.get("entries") != impl:
            ctx.disagree("files.prepend", {"s": c}, impl, m)
        else:
            ctx.trace_ok()


def stream_prepend_trees(ctx):
    """Deterministic battery: a revision module that imports a helper which only `prepend_sys_path` makes importable;
    every spelling of the option x api/ini delivery.  Without the option the load must fail loudly."""
    plan = {"dirs": ["scripts", "va", "lib", "lib2"],
            "files": [{"path": "va/a1.py", "kind": "src", "content": {"rev": "p1", "needs": True}},
                      {"path": "va/b2.py", "kind": "src", "content": {"rev": "p2"}},
                      {"path": "va/c3.pyc", "kind": "pyc", "content": {"rev": "p3", "needs": True}},
                      {"path": "lib/helper.py", "kind": "helper", "content": None}],
            "links": [], "locations": ["va"]}
    settings = []
    for prepend in (None, "{root}/lib", "{root}/lib2 {root}/lib", "{root}/lib2:{root}/lib", "{root}/lib2, {root}/lib",
                    "{root}/lib2,{root}/lib", "{root}/lib2"):
        for delivery in ("api", "ini"):
            for sl in (False, True):
                settings.append({"sourceless": sl, "recursive": False, "sep": "os", "jseed": 0, "delivery": delivery,
                                 "here": True, "prepend": prepend})
    pending = []
    run_tree(ctx, plan, settings, pending)
    for inp, impl, *_ in pending:
        ok = inp["st"]["prepend"] is not None and inp["st"]["prepend"].endswith("/lib")
        ctx.hist("prepend_battery", "helper importable" if ok else "helper not importable")
        if ok != ("err" not in impl):
            ctx.fail(inp, "prepend: prepend_sys_path=%r: load %s" % (inp["st"]["prepend"], impl.get("exc", "succeeded")), impl=impl.get("exc"), tags=["prepend"])
    flush(ctx, pending)


def stream_loadfile(ctx):
    """Deterministic battery for alembic.util.pyfiles.load_python_file / pyc_file_from_path: every combination of
    (source, __pycache__ entry, legacy .pyc, .pyo) for one module, each form carrying a different marker."""
    import importlib.util
    from alembic.util import pyfiles

    plan_files = []
    combos = []
    for mask in range(16):
        stem = "m%d" % mask
        have = {"py": bool(mask & 1), "cache": bool(mask & 2), "pyc": bool(mask & 4), "pyo": bool(mask & 8)}
        combos.append((stem, have))
        if have["py"]:
            plan_files.append({"path": "va/%s.py" % stem, "kind": "src", "content": {"rev": "self"}})
        if have["cache"]:
            plan_files.append({"path": "va/__pycache__/%s.%s.pyc" % (stem, F.TAG), "kind": "pyc", "content": {"rev": "cache"}})
        if have["pyc"]:
            plan_files.append({"path": "va/%s.pyc" % stem, "kind": "pyc", "content": {"rev": "legacy"}})
        if have["pyo"]:
            plan_files.append({"path": "va/%s.pyo" % stem, "kind": "pyc", "content": {"rev": "pyo"}})
    plan_files.append({"path": "va/notes.txt", "kind": "plain", "content": None})
    plan = {"dirs": ["scripts", "va"], "files": plan_files, "links": [], "locations": ["va"]}
    legacy_suffix_pyo = ".pyo" in importlib.machinery.BYTECODE_SUFFIXES
    queries = []
    with F.Scratch(plan) as sc:
        d = os.path.join(sc.root, "va")

        def call(filename):
            try:
                return pyfiles.load_python_file(d, filename).revision
            except ImportError:
                return "importError"
            except AssertionError:
                return "assertFalse"
            except Exception as e:  # whatever else the implementation does is a reported outcome
                return "raised:" + type(e).__name__

        for stem, have in combos:
            legacy = have["pyc"] or (legacy_suffix_pyo and have["pyo"])
            queries.append((stem + ".py", {"ext": "py", "self": have["py"], "cache": have["cache"], "legacy": legacy}, call(stem + ".py"), have))
            if have["pyc"]:
                queries.append((stem + ".pyc", {"ext": "compiled", "self": True, "cache": False, "legacy": False}, call(stem + ".pyc"), have))
            if have["pyo"] and F.PYO_LOADABLE:
                queries.append((stem + ".pyo", {"ext": "compiled", "self": True, "cache": False, "legacy": False}, call(stem + ".pyo"), have))
        queries.append(("notes.txt", {"ext": "other", "self": True, "cache": False, "legacy": False}, call("notes.txt"), {}))
    ans = ctx.drv.ask([{"op": "files.loadfile", **q} for _, q, _, _ in queries])
    for (fn, q, got, have), m in zip(queries, ans):
        ctx.evaluation()
        ctx.hist("load_python_file", m.get("from"))
        # markers: the source says "self"; a directly named compiled file is its own marker
        want = m.get("from")
        if q["ext"] == "compiled" and want == "self":
            want = "legacy" if fn.endswith(".pyc") else "pyo"
        if got != want:
            ctx.disagree("files.loadfile", {"file": fn, **q}, got, m)
        else:
            ctx.trace_ok()
        if q["ext"] == "py" and have.get("py") and got != "self":
            ctx.fail({"kind": "loadfile", "file": fn, "have": have}, "loadfile: source %s exists but load_python_file loaded %r" % (fn, got), impl=got, tags=["loadfile"])
        if q["ext"] == "py" and not have.get("py") and not have.get("cache") and not have.get("pyc") and got not in ("importError",) and not legacy_suffix_pyo:
            ctx.fail({"kind": "loadfile", "file": fn, "have": have}, "loadfile: nothing loadable for %s but load_python_file gave %r" % (fn, got), impl=got, tags=["loadfile"])


def stream_config_errors(ctx):
    """Deterministic battery: configurations that must be refused loudly (never an empty history)."""
    from alembic import util as autil

    tmp = tempfile.mkdtemp(prefix="c19e_")
    try:
        os.makedirs(os.path.join(tmp, "scripts", "versions"))
        ini_nosec = os.path.join(tmp, "nosection.ini")
        with open(ini_nosec, "w") as fh:
            fh.write("[something_else]\nscript_location = %(here)s/scripts\n")
        ini_ok = os.path.join(tmp, "ok.ini")
        with open(ini_ok, "w") as fh:
            fh.write("[alembic]\nscript_location = %(here)s/scripts\n")

        def c_no_script_location():
            return F.Config()

        def c_missing_dir():
            c = F.Config()
            c.set_main_option("script_location", os.path.join(tmp, "nope"))
            return c

        def c_missing_resource_dir():
            c = F.Config()
            c.set_main_option("script_location", os.path.join(tmp, "scripts", "nope"))
            return c

        cases = [
            ("no script_location key", c_no_script_location, autil.CommandError, "script_location"),
            ("script_location does not exist", c_missing_dir, autil.CommandError, "Path doesn't exist"),
            ("script_location sub-directory does not exist", c_missing_resource_dir, autil.CommandError, "Path doesn't exist"),
            ("ini file without the [alembic] section", lambda: F.Config(ini_nosec), autil.CommandError, "section"),
            ("ini_section not in the file", lambda: F.Config(ini_ok, ini_section="other"), autil.CommandError, "section"),
            ("ini file does not exist", lambda: F.Config(os.path.join(tmp, "absent.ini")), autil.CommandError, "section"),
        ]
        for name, mk, exc, frag in cases:
            ctx.evaluation()
            ctx.hist("config_error_battery", name)
            try:
                sd = ScriptDirectory.from_config(mk())
                got = "no error (version_locations=%r)" % (sd.version_locations,)
            except exc as e:
                got = None if frag in str(e) else "%s: %s" % (type(e).__name__, e)
            except Exception as e:
                got = "%s: %s" % (type(e).__name__, e)
            if got is None:
                ctx.trace_ok()
            else:
                ctx.fail({"kind": "config", "case": name}, "config: %s: expected %s mentioning %r, got %s" % (name, exc.__name__, frag, got), impl=got, tags=["config"])
        # a valid ini in the default section loads (and is empty)
        try:
            sd = ScriptDirectory.from_config(F.Config(ini_ok))
            got = [s.revision for s in sd.walk_revisions()]
        except Exception as e:
            got = "%s: %s" % (type(e).__name__, e)
        if got != []:
            ctx.fail({"kind": "config", "case": "valid ini, empty versions directory"},
                     "config: a valid ini with %%(here)s and an empty versions directory gives %r instead of an empty history" % (got,), impl=got, tags=["config"])
    finally:
        import shutil

        shutil.rmtree(tmp, ignore_errors=True)


def run(ctx):
    if F.PYO_LOADABLE:
        ctx.note("this interpreter can load .pyo files; they are modelled with their real content")
    stream_match(ctx, 6000 if ctx.thorough else 1500)
    stream_split(ctx, 6000 if ctx.thorough else 1200)
    stream_prepend(ctx, 3000 if ctx.thorough else 500)
    stream_config_errors(ctx)
    stream_loadfile(ctx)
    stream_prepend_trees(ctx)
    stream_prefix_locations(ctx)
    stream_names(ctx)
    stream_resource_locations(ctx)
    stream_forms(ctx)
    stream_trees(ctx, 9000 if ctx.thorough else 220)


def search(ctx):
    stream_trees(ctx, 1500, rng_name="search")


# --------------------------------------------------------------------------------------
# known findings / replay
# --------------------------------------------------------------------------------------

def classify(failure):
    # no open findings: C19-F13 (names starting with __init__ skipped) is fixed in 8adcad9 and suppresses nothing
    return None


def _run_one(ctx, inp):
    pending = []
    run_tree(ctx, inp["plan"], [inp.get("st") or (inp["sourceless"], inp["recursive"], inp.get("sep"), inp.get("jseed", 0))], pending)
    case = pending[0]
    inp2, impl, split_op, base, names, root = case
    simpl = {"err": True} if "err" in impl else {"loaded": impl["loaded"], "keys": impl["keys"], "dupWarn": impl["dupWarn"]}
    m, s = ctx.drv.ask([{"op": "files.load", **base}, {"op": "files.spec", **base, "impl": simpl}])
    return impl, m, s, names


def check_witness(ctx, finding):
    w = finding["witness"]
    impl, m, s, names = _run_one(ctx, w)
    if "err" in impl:
        return None
    loaded = [names.get(n) for n, _ in impl["loaded"]]
    if w["skipped_file"] not in loaded and not s.get("holds"):
        return "%s is silently skipped (loaded: %s)" % (w["skipped_file"], loaded)
    return None


def replay(ctx, case):
    inp = case["input"]
    if inp.get("kind") == "split":
        tmp = tempfile.mkdtemp(prefix="c19s_")
        try:
            impl = impl_split(tmp, inp["sep"], inp["s"])
        finally:
            os.rmdir(tmp)
        m = ctx.drv.ask1({"op": "files.split", "sep": inp["sep"], "pathsep": os.pathsep, "s": inp["s"]})
        return {"impl": impl, "model": m, "listed": inp.get("listed")}
    if inp.get("kind") == "name":
        key = "sourceless" if inp["sourceless"] else "source"
        mm = F.REGEXES[key].match(inp["name"])
        a = ctx.drv.ask1({"op": "files.match", "name": inp["name"], "sourceless": inp["sourceless"]})
        return {"name": inp["name"], "regex_accepts": mm is not None, "spec_is_revision_file_name": a.get("specName"), "model": a}
    if inp.get("kind") in ("config", "loadfile"):
        sub = Ctx2(ctx)
        (stream_config_errors if inp["kind"] == "config" else stream_loadfile)(sub)
        return {"battery": inp["kind"], "failures": sub.failures, "disagreements": sub.disagreements}
    impl, m, s, names = _run_one(ctx, inp)
    return {"files": names, "impl": impl, "model": m, "spec": s}


class Ctx2:
    """collects what a deterministic battery reports when it is re-run for a replay"""

    def __init__(self, ctx):
        self.drv = ctx.drv
        self.failures, self.disagreements = [], []

    def fail(self, input, what, impl=None, tags=()):
        self.failures.append({"input": input, "what": what, "impl": impl})

    def disagree(self, op, input, impl, model, note=""):
        self.disagreements.append({"op": op, "input": input, "impl": impl, "model": model})

    def __getattr__(self, name):
        return lambda *a, **k: None
