"""C05 - revision engine; see harness/rev_corr.py (shared runner), harness/rev_e2e.py (real
`alembic stamp` runs through the shipped env.py on a SQLite file, with and without --purge) and
lean/Props/C05.lean"""
from .. import rev_corr, rev_e2e
from . import _rev_common as common

PROPERTY = "C05"
DRIVER = "drv_rev"
THEOREMS = common.THEOREMS["C05"]
PARTIAL = common.PARTIAL.get("C05", {})
TRUSTED = rev_corr.REV_TRUSTED + [
    "end-to-end part: the shipped generic env.py, pysqlite and a SQLite file; rows are read through a fresh sqlite3 connection after command.stamp returned",
]
RULE = common.RULE + "; plus end-to-end `alembic stamp [--purge]` command sequences on real script directories (random DAGs of 2-7 revisions)"
ASSUMPTIONS = common.ASSUMPTIONS


def run(ctx):
    rev_corr.run_focus(ctx, "C05")
    rng = ctx.rng("e2e")
    rev_e2e.run(ctx, rng, 40 if ctx.thorough else 8, 10 if ctx.thorough else 6)


def search(ctx):
    rev_corr.run_focus(ctx, "C05", rng_name="search", scale=2.0)
    rev_e2e.run(ctx, ctx.rng("search-e2e"), 16, 8)


_check_witness = common.make_check_witness("C05")
_classify = common.make_classify("C05")
_replay = common.make_replay("C05")


def check_witness(ctx, finding):
    return _check_witness(ctx, finding)


def classify(failure):
    if failure["input"].get("e2e"):
        return None
    return _classify(failure)


def replay(ctx, case):
    inp = case["input"]
    if inp.get("e2e"):
        from ..core import Ctx

        sub = Ctx("C05", ctx.tier, ctx.seed, "drv_rev")
        rev_e2e.replay_case(sub, inp)
        return {"failures": [f["what"] for f in sub.failures], "disagreements": len(sub.disagreements)}
    return _replay(ctx, case)
