"""C05 - revision engine; see harness/rev_corr.py (shared runner) and lean/Props/C05.lean"""
from .. import rev_corr
from . import _rev_common as common

PROPERTY = "C05"
DRIVER = "drv_rev"
THEOREMS = common.THEOREMS["C05"]
PARTIAL = common.PARTIAL.get("C05", {})
TRUSTED = rev_corr.REV_TRUSTED
RULE = common.RULE
ASSUMPTIONS = common.ASSUMPTIONS


def run(ctx):
    rev_corr.run_focus(ctx, "C05")


def search(ctx):
    rev_corr.run_focus(ctx, "C05", rng_name="search", scale=2.0)


check_witness = common.make_check_witness("C05")
classify = common.make_classify("C05")
replay = common.make_replay("C05")
