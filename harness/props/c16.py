"""C16 - revision identifiers resolve to the right revision or fail loudly.

Implementation: real RevisionMap.get_revisions / get_revision / _parse_upgrade_target /
_parse_downgrade_target.  Model: Model.Rev.getRevisions / getRevision / parseUpgradeTarget /
parseDowngradeTarget.  Oracle: Spec.Rev.plainResolveOk (full id, carried label, or unique id
prefix), Spec.Rev.refTargets (head/heads/base/label@...), Spec.Rev.stepsDown (exact distance).
"""
from __future__ import annotations

import json
import re
import warnings

from .. import gen_graph, rev_impl, revfake
from . import _rev_common as common

PROPERTY = "C16"
DRIVER = "drv_rev"
THEOREMS = common.THEOREMS.get("C16", [])
PARTIAL = common.PARTIAL.get("C16", {})
TRUSTED = [
    "exception classes compared through a small enum (ResolutionError / MultipleHeads / RevisionError / AssertionError ...)",
    "the reference meaning of head/heads/base/<branch>@... is Spec.Rev.refTargets (written from the documentation)",
]
RULE = (
    "histories with branch labels whose ids and labels come from a three-letter alphabet (forced prefix collisions) plus ordinary ones; "
    "identifiers: every prefix of every id and label, head/heads/base, every <label>@{head,heads,base,id}, id+/-N and +/-N for N<=3, and on long lines (13-16 revisions) for N in 9..13; "
    "non-trivial = the identifier resolves; distinct by (history, identifier, rows)"
)
ASSUMPTIONS = ["the history loads"]


def idents_for(rng, hist):
    ids = [r["id"] for r in hist]
    labels = [l for r in hist for l in r["labels"]]
    out = set(["head", "heads", "base"])
    # a bare negative number means "that many steps below the heads (of the labelled branch)"
    for n in (0, 1, 2, 3, 7):
        out.add("-%d" % n)
        for l in labels[:2]:
            out.add("%s@-%d" % (l, n))
    for s in ids + labels:
        for k in range(1, len(s) + 1):
            out.add(s[:k])
        out.add(s + "x")
    for l in labels + ids[:2]:
        for x in ["head", "heads", "base"] + ids:
            out.add(l + "@" + x)
        out.add(l[:-1] + "@head")
        # branch-qualified partial identifiers: every prefix of every id
        for i in ids:
            for k in range(1, len(i)):
                out.add(l + "@" + i[:k])
    return sorted(out)


def deep_history(rng):
    """a long line (13-16 revisions, as a project's main line is) with a labelled side branch: offsets of two digits"""
    n = rng.randint(13, 16)
    ids = ["%02dc0f%02d" % (k, k) for k in range(n)]
    hist = [{"id": x, "down": [ids[k - 1]] if k else [], "deps": [], "labels": (["trunk"] if k == 0 else [])} for k, x in enumerate(ids)]
    fork = rng.randrange(1, 4)
    hist.append({"id": "side01", "down": [ids[fork]], "deps": [], "labels": ["side"]})
    hist.append({"id": "side02", "down": ["side01"], "deps": [], "labels": []})
    rng.shuffle(hist)
    return hist


def rel_idents(rng, hist, deep=False):
    ids = [r["id"] for r in hist]
    labels = [l for r in hist for l in r["labels"]]
    out = []
    small = (0, 1, 2, 3)
    offs = (1, 2, 3)
    if deep:
        ids = rng.sample(ids, 4)
        small = (1, 9, 10, 11, 12, 13)
        offs = (9, 10, 11, 12)
    for i in ids:
        for n in small:
            out.append("%s+%d" % (i, n))
            out.append("%s-%d" % (i, n))
    for n in offs:
        out.append("+%d" % n)
        out.append("-%d" % n)
        for l in labels:
            out.append("%s@+%d" % (l, n))
            out.append("%s@-%d" % (l, n))
            out.append("%s@%s+%d" % (l, rng.choice(ids), n))
            out.append("%s@%s-%d" % (l, rng.choice(ids), n))
    return out


def impl_get(m, ident, single):
    try:
        with warnings.catch_warnings():
            warnings.simplefilter("ignore")
            if single:
                r = [m.get_revision(ident)]
            else:
                r = list(m.get_revisions(ident))
        # (`_walk` hands back the string "base" when a downward walk ends exactly at base)
        return {"revs": [x if isinstance(x, str) else (x.revision if x is not None else None) for x in r]}
    except Exception as e:  # noqa
        return {"err": rev_impl.err_name(e)}


def impl_parse(m, rows, target, up):
    try:
        with warnings.catch_warnings():
            warnings.simplefilter("ignore")
            if up:
                t = m._parse_upgrade_target(tuple(rows), target, True)
                out = []
                for x in t:
                    if x is None or isinstance(x, str):
                        return {"err": "assertion"}  # what is_revision() in the caller does with it
                    out.append(x.revision)
                return {"targets": out}
            b, r = m._parse_downgrade_target(tuple(rows), target, True)
            if r == "base":
                r = None
            return {"branch": b, "target": r.revision if r is not None else None}
    except Exception as e:  # noqa
        return {"err": rev_impl.err_name(e)}


def run(ctx, rng_name="main"):
    rng = ctx.rng(rng_name)
    n_graphs = 1200 if ctx.thorough else 120
    cases = []
    for g in range(n_graphs):
        collide = g % 2 == 0
        hist = gen_graph.gen_history(rng, rng.randint(2, 9), labels=True, deps=rng.random() < 0.4, collide=collide)
        if g % 4 == 1:
            # many ids of >=4 characters sharing prefixes, several labelled branches
            hist = gen_graph.gen_history(rng, rng.randint(5, 11), labels=True, deps=False, collide=False, p_root=0.3)
            stems = ["feed", "fee", "fa"]
            for k, r in enumerate(hist):
                new = rng.choice(stems) + "%03d" % k
                old = r["id"]
                r["id"] = new
                for q in hist:
                    q["down"] = [new if x == old else x for x in q["down"]]
                    q["deps"] = [new if x == old else x for x in q["deps"]]
        deep = g % 10 == 7
        if deep:
            hist = deep_history(rng)
        elif g % 10 == 3:
            hist = gen_graph.descriptive_history(rng)
        sd, info = rev_impl.load(hist)
        if sd is None:
            continue
        m = sd.revision_map
        ctx.hist("graph", "deep line" if deep else ("collide" if collide else "plain"))
        base = {"revs": hist, "normOrder": info["normOrder"]}
        for ident in idents_for(rng, hist):
            for single in (False, True):
                cases.append(("resolve", base, {"ident": ident, "single": single}, impl_get(m, ident, single)))
        states = [[]] + [gen_graph.reachable_state(rng, hist) for _ in range(2)]
        if deep:
            # states near the bottom and near the top of the line, so that +1x / -1x have room
            line = sorted(r["id"] for r in hist if r["id"][2:5] == "c0f")
            states = [[], [line[1]], [line[-1]], [line[-2], "side02"]]
        for ident in rel_idents(rng, hist, deep):
            for rows in states:
                for up in (True, False):
                    cases.append(("parse", base, {"target": ident, "rows": rows, "up": up}, impl_parse(m, rows, ident, up)))
        # the same map kept alive while the history grows (ScriptDirectory.generate_revision ->
        # RevisionMap.add_revision): resolve, add a new head, resolve again.  The answers after the
        # addition must be those of the full history (the model is stateless).
        if g % 3 == 0 and len(hist) >= 3:
            heads_now = [r for r in hist if not any(r["id"] in q["down"] or r["id"] in q["deps"] for q in hist)]
            late = heads_now[-1] if heads_now else None
            if late is not None and not late["labels"]:
                early = [r for r in hist if r is not late]
                sd2, info2 = rev_impl.load(early)
                if sd2 is not None:
                    m2 = sd2.revision_map
                    probe = [i for i in idents_for(rng, hist) if "@" in i][:60] + ["head", "heads"] + [x for x in (late["id"], late["id"][:-1]) if x]
                    for ident in probe:  # fills whatever the map caches
                        impl_get(m2, ident, False)
                    try:
                        with warnings.catch_warnings():
                            warnings.simplefilter("ignore")
                            m2.add_revision(revfake.make_scripts([late])[0])
                        added = True
                    except Exception:  # noqa  (refused additions are C17's business)
                        added = False
                    if added:
                        ctx.hist("graph", "grown-in-place")
                        # the full history in the order the live map holds it: early + [late]
                        base2 = {"revs": early + [late], "normOrder": info["normOrder"]}
                        sd3, info3 = rev_impl.load(early + [late])
                        if sd3 is not None:
                            base2["normOrder"] = info3["normOrder"]
                            for ident in probe:
                                for single in (False, True):
                                    cases.append(("resolve", base2, {"ident": ident, "single": single, "grown": True}, impl_get(m2, ident, single)))
        if len(cases) > 4000:
            judge(ctx, cases)
            cases = []
    judge(ctx, cases)


def ident_plain_head(ident):
    return ident.count("@") == 1 and ident.endswith("@head")


def judge(ctx, cases):
    if not cases:
        return
    ops = []
    for kind, base, c, impl in cases:
        ops.append({"op": "rev.resolve" if kind == "resolve" else "rev.parse", **base, **c})
    ans = ctx.drv.ask(ops)
    spec_ops, spec_meta = [], []
    for (kind, base, c, impl), model in zip(cases, ans):
        ctx.evaluation()
        inp = {"kind": kind, **base, **c}
        a = impl
        b = {k: v for k, v in model.items()}
        if a != b:
            ctx.disagree("rev." + kind, inp, a, b)
        else:
            ctx.trace_ok()
        ctx.hist("impl_result", impl.get("err", "resolved"))
        h = {"revs": base["revs"]}
        if "err" in impl:
            continue
        ident = c.get("ident", c.get("target"))
        ctx.nontrivial((json.dumps(base["revs"], sort_keys=True), ident, tuple(c.get("rows", [])), c.get("single"), c.get("up")))
        if len(ctx.samples) < 5 and kind == "parse":
            ctx.sample({"history": base["revs"], "identifier": ident, "rows": c.get("rows"), "impl": impl})
        if kind == "resolve" and re.match(r"^(?:.+@)?-\d+$", ident):
            # a bare negative number: N steps below the heads
            n = int(ident.rsplit("-", 1)[1])
            if n > 0:
                rs = [r for r in impl["revs"] if r is not None]
                op = {"op": "rev.spec.belowheads", **h, "n": n, "results": rs}
                spec_ops.append(op)
                spec_meta.append(("belowheads", inp, impl, n))
                if "@" in ident:
                    # … and never outside the named branch
                    for r in rs:
                        if r != "base":
                            spec_ops.append({"op": "rev.spec.inbranch", **h, "label": ident.split("@")[0], "rev": r})
                            spec_meta.append(("inbranch-resolve", inp, impl, r))
        elif kind == "resolve":
            if "@" not in ident and ident not in ("head", "heads", "base"):
                for r in impl["revs"]:
                    if r is not None:
                        spec_ops.append({"op": "rev.spec.plain", **h, "ident": ident, "result": r})
                        spec_meta.append(("plain", inp, impl, r))
            if ident.count("@") == 1 and ident.split("@")[1] not in ("head", "heads", "base"):
                lab, part = ident.split("@")
                for r in impl["revs"]:
                    if r is not None:
                        spec_ops.append({"op": "rev.spec.branchprefix", **h, "label": lab, "ident": part, "result": r})
                        spec_meta.append(("branchprefix", inp, impl, r))
            spec_ops.append({"op": "rev.spec.targets", **h, "ident": ident})
            spec_meta.append(("ref", inp, impl, None))
            if ident_plain_head(ident):
                # the singular form names ONE head: with several heads on the named branch it must refuse
                # (unqualified `head` is already decided by the reference resolution above)
                spec_ops.append({"op": "rev.spec.targets", **h, "ident": ident + "s"})
                spec_meta.append(("onehead", inp, impl, None))
        else:
            # relative forms with an explicit symbol: exact distance along down_revision links
            mm = re.match(r"^(?:(.+?)@)?(\w+)?([+-]\d+)", ident)
            if mm and mm.group(2) and "targets" in impl and len(impl["targets"]) == 1:
                n = int(mm.group(3))
                sym = mm.group(2)
                if sym in [r["id"] for r in base["revs"]]:
                    if n >= 0:
                        spec_ops.append({"op": "rev.spec.steps", **h, "n": n, "from": impl["targets"][0], "to": sym})
                    else:
                        spec_ops.append({"op": "rev.spec.steps", **h, "n": -n, "from": sym, "to": impl["targets"][0]})
                    spec_meta.append(("steps", inp, impl, n))
            # `+N` / `label@+N` without a revision: exactly N links above the single place to start from
            if mm and not mm.group(2) and c["up"] and int(mm.group(3)) > 0 and "targets" in impl and len(impl["targets"]) == 1 \
                    and impl["targets"][0] is not None:
                op = {"op": "rev.spec.relup", **h, "rows": c["rows"], "n": int(mm.group(3)), "result": impl["targets"][0]}
                if mm.group(1):
                    op["label"] = mm.group(1)
                spec_ops.append(op)
                spec_meta.append(("relup", inp, impl, int(mm.group(3))))
            # a branch-qualified relative form never leaves the named branch
            if mm and mm.group(1) and "targets" in impl:
                for t in impl["targets"]:
                    spec_ops.append({"op": "rev.spec.inbranch", **h, "label": mm.group(1), "rev": t})
                    spec_meta.append(("inbranch", inp, impl, t))
            if mm and mm.group(1) and mm.group(2) and impl.get("target"):
                spec_ops.append({"op": "rev.spec.inbranch", **h, "label": mm.group(1), "rev": impl["target"]})
                spec_meta.append(("inbranch", inp, impl, impl["target"]))
            if mm and mm.group(2) and "target" in impl and not c["up"]:
                n = int(mm.group(3))
                sym = mm.group(2)
                if sym in [r["id"] for r in base["revs"]]:
                    if n >= 0 and impl["target"] is not None:
                        spec_ops.append({"op": "rev.spec.steps", **h, "n": n, "from": impl["target"], "to": sym})
                        spec_meta.append(("steps", inp, impl, n))
                    elif n < 0:
                        op = {"op": "rev.spec.steps", **h, "n": -n, "from": sym}
                        if impl["target"] is not None:
                            op["to"] = impl["target"]
                        spec_ops.append(op)
                        spec_meta.append(("steps", inp, impl, n))
    if not spec_ops:
        return
    for (kind, inp, impl, extra), a in zip(spec_meta, ctx.drv.ask(spec_ops)):
        if kind == "plain":
            if a.get("holds") is not True:
                ctx.fail(inp, "wrong-revision: identifier %r resolves to %r which it neither names nor uniquely prefixes" % (inp["ident"], extra), impl=impl, tags=["plain"])
        elif kind == "ref":
            if "targets" in a and sorted(x for x in impl["revs"] if x) != sorted(a["targets"]):
                ctx.fail(inp, "symbolic: %r resolves to %s, documented meaning is %s" % (inp["ident"], impl["revs"], a["targets"]), impl=impl, tags=["symbolic"])
        elif kind == "onehead":
            want = a.get("targets")
            if ident_plain_head(inp["ident"]) and want is not None and len(set(want)) > 1 and [x for x in impl["revs"] if x]:
                ctx.fail(inp, "ambiguous-head: %r resolves to %s although the branch has the heads %s (documented: an error)" % (
                    inp["ident"], impl["revs"], sorted(want)), impl=impl, tags=["symbolic", "onehead"])
        elif kind == "branchprefix":
            if a.get("holds") is not True:
                ctx.fail(inp, "wrong-revision-in-branch: %r resolves to %r which is not the unique revision of that branch whose id starts with it" % (inp["ident"], extra), impl=impl, tags=["branchprefix"])
        elif kind == "inbranch-resolve":
            if a.get("holds") is False:
                ctx.fail(inp, "outside-branch: %r resolves to %s which is not on the named branch" % (inp["ident"], extra), impl=impl, tags=["branch"])
        elif kind == "inbranch":
            if a.get("holds") is False:
                ctx.fail(inp, "outside-branch: %r resolves to %s which is not on the named branch" % (inp["target"], extra), impl=impl, tags=["branch"])
        elif kind == "belowheads":
            if a.get("holds") is not True:
                ctx.fail(inp, "distance: %r resolves to %s, not all of them exactly %d down_revision links below a head" % (inp["ident"], impl["revs"], extra), impl=impl, tags=["distance", "belowheads"])
        elif kind == "relup":
            if a.get("holds") is False:
                ctx.fail(inp, "relative-start: %r from rows %s resolves to %s, which is not exactly %d down_revision links above the one applied tip it must count from" % (inp["target"], inp["rows"], impl["targets"], extra), impl=impl, tags=["distance", "relup"])
        elif kind == "steps":
            if a.get("holds") is not True:
                ctx.fail(inp, "distance: %r resolves to %s which is not exactly %d down_revision steps away" % (inp["target"], impl, extra), impl=impl, tags=["distance"])


def search(ctx):
    run(ctx, rng_name="search")


def check_witness(ctx, finding):
    from ..core import Ctx

    w = finding["witness"]
    sd, info = rev_impl.load(w["revs"])
    if sd is None:
        return None
    impl = impl_get(sd.revision_map, w["ident"], False)
    if "revs" in impl and impl["revs"] and impl["revs"][0]:
        a = ctx.drv.ask1({"op": "rev.spec.plain", "revs": w["revs"], "ident": w["ident"], "result": impl["revs"][0]})
        if a.get("holds") is not True:
            return "identifier does not name or uniquely prefix the revision it resolves to"
    return None


def classify(failure):
    if failure["what"].startswith("wrong-revision"):
        inp = failure["input"]
        ident = inp["ident"]
        ids = [r["id"] for r in inp["revs"]]
        # F13: the result is the only id of >=4 characters starting with the identifier, and every other
        # id that starts with it is shorter than four characters (the lookup skips such keys)
        long_m = [i for i in ids if i.startswith(ident) and len(i) > 3]
        short_m = [i for i in ids if i.startswith(ident) and len(i) <= 3]
        if len(long_m) == 1 and short_m:
            return "F13-short-id-prefix"
    return None


def replay(ctx, case):
    inp = case["input"]
    sd, info = rev_impl.load(inp["revs"])
    if inp.get("grown"):
        # the map was loaded without the last revision, asked the same question, then grew in place
        sd, _ = rev_impl.load(inp["revs"][:-1])
        impl_get(sd.revision_map, inp["ident"], False)
        with warnings.catch_warnings():
            warnings.simplefilter("ignore")
            sd.revision_map.add_revision(revfake.make_scripts(inp["revs"][-1:])[0])
    if inp["kind"] == "resolve":
        impl = impl_get(sd.revision_map, inp["ident"], inp["single"])
        model = ctx.drv.ask1({"op": "rev.resolve", **inp})
    else:
        impl = impl_parse(sd.revision_map, inp["rows"], inp["target"], inp["up"])
        model = ctx.drv.ask1({"op": "rev.parse", **inp})
    return {"impl": impl, "model": model}
