"""C20 - objects excluded by autogenerate filters never appear in the output.

Implementation side: real `alembic.autogenerate.produce_migrations` on an in-memory SQLite
database (MetaData.create_all for the database side, a second MetaData for the model side) with
`include_object` / `include_name` given as real Python callables built from decision lists; run
three times per case (both filters, no filters, and - for the evidence - what the callables were
asked).  The canonicalised op targets are compared with `Model.Filter.diffF` and the Lean
specification (`Spec.Filter.objectOk / nameOk / conservativeOk`) is evaluated on the
implementation's own ops.
"""
from __future__ import annotations

import json

from .. import filter_schema as fs

PROPERTY = "C20"
DRIVER = "drv_filter"
THEOREMS = [
    "C20.object",
    "C20.name",
    "C20.conservative_object",
    "C20.conservative_name",
    "C20.conservative",
    "C20.conservative_name_table",
    "C20.conservative_table",
    "C20.object_locality",
    "C20.accepted_op_count",
    "Lemmas.Filter.diffCore_filter_key",
    "Lemmas.Filter.candidates_desc",
    "Lemmas.Filter.candidates_in",
]
PARTIAL = {}
TRUSTED = [
    "SQLAlchemy Inspector describes the SQLite database side for the model (get_table_names/get_columns/get_indexes/"
    "get_unique_constraints/get_foreign_keys); 'do two matched objects differ' is a parameter of the model, instantiated "
    "from the generated description (column type/nullable, index columns+unique, unique-constraint columns)",
    "canonicalisation of op objects to (kind, schema, table, name, signature) in harness/filter_schema.py:canon_ops; ops are "
    "compared as multisets (Python set iteration orders are not modelled)",
    "decision-list predicates are interpreted twice (Python callable / Drv.Filter.evalObj,evalName); a discrepancy shows as a "
    "model-vs-implementation disagreement",
]
RULE = (
    "schema pair (1-5 tables; tables/columns/indexes/unique constraints/foreign keys each present on the database side, the "
    "model side or both, matched objects equal or different; optional attached schema with include_schemas) x include_object "
    "family (all/type/prefix/reflected-or-compare_to flag/parent table/truth table on (type,name)/mixed) x include_name family; "
    "a case is non-trivial when the unfiltered diff is non-empty and at least one filter call returned False; distinct by "
    "(predicates, filtered ops)"
)
ASSUMPTIONS = [
    "reading fixed in DESIGN 6/C20: an op targets the object it names; only a rejected table extends to what is inside it; "
    "columns/constraints inside the create_table of a new accepted table are not targets (stricter reading not enforced)",
    "include_object is asked about units of comparison: metadata-only (reflected=False, compare_to=None), database-only "
    "(reflected=True, compare_to=None), matched pair (reflected=False, compare_to=<reflected object>); a changed index / "
    "unique constraint is one matched pair, a changed foreign key is two units",
    "within one metadata table a named unique constraint and an index do not share a name (metadata_names is a dict filled from a "
    "set: which one wins is hash-order dependent); reflected doubled names (doubled_constraints) ARE modelled and generated",
    "comments: _compare_table_comment makes no filter call of its own - its op is appended inside the table-level guard "
    "(compare.py:258) and targets that table (modelled as Model.Filter.tableCommentG, guarded by the table descriptor, covered by the "
    "theorems); _compare_column_comment only sets fields of the AlterColumnOp guarded at compare.py:405 (Cmp.colDiffer). Neither "
    "can be exercised against SQLite (supports_comments is False), so the comment group is proved but not corresponded",
    "dialect hooks correct_for_autogen_constraints/_foreignkeys and _correct_for_uq_duplicates_uix (MySQL/Oracle: duplicates_index) "
    "run before any filter call and only remove candidates; not modelled (no such server in the sandbox)",
    "conservativeness is judged per table (C20.conservative_table): ops inside tables in which include_name rejects no reflected "
    "name, on objects accepted by include_object, are the same as without filters",
]


def model_input(pair, conn_desc, schemas, obj_pred, name_pred):
    no_uq = bool(pair.get("setup", {}).get("no_uq"))
    return {
        "schemas": schemas,
        # a dialect that cannot reflect unique constraints sees none on the database side
        "conn": [dict(t, uqs=[]) for t in conn_desc] if no_uq else conn_desc,
        "meta": fs.describe_meta(pair["meta"]),
        "colDiffer": fs.col_differ(pair),
        "tableCommentDiffer": fs.table_comment_differ(pair),
        "supportsUq": not no_uq,
        # content rules: the verdict as a function of the REAL tables (database description / model), for model and spec
        "objPred": fs.expand_pred(obj_pred, conn_desc, fs.describe_meta(pair["meta"])),
        "namePred": name_pred,
    }


_ENV = []


def script_env():
    if not _ENV:
        import atexit
        _ENV.append(fs.ScriptEnv())
        atexit.register(_ENV[0].close)
    return _ENV[0]


def run_case(pair, preds):
    """runs the implementation: unfiltered once, then once per predicate pair.  pair["setup"] selects the variants:
    comments (dialect double with supports_comments), split (target_metadata is a list of two MetaData), no_uq (dialect
    double without unique-constraint reflection), entry (first predicate pair also through compare_metadata and through
    `alembic revision --autogenerate`/env.py/EnvironmentContext.configure)"""
    setup = pair.get("setup", {})
    eng, conn = fs.make_db(pair)
    try:
        inc = "s2" in pair["schemas"]
        md = fs.build_metadata(pair["meta"], split=bool(setup.get("split")))
        schemas = fs.inspected_schemas(conn, inc)
        conn_desc = fs.describe_conn(conn, schemas)
        if pair.get("comments"):
            conn.dialect.supports_comments = True      # per-engine dialect object; the database itself stores no comments
        kw = {"include_schemas": inc, "no_uq_reflection": bool(setup.get("no_uq"))}
        unf, nd = fs.run_autogen(conn, md, **kw)
        out, entry = [], []
        for i, (obj_pred, name_pred) in enumerate(preds):
            calls = []
            try:
                f, _ = fs.run_autogen(conn, md, obj_pred, name_pred, calls=calls, **kw)
                err = None
                if i == 0 and setup.get("entry"):
                    for via in ("compare", "command"):
                        try:
                            g, _ = fs.run_autogen(conn, md, obj_pred, name_pred, via=via, env=script_env(), **kw)
                        except Exception as e:
                            g = "%s: %s" % (type(e).__name__, e)
                        entry.append((via, g, 0))
            except Exception as e:  # a crash with a filter is reported as a disagreement
                f, err = None, "%s: %s" % (type(e).__name__, e)
            out.append((obj_pred, name_pred, f, calls, err))
        if setup.get("entry") and all(r[4] is None for r in out):
            # the multidb pattern: every predicate pair in ONE env.py run, one configure() each, then one without any hook
            seq = [(o, n) for o, n in preds] + [(fs.ACCEPT_ALL, fs.ACCEPT_ALL)]
            try:
                gs, _ = fs.run_autogen(conn, md, [o for o, _ in seq], [n for _, n in seq], via="multi", env=script_env(), **kw)
            except Exception as e:
                gs = ["%s: %s" % (type(e).__name__, e)] * len(seq)
            for i, g in enumerate(gs):
                entry.append(("multi", g, i if i < len(preds) else -1))
        return {"schemas": schemas, "conn_desc": conn_desc, "unfiltered": unf, "runs": out, "n_diffs": nd, "entry": entry}
    finally:
        conn.close()
        eng.dispose()


def check_cases(ctx, items):
    """items: list of (pair, result of run_case)"""
    ops, index, entry_specs = [], [], []
    for pair, res in items:
        # the three public entry points must report the same changes for the same filters
        for via, g, idx in res.get("entry", []):
            op_, np_, f0 = (res["runs"][idx][0], res["runs"][idx][1], res["runs"][idx][2]) if idx >= 0 else (
                fs.ACCEPT_ALL, fs.ACCEPT_ALL, res["unfiltered"])
            ctx.hist("entry_point_runs", via)
            if g != f0:
                inp = {"pair": pair, "objPred": op_, "namePred": np_}
                if via == "multi":
                    inp["configureSequence"] = [[r[0], r[1]] for r in res["runs"]] + [[fs.ACCEPT_ALL, fs.ACCEPT_ALL]]
                    inp["configureIndex"] = idx if idx >= 0 else len(res["runs"])
                ctx.disagree("entry-points", inp, {via: g}, {"produce_migrations": f0},
                             note="same filters, different public entry point")
                if isinstance(g, list):
                    entry_specs.append((pair, res, via, g, op_, np_, inp))
        for obj_pred, name_pred, f, calls, err in res["runs"]:
            mi = model_input(pair, res["conn_desc"], res["schemas"], obj_pred, name_pred)
            ops.append({"op": "filter.diff", **mi})
            ops.append({"op": "filter.spec", **mi, "filtered": f or [], "unfilteredOps": res["unfiltered"]})
            index.append((pair, res, obj_pred, name_pred, f, calls, err, mi))
    ans = ctx.drv.ask(ops)
    for k, (pair, res, obj_pred, name_pred, f, calls, err, mi) in enumerate(index):
        m, s = ans[2 * k], ans[2 * k + 1]
        inp = {"pair": pair, "objPred": obj_pred, "namePred": name_pred}
        ctx.evaluation()
        if err is not None:
            ctx.disagree("filter.diff", inp, {"error": err}, m, note="implementation raised with a filter installed")
            continue
        mo = sorted(m.get("ops", []), key=fs.op_sort_key)
        mu = sorted(m.get("unfiltered", []), key=fs.op_sort_key)
        if any(o["kind"].startswith("other:") for o in f + res["unfiltered"]):
            ctx.disagree("filter.diff", inp, {"ops": f}, m, note="op kind outside the model vocabulary")
            continue
        if mo != f or mu != res["unfiltered"]:
            ctx.disagree("filter.diff", inp, {"ops": f, "unfiltered": res["unfiltered"]}, {"ops": mo, "unfiltered": mu})
        else:
            ctx.trace_ok()
        if "err" in s:
            ctx.disagree("filter.spec", inp, {"ops": f}, s)
            continue
        rejected = sum(1 for c in calls if c[-1] is False)
        ctx.hist("filter_calls_rejecting", min(rejected, 10))
        ctx.hist("ops_unfiltered", min(len(res["unfiltered"]), 15))
        ctx.hist("ops_removed_by_filters", min(max(0, len(res["unfiltered"]) - len(f)), 15))
        for c in calls:
            if c[0] == "obj":
                ctx.hist("object_filter_calls", "%s reflected=%s compare_to=%s -> %s" % (c[2], c[3], c[4], c[-1]))
            else:
                ctx.hist("name_filter_calls", "%s -> %s" % (c[2], c[-1]))
        for o in res["unfiltered"]:
            ctx.hist("unfiltered_op_kinds", o["kind"])
        if res["unfiltered"] and rejected:
            ctx.nontrivial((json.dumps(obj_pred, sort_keys=True), json.dumps(name_pred, sort_keys=True), json.dumps(f, sort_keys=True)))
        if not s.get("object"):
            ctx.fail(inp, "object-leak: an op targets an object (or lives in a table) rejected by include_object: %s"
                     % json.dumps(s.get("badObject")), impl={"ops": f}, tags=["object"])
        if not s.get("name"):
            ctx.fail(inp, "name-leak: a drop/alter op targets a reflected name rejected by include_name: %s"
                     % json.dumps(s.get("badName")), impl={"ops": f}, tags=["name"])
        if not s.get("conservative"):
            ctx.fail(inp, "not-conservative: ops on objects accepted by both filters differ from the unfiltered run: with=%s without=%s"
                     % (json.dumps(s.get("accFiltered")), json.dumps(s.get("accUnfiltered"))),
                     impl={"ops": f, "unfiltered": res["unfiltered"]}, tags=["conservative"])
        if k < 4:
            ctx.sample({"objPred": obj_pred, "namePred": name_pred, "conn": res["conn_desc"], "meta": mi["meta"],
                        "filtered_ops": f, "unfiltered_ops": res["unfiltered"]})


    # an entry point that reports other changes than produce_migrations is judged by the specification on its own
    if entry_specs:
        q = [{"op": "filter.spec", **model_input(pair, res["conn_desc"], res["schemas"], op_, np_),
              "filtered": [o for o in g if not o["kind"].startswith("other:")], "unfilteredOps": res["unfiltered"]}
             for pair, res, via, g, op_, np_, _ in entry_specs]
        for (pair, res, via, g, op_, np_, inp0), s in zip(entry_specs, ctx.drv.ask(q)):
            inp = dict(inp0, entry=via)
            for key, kind in (("object", "object-leak"), ("name", "name-leak"), ("conservative", "not-conservative")):
                if s.get(key) is False:
                    ctx.fail(inp, "%s: through %s (%s) the property fails: %s" % (
                        kind, via, {"command": "alembic revision --autogenerate / env.py", "compare": "compare_metadata()",
                                    "multi": "one env.py run with several configure() calls, this one not the first"}[via],
                        json.dumps(s.get("badObject") or s.get("badName") or
                                   {"with": s.get("accFiltered"), "without": s.get("accUnfiltered")})[:600]),
                        impl={"ops": g}, tags=[key, "entry"])


def gen_preds(rng, pair, n):
    preds = []
    for i in range(n):
        mode = rng.choice(["obj", "name", "both", "both"])
        fo, op_ = fs.gen_pred(rng, pair, True) if mode in ("obj", "both") else ("all", fs.ACCEPT_ALL)
        fn, np_ = fs.gen_pred(rng, pair, False) if mode in ("name", "both") else ("all", fs.ACCEPT_ALL)
        preds.append((fo, fn, op_, np_))
    return preds


def run(ctx, n_pairs=None, rng_name="main"):
    rng = ctx.rng(rng_name)
    n = n_pairs or (6000 if ctx.thorough else 400)
    per = 8 if ctx.thorough else 6
    items = []
    for i in range(n):
        with_schema = rng.random() < 0.25
        doubled = rng.random() < 0.35
        ctx.hist("doubled_names_generated", doubled)
        comments = rng.random() < 0.15
        pair = fs.gen_pair(rng, big=ctx.thorough, with_schema=with_schema, doubled=doubled, comments=comments)
        pair["setup"] = {"split": rng.random() < 0.2, "no_uq": rng.random() < 0.1, "entry": i % 2 == 0}
        for k_, v_ in pair["setup"].items():
            ctx.hist("setup_" + k_, v_)
        ctx.hist("setup_comments", comments)
        preds = gen_preds(rng, pair, per)
        for fo, fn, _, _ in preds:
            ctx.hist("object_pred_family", fo)
            ctx.hist("name_pred_family", fn)
        ctx.hist("tables", "conn=%d meta=%d" % (len(pair["conn"]), len(pair["meta"])))
        ctx.hist("include_schemas", with_schema)
        res = run_case(pair, [(p[2], p[3]) for p in preds])
        items.append((pair, res))
        if len(items) >= 40:
            check_cases(ctx, items)
            items = []
    check_cases(ctx, items)
    ctx.note("stricter reading (not enforced): a column/constraint rejected by include_object still appears inside the "
             "create_table of a new, accepted table; the filters are consulted only when comparing existing tables")


def search(ctx):
    run(ctx, n_pairs=600, rng_name="search")


def check_witness(ctx, finding):
    return None


def classify(failure):
    return None


def replay(ctx, case):
    inp = case["input"]
    if inp.get("configureSequence"):
        # the whole configure() sequence of the env.py run is the input; the judged call is configureIndex
        pair = dict(inp["pair"], setup=dict(inp["pair"].get("setup", {}), entry=True))
        seq = [tuple(x) for x in inp["configureSequence"][:-1]]
        res = run_case(pair, seq)
        k = inp["configureIndex"]
        obj_pred, name_pred = (seq[k] if k < len(seq) else (fs.ACCEPT_ALL, fs.ACCEPT_ALL))
        f = [g for via, g, idx in res["entry"] if via == "multi" and (idx == k or (idx == -1 and k == len(seq)))][0]
        calls, err = [], None
    else:
        res = run_case(inp["pair"], [(inp["objPred"], inp["namePred"])])
        obj_pred, name_pred, f, calls, err = res["runs"][0]
    entry = {"%s[%d]" % (via, idx): g for via, g, idx in res.get("entry", [])}
    mi = model_input(inp["pair"], res["conn_desc"], res["schemas"], obj_pred, name_pred)
    m = ctx.drv.ask1({"op": "filter.diff", **mi})
    s = ctx.drv.ask1({"op": "filter.spec", **mi, "filtered": f or [], "unfilteredOps": res["unfiltered"]})
    return {"impl_ops": f, "impl_unfiltered": res["unfiltered"], "impl_error": err, "filter_calls": calls, "entry_points": entry,
            "model_ops": sorted(m.get("ops", []), key=fs.op_sort_key), "spec": s}
