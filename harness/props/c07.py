"""C07 - autogenerate detects every supported kind of model change (SQLite).

Implementation side: random base schema A -> in-memory SQLite; every applicable mutation m of
the documented catalogue -> real `produce_migrations(db(A), m(A))` / `as_diffs()`.  The Lean
checker `Spec.Diff.detectOk` (expected op kinds on m's object present, every op names an
object touched by m) judges the implementation's own output; the op list is also compared
with `Model.Diff.diff`.
"""
from __future__ import annotations

from .. import diff_check as K
from .. import diff_dialects as D
from .. import diff_gen as G

PROPERTY = "C07"
DRIVER = "drv_diff"
THEOREMS = [
    "C07.detect_partial",
    "C07.detect_counterexample",
    "C07.detect_partial_deferring",
    "C07.detect_dropTableRefs_partial",
    "C07.mem_diff_dropRefs",
    "C07.type_family_detected",
    "C07.type_family_detected_groups",
    "C07.type_synonyms_quiet",
    "C07.default_change_detected",
    "C07.changed_str",
    "C07.changed_of_value",
    "C07.detect_addTable",
    "C07.detect_dropTable",
    "C07.detect_addColumn",
    "C07.detect_dropColumn",
    "C07.detect_flipNullable",
    "C07.detect_changeType",
    "C07.detect_changeDefault",
    "C07.detect_addIndex",
    "C07.detect_dropIndex",
    "C07.detect_changeIndex",
    "C07.detect_addUnique",
    "C07.detect_dropUnique",
    "C07.detect_changeUnique",
    "C07.detect_addFk",
    "C07.detect_dropFk",
]
PARTIAL = {
    "C07.detect_dropTableRefs_partial": "proved for the variant that keeps the referencing columns (dropCols = false); the variant that also drops them (remove_column ops next to remove_fk) is judged by the implementation-side oracle and the model correspondence only",
    "C07.detect_partial": "hypothesis SchemaOk cfg on the base schema (compared defaults plain, compared types reflect by name); without it the statement is refuted by detect_counterexample (F9: an untouched column with server_default=\"it's\" is reported next to any change)",
    "C07.detect_changeDefault": "'the default changed' is the metadata-side normal form changedDefault; changed_of_value derives it from Spec.Diff.defaultValue (string value / SQL-unquoted stored expression) differing, for plain defaults whose expression text contains no double quote; adding / removing a default always counts",
}
TRUSTED = [
    "Model.Diff.ddlTy / reflTy / sqliteStore / createAll / reflect: my tables of SQLAlchemy's SQLite type compiler, SQLite's stored default text and the inspector; validated against the live inspector by C06 on every run",
    "Spec.Diff.Mutation / expected / touches: my reading of the documented catalogue of detectable changes (docs/build/autogenerate.rst) and of 'an operation of the corresponding kind naming that object'",
    "canonicalisation of as_diffs() (harness/diff_schema.py:canon_diffs)",
]
RULE = (
    "dialect stream: {default, sqlite, postgresql, mysql, mssql, oracle} x (dialect's reflected type classes per family) x (generic metadata "
    "types per family: string/integer/float-numeric/boolean/datetime/binary/json, random arguments) through the real impl.compare_type, no database; "
    "non-trivial = cross-family pair no synonym group joins, distinct by (dialect, type texts).  Live stream: "
    "settings: compare_type / compare_server_default = True (50%), callables that always answer None (25%), callables answering False on ~20% of the columns and, for the changed column, True or suppressing the change (25%); "
    "plus the compound change 'remove a table that remaining tables reference, with the foreign keys pointing to it (and optionally their columns)'; "
    "random base schema (as in C06) x one candidate of each of the 15 mutation kinds applicable to it (random object); compare_type and "
    "compare_server_default on; 20% of bases leave the proved class. Non-trivial = every evaluated (base, mutation); distinct by (kind, op list)"
)
ASSUMPTIONS = [
    "Computed (generated) columns appear in C07 bases with nullable= always stated explicitly, so the documented 'nullability of a computed column whose nullable is unset is ignored' exception never applies and the model treats them as ordinary columns without server default",
    "dialect stream: type texts are ASCII; synonym groups and type_arg_extract results are read from the live impl and passed to the model as data; cross-family pairs that a synonym group of the unchanged code joins (e.g. NUMBER/INTEGER on Oracle, BOOL/TINYINT and JSON/LONGTEXT on MySQL) are followed, not judged",
    "a type change is 'to a different type family' when the first word of the SQLite DDL type differs (DECIMAL = NUMERIC) and the old type reflects by name",
    "a server default is 'changed' when its value (string value, or expression text without enclosing whitespace / one pair of parentheses / one pair of quotes) differs",
    "dropColumn / dropTable candidates are not referenced by an index, constraint or foreign key (otherwise it is not a single change)",
]


def run(ctx, n_bases=None, rng_name="main", max_seconds=None):
    import time

    t_end = time.time() + max_seconds if max_seconds else None
    rng = ctx.rng(rng_name)
    D.run_dialects(ctx, ctx.rng(rng_name + "/dialects"), 8 if ctx.thorough else 2)
    n = n_bases or (3000 if ctx.thorough else 150)
    pending = []
    for i in range(n):
        if t_end and time.time() > t_end:
            ctx.note("search stopped after %d bases (time cap %ss)" % (i, max_seconds))
            break
        odd = rng.random() < 0.2
        a = G.gen_schema(rng, odd=odd, computed=True, unnamed_uq=True)
        ctx.hist("base.class", "odd" if odd else "plain")
        ctx.hist("base.tables", len(a["tables"]))
        for desc, b in G.candidate_mutations(rng, a, odd, stacked=True):
            if desc["m"] in ("changeFKOptions", "changeTypeArgs", "swapNamedKind", "addIndexedColumn"):
                continue  # edits for C06 pairs (two ops, or not a family change): not catalogue mutations
            K.run_mutation(ctx, a, desc, b, pending, rng)
        if i < 2:
            ctx.sample({"a": a})
        if len(pending) > 400:
            K.flush_mutations(ctx, pending)
    K.flush_mutations(ctx, pending)


def search(ctx):
    # runs only when a proof or the correspondence is broken and the main run found no failing input; capped
    run(ctx, n_bases=1000, rng_name="search", max_seconds=45)


def classify(failure):
    tags = set(failure.get("tags", []))
    kind = failure.get("what", "").split(":")[0]
    if kind == "unrelated":
        if "op:modify_default" in tags and "md-default:str-nonplain" in tags:
            return "C07-F9"
        if "op:modify_default" in tags and "md-default:expr-nonplain" in tags:
            return "C07-F9x"
        if "op:modify_type" in tags and "md-type:unreflectable" in tags:
            return "C07-T1"
        if ("op:add_fk" in tags or "op:remove_fk" in tags) and "fk-default-schema" in tags:
            return "C07-MAINFK"
    if kind == "missed" and ("mut:dropFK" in tags or "mut:addFK" in tags or "mut:dropTableRefs" in tags) and "fk-default-schema" in tags:
        return "C07-MAINFK"
    if kind == "missed" and "mut:changeDefault" in tags:
        if any(t in tags for t in ("old-default:str-nonplain", "new-default:str-nonplain")):
            return "C07-F9"
        if any(t in tags for t in ("old-default:expr-nonplain", "new-default:expr-nonplain")):
            return "C07-F9x"
    return None


def _replay(ctx, w):
    import copy
    pending = []
    before = len(ctx.failures)
    b = w["b"]
    K.run_mutation(ctx, w["a"], w["m"], b, pending)
    K.flush_mutations(ctx, pending)
    new = ctx.failures[before:]
    del ctx.failures[before:]
    return new


def check_witness(ctx, finding):
    new = _replay(ctx, finding["witness"])
    hits = [f for f in new if classify(f) == finding["id"]]
    return hits[0]["what"] if hits else None


def replay(ctx, case):
    inp = case["input"]
    from .. import diff_schema as S
    cands = {"a": inp["a"], "m": inp["m"]}
    # rebuild m(A) through the Lean spec's own Mutation.apply is not needed: the generator stored the descriptor only,
    # so re-derive B by applying the descriptor in Python
    b = apply_descriptor(inp["a"], inp["m"])
    new = _replay(ctx, {"a": inp["a"], "m": inp["m"], "b": b})
    return {"failures": [{"what": f["what"], "finding": classify(f)} for f in new]}


def apply_descriptor(a, m):
    import copy
    s = copy.deepcopy(a)
    k = m["m"]
    if k == "addTable":
        s["tables"].append(m["table"])
        return s
    if k == "dropTable":
        s["tables"] = [t for t in s["tables"] if t["name"] != m["t"]]
        return s
    if k == "dropTableRefs":
        s["tables"] = [t for t in s["tables"] if t["name"] != m["t"]]
        for t in s["tables"]:
            gone = {c for g in t["fks"] if g["reftable"] == m["t"] for c in g["cols"]}
            t["fks"] = [g for g in t["fks"] if g["reftable"] != m["t"]]
            if m.get("dropCols"):
                t["cols"] = [c for c in t["cols"] if c["name"] not in gone]
        return s
    t = next(t for t in s["tables"] if t["name"] == m["t"])
    col = lambda: next(c for c in t["cols"] if c["name"] == m["c"])
    if k == "addColumn":
        t["cols"].append(m["col"])
    elif k == "dropColumn":
        t["cols"] = [c for c in t["cols"] if c["name"] != m["c"]]
    elif k == "flipNullable":
        col()["nullable"] = not col()["nullable"]
    elif k == "changeType":
        col()["ty"] = m["ty"]
    elif k == "changeDefault":
        col()["default"] = m["default"]
    elif k == "addIndex":
        t["ixs"].append(m["ix"])
    elif k == "dropIndex":
        t["ixs"] = [i for i in t["ixs"] if i["name"] != m["n"]]
    elif k == "changeIndex":
        for i in t["ixs"]:
            if i["name"] == m["n"]:
                i["cols"], i["unique"] = m["cols"], m["unique"]
    elif k == "addUnique":
        t["uqs"].append(m["uq"])
    elif k == "dropUnique":
        t["uqs"] = [i for i in t["uqs"] if i["name"] != m["n"]]
    elif k == "changeUnique":
        for i in t["uqs"]:
            if i["name"] == m["n"]:
                i["cols"] = m["cols"]
    elif k == "addFK":
        t["fks"].append(m["fk"])
    elif k == "dropFK":
        t["fks"] = [i for i in t["fks"] if i["name"] != m["n"]]
    return s
