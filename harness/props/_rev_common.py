"""shared declarations of the revision-engine property modules"""
from __future__ import annotations

import json

from .. import rev_corr, rev_impl

THEOREMS = {
    "C01": ["C01.plan", "C01.plan_history", "C01.upgradeOk_sound", "C01.requires_iff_isAnc", "C01.plan_of_needs", "C01.sort_total", "C01.norm_closure",
            "Lemmas.Rev.topoLoopG_ok", "Lemmas.Rev.topoSort_ok", "Lemmas.Rev.mem_closureOf_iff",
            "Lemmas.Rev.loaded_of_load", "Lemmas.Rev.upgradeNeeds_spec", "Lemmas.Rev.allDownOf_mem_iff_parents",
            "Lemmas.Rev.mem_ancSet_iff"],
    "C02": ["C02.plan", "C02.plan_of_set", "C02.target_safe", "C02.reach_inv", "C02.mem_downgradeSet",
            "Lemmas.Rev.topoSort_ok", "Lemmas.Rev.loaded_of_load", "C02.downgradeOk_sound", "C02.plan_history"],
    "C03": ["C03.step", "C03.upgrade_run", "C03.downgrade_run", "C03.run_up", "C03.run_down", "C03.init",
            "C03.all_applied_rows", "C03.none_applied_rows", "C03.applied_iff_requires",
            "Lemmas.Rev.step_up", "Lemmas.Rev.step_down", "Lemmas.Rev.mem_unmergeTo", "Lemmas.Rev.mem_mergeFrom", "C03.rows_history", "C03.rowsOk_sound", "C03.traceOk_sound"],
    "C05": ["C05.single", "C05.single_gen", "C05.several", "C05.base", "C05.stamp_one", "C05.stamp_several", "C05.stamp_heads", "C05.stamp_heads_history",
            "C05.stamp_base", "C05.stampRevs_ids", "C05.stampOk_sound", "C05.lineage_history", "C05.stamp_fold", "C05.sharesLineage_iff",
            "Lemmas.Rev.fold_ok", "Lemmas.Rev.loaded_of_load", "C05.stamp_branch_head", "C05.getRevisions_branch_head", "C05.resolveShares_branch_head", "C05.stamp_prefix_eq_full", "C05.upgrade_branch_head_eq", "C05.upgrade_heads_from_empty_runs_all", "C05.downgrade_base_removes_all", "C05.reaches_root"],
    "C15": ["C15.cyclic_rejected", "C15.detect_rejects_cycle", "C15.acyclic_accepted", "C15.acyclic_loads",
            "C15.acyclic_no_cycle", "C15.heads_bases", "C15.heads_bases_history", "C15.closure_total", "C15.hasCycle_sound", "C15.hasCycle_complete", "C15.hasCycle_iff", "C15.no_cycle_acyclic", "C15.no_cycle_accepted", "C15.cyclic_refused_every_read", "C15.memo_run_refused", "C15.memo_run_loaded",
            "Lemmas.Rev.peel_of_ranked", "Lemmas.Rev.peel_keeps_cycle", "Lemmas.Rev.ranked_of_peel",
            "Lemmas.Rev.detect_ok_of_ranked", "Lemmas.Rev.mem_closureOf_iff"],
    "C16": ["C16.full_id", "C16.plain_sound", "C16.prefix_unique_partial", "C16.prefix_unique_counterexample",
            "C16.symbolic_heads", "C16.symbolic_base", "C16.walk_up_exact", "C16.walk_down_exact", "C16.walk_up_history", "C16.walk_down_history", "C16.stepsDown_iff", "C16.load_ids_legal", "C16.walkStep_up", "C16.walkStep_down", "Lemmas.Rev.revisionForIdent_sound",
            "C16.rel_up_id", "C16.rel_up_row", "C16.rel_down_id", "C16.rel_dgrade_id", "C16.rel_dgrade_row", "C16.self_qualified", "C16.stepsDown_base_iff", "C16.branch_head", "C16.branch_head_ambiguous", "C16.branch_heads", "C16.sharesLineage_history", "C16.branch_heads_history", "C16.branch_head_history", "C16.rel_up_empty", "C16.walk_up_from_base", "C16.rel_up_empty_label", "C16.prefix_unique_resolves", "C16.load_labelKeys_fresh", "C16.branch_id", "C16.branch_id_history", "C16.parse_dgrade_qualified", "C16.rpartitionAt_at", "C16.upgrade_prefix_eq_full", "C16.upgradeRevs_congr", "C16.downgrade_prefix_eq_full", "C16.prefix_unique_resolves_single", "C16.revisionForIdent_prefix", "C16.symbolic_head"],
}
PARTIAL = {
    "C05": {
        "label@head / partial ids / relative targets / --purge": "C05.stamp_one, stamp_several, stamp_heads and stamp_base are end-to-end theorems about command.stamp (target resolution, the loop of _stamp_revs, the version-table statements) for targets written as full revision ids, 'heads', 'base' and - C05.stamp_branch_head - `<label or id>@head` with a single head on the branch (ends exactly where `stamp <that head>` ends, although the first filter also picks up rows related only to the revision carrying the label: the repaired F15); targets written as bare branch labels, partial ids or label@heads resolve through the same code but are tied by correspondence and judged by the Lean oracle Spec.Rev.stampOk on the implementation's rows; --purge (DELETE of every row first) is compared only",
        "several destinations that share a lineage": "C05.several assumes the destinations are pairwise outside each other's lineage (as heads are); for related destinations the result is not an antichain and the real code's answer is compared with the model only (the 'nonsensical multi-rev stamp' cases of the existing tests)",
    },
    "C16": {
        "C16.prefix_unique_partial": "full prefix rule needs every revision id to have >=4 characters (known finding F13: shorter ids are invisible to the partial lookup); C16.prefix_unique_counterexample is the kernel-checked witness",
        "relative and branch-qualified forms": "id+/-N, +/-N, label@... are compared with the real code and judged by the Lean oracles Spec.Rev.stepsDown / downLineage / refTargets on the implementation's answers; the unbounded theorems are C16.walk_up_exact / C16.walk_down_exact (a relative walk that returns a revision returns one exactly N links away along single-child / single-down-revision links; base only when exactly N-1 links lead to a root); and, end to end through _parse_upgrade_target / _parse_downgrade_target, C16.rel_up_id (rev+N), rel_up_row (+N from the single current row), rel_up_empty and rel_up_empty_label (+N and <branch>@+N on an empty table: exactly one revision without down_revision - dependent roots count; on the branch's lineage when one is named - and the answer lies N-1 links above it), rel_down_id (rev-N as an upgrade target), rel_dgrade_id (rev-N as a downgrade target, incl. base), rel_dgrade_row (bare -N: counts from the first row and is restricted to its branch) - each for every target string the pattern model matchRelative splits that way; C16.branch_head (`<label or id>@head` = the single head sharing the branch's down_revision lineage, none when there is none, refused when there are several: branch_head_ambiguous) and C16.branch_heads (`<label or id>@heads` = exactly the heads sharing that lineage); C16.sharesLineage_history identifies the lineage test of the loaded map with ancestor-or-descendant along the down_revision links written in the files, so branch_head_history / branch_heads_history state both spellings against the history itself, as Spec.Rev.refTargets does; label@+N / label@-N (start at the branch tip: Spec.Rev.relUpStarts), +N with several rows, and the regular expression itself are tied by correspondence + oracle only",
    },
}
RULE = (
    "histories: every DAG on <=3 (quick) / <=4 (thorough) revisions with <=2 down-revisions and <=1 dependency, each with every "
    "antichain state and every target form; plus random DAGs (2-14 revisions, merge points, several roots, cross-branch dependencies, "
    "branch labels) driven by random command sequences from the empty database so that every state is one the implementation reached; "
    "a case is non-trivial when the plan has >=1 step; distinct by (history, rows, target)"
)
ASSUMPTIONS = ["the history loads (acyclic, references resolve)", "version-table rows are full revision ids"]


def run_case(ctx, inp):
    sd, info = rev_impl.load(inp["revs"])
    if sd is None:
        return {"impl": info}, None
    if inp.get("ctxopts") is not None:
        from .. import rev_ctx

        impl = rev_ctx.replay_case(inp)
        model = ctx.drv.ask1({"op": "rev.cmd", **{k: v for k, v in inp.items() if k not in ("prior", "ctxopts")}, "normOrder": info["normOrder"]})
        return {"impl": rev_corr.canon_cmd(impl), "model": rev_corr.canon_cmd(model)}, impl
    vdb = rev_impl.VersionDb()
    try:
        n_live = len(inp["revs"])
        if inp.get("loadedFirst") is not None:
            # the map was loaded with the first revisions only and grew in place between the commands
            n_live = inp["loadedFirst"]
            sd, _ = rev_impl.load(inp["revs"][:n_live])
        # commands that ran earlier on the same ScriptDirectory object
        for p0 in inp.get("prior", []):
            rows0, cmd0, tgt0 = p0[0], p0[1], p0[2]
            while len(p0) > 3 and n_live < p0[3]:
                rev_corr.grow(sd, inp["revs"][n_live])
                n_live += 1
            rev_impl.command(sd, vdb, rows0, cmd0, tuple(tgt0) if isinstance(tgt0, list) else tgt0)
        while n_live < len(inp["revs"]):
            rev_corr.grow(sd, inp["revs"][n_live])
            n_live += 1
        tgt = inp.get("target", inp.get("targets"))
        impl = rev_impl.command(sd, vdb, inp["rows"], inp["cmd"], tgt)
    finally:
        vdb.close()
    model = ctx.drv.ask1({"op": "rev.cmd", **{k: v for k, v in inp.items() if k not in ("prior", "loadedFirst")},
                          "normOrder": rev_corr.live_norm_order(sd, inp["revs"])})
    return {"impl": rev_corr.canon_cmd(impl), "model": rev_corr.canon_cmd(model)}, impl


def make_replay(prop):
    def replay(ctx, case):
        out, _ = run_case(ctx, case["input"])
        return out

    return replay


def make_check_witness(prop):
    def check_witness(ctx, finding):
        """re-judges the witness with the normal oracle of this property"""
        from ..core import Ctx

        sub = Ctx(prop, ctx.tier, ctx.seed, "drv_rev")
        inp = dict(finding["witness"])
        sd, info = rev_impl.load(inp["revs"])
        if sd is None:
            return None
        inp.setdefault("normOrder", info["normOrder"])
        vdb = rev_impl.VersionDb()
        try:
            impl = rev_impl.command(sd, vdb, inp["rows"], inp["cmd"], inp.get("target", inp.get("targets")))
        finally:
            vdb.close()
        model = sub.drv.ask1({"op": "rev.cmd", **inp})
        sds = {json.dumps(inp["revs"], sort_keys=True): sd}
        rev_corr.judge(sub, rev_corr.FOCI[prop], [(inp, impl, model)], sds)
        cl = make_classify(prop)
        for f in sub.failures:
            if cl(f) == finding["id"]:
                return f["what"]
        return None

    return check_witness


def norm_antichain_violation(inp):
    """F2/F3 signature: some revision's normalized down-revisions contain X and a proper ancestor of X.
    Computed on the history itself (down-revisions + dependencies), independent of alembic."""
    from .. import gen_graph

    hist = inp["revs"]
    par = gen_graph.parents(hist)
    labels = {l: r["id"] for r in hist for l in r.get("labels", [])}
    par = {k: [labels.get(p, p) for p in v] for k, v in par.items()}

    def anc(x):
        seen = set()
        todo = list(par.get(x, []))
        while todo:
            y = todo.pop()
            if y in seen:
                continue
            seen.add(y)
            todo.extend(par.get(y, []))
        return seen

    for r in hist:
        ps = par[r["id"]]
        for x in ps:
            ax = anc(x)
            if any(y in ax for y in ps if y != x):
                return True
    return False


def make_classify(prop):
    def classify(failure):
        what = failure["what"]
        inp = failure["input"]
        if prop == "C03" and (what.startswith("bookkeeping-failed") or what.startswith("rows-not-heads")):
            if norm_antichain_violation(inp):
                return "F2-F3-redundant-parents"
        if prop == "C05" and what.startswith("stamp-rows") and "multi" in failure.get("tags", []):
            return "F4-stamp-multi"
        return None

    return classify
