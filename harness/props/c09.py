"""C09 - the generated downgrade undoes the generated upgrade.

Implementation side: real op objects of alembic.operations.ops (built from generated SQLAlchemy
schema objects and taken from real autogenerate output on SQLite), `op.reverse()`,
`op.reverse().reverse()`, `UpgradeOps.reverse()`; canonicalised ops are compared with
Model.Reverse (`rev.rr`, `rev.tree`); the Lean checkers `Spec.Reverse.view` equality
(`rev.viewEq`) and `reverseOrderOk` (`rev.order`) are evaluated on the implementation's own
output; the SQL emitted by `o` and `o.reverse().reverse()` is compared on five dialects; and the
upgrade followed by the downgrade is executed on SQLite and compared with the start schema by
`compare_metadata`.
"""
from __future__ import annotations

import json
import warnings

import sqlalchemy as sa

from alembic.autogenerate import api as ag_api
from alembic.operations import Operations
from alembic.operations import ops
from alembic.runtime.migration import MigrationContext

from .. import filter_schema as fs
from .. import reverse_ops as ro

PROPERTY = "C09"
DRIVER = "drv_filter"
THEOREMS = [
    "C09.reverse_order",
    "C09.reverseOrderOk_iff",
    "C09.populate_order",
    "C09.reverse_shape",
    "C09.roundTrip_schemas",
    "C09.reverse_fk_schemas",
    "C09.reverse_dropFk_schemas",
    "C09.reverse_dropIndex_kw",
    "C09.reverse_reverse_createIndex_kw",
    "C09.involutive_flags_counterexample",
    "C09.involutive_index_counterexample",
    "C09.involutive_partial",
    "C09.undo_leaf_partial",
    "C09.undo_all_partial",
]
PARTIAL = {
    "C09.involutive_partial": "full statement C09.involutive_statement is false on the current tree: reverse() rebuilds ops from the "
    "schema object, so if_exists/if_not_exists and add/drop-column kw are lost (F13, open) and the indexes a directly built "
    "CreateTableOp derives from Column(index=True) are lost (F15, open; autogenerate's from_table ops have none); hypothesis `clean o` excludes those "
    "(plus representation conditions: primary-key ops carry dialect kwargs only, create_table_comment has a comment). Renames (F11) "
    "and explicit deferrable/initially (F14) are fixed in /repo and covered by the theorem",
    "C09.undo_leaf_partial": "apply (reverse o) (apply o S) = S for every leaf op kind incl. renames on the abstract schema semantics, "
    "under `accurate o S` (stored _reverse / existing_* describe S); database semantics of the DDL itself is modelled (validated by "
    "executing upgrade+downgrade on SQLite only)",
}
TRUSTED = [
    "canonicalisation of op objects through to_table()/to_index()/to_constraint()/to_column() (harness/reverse_ops.py:op_json) "
    "and its order-insensitive normal form (kw lists, constraint sets)",
    "SQL text comparison of o and o.reverse().reverse() uses alembic's own offline mode on 5 dialects (string equality, error class "
    "when invoke raises)",
    "abstract schema semantics Spec.Reverse.apply (finite maps of columns/indexes/constraints per table) is a model of what DDL does; "
    "validated only on SQLite by executing upgrade then downgrade and calling compare_metadata",
]
RULE = (
    "A: generated leaf ops of every reversible class (from_* and direct constructors, with/without stored _reverse, tables with "
    "table-level options - sqlite_with_rowid/sqlite_strict/mysql_engine/postgresql_partition_by/comment/prefixes/info, truthy and falsy -, 12% carrying an "
    "attribute reverse() loses or used to lose (rename, IF [NOT] EXISTS, drop-column kw, deferrable=False)) and op trees with nested ModifyTableOps; B: real autogenerate output on SQLite for "
    "generated schema pairs, executed upgrade+downgrade in batch mode (40% of tables WITHOUT ROWID; reflected table options compared before/after). Non-trivial: a reversible op / a non-empty upgrade; distinct "
    "by canonical op"
)
ASSUMPTIONS = [
    "an AlterColumnOp counts as reversible only if every modify_<attr> (type, nullable, server_default) comes with its "
    "existing_<attr> (autogenerate always sets them); without it reverse() silently yields an op that changes nothing",
    "a DropColumnOp/DropConstraintOp without stored _reverse is not reversible (reverse() raises ValueError)",
    "AlterColumnOp.kw holds no existing_*/modify_* keys",
    "CreatePrimaryKeyOp carries dialect kwargs only: deferrable/initially smuggled through its **kw are not read back by "
    "CreatePrimaryKeyOp.from_constraint (create_primary_key has no such parameter; not generated, not judged)",
]

FINDING_OF = {
    "if_exists": "C09-F13",
    "if_not_exists": "C09-F13",
    "column_kw": "C09-F13",
    "column_index_flag": "C09-F15",
}


def impl_rr(op):
    """(view of reverse, view of reverse.reverse, rr object) or error"""
    try:
        r = op.reverse()
    except ValueError:
        return {"err": "ValueError"}
    except Exception as e:                      # anything else is a result to report, not a harness crash
        return {"err": "raised " + type(e).__name__}
    if not isinstance(r, ops.MigrateOperation):
        return {"err": "returned %s" % type(r).__name__}
    out = {"viewR": ro.view_json(r), "r": r}
    try:
        rr = r.reverse()
    except ValueError:
        out["err2"] = "ValueError"
        return out
    except Exception as e:
        out["err2"] = "raised " + type(e).__name__
        return out
    if not isinstance(rr, ops.MigrateOperation):
        out["err2"] = "returned %s" % type(rr).__name__
        return out
    out["viewRR"] = ro.view_json(rr)
    out["rr"] = rr
    out["rr_json"] = ro.op_json(rr)
    return out


def sql_diffs(op, rr):
    diffs = []
    for d in ro.SQL_CONTEXTS:
        a, b = ro.sql_of(op, d), ro.sql_of(rr, d)
        if a != b:
            diffs.append({"dialect": d, "original": a, "twice_reversed": b})
    return diffs


def judge_undo(ctx, op, j, imp, shape, where):
    """spec on the single reverse: it names what the op made (Lean `undoesShape`, constraint type included), and wherever
    the op itself can be emitted its reverse can be emitted too (a downgrade that cannot even be rendered undoes nothing)"""
    feats = sorted(set(ro.lossy_features(j)))
    if shape.get("holds") is not True:
        ctx.fail({"op": j, "where": where}, "undo-shape: reverse() does not name the object / kind the op made (Spec.Reverse.undoesShape): "
                 "reverse = %s" % json.dumps(ro.op_json(imp["r"]))[:400], impl={"reverse": ro.op_json(imp["r"])}, tags=["residual"])
    named = not (j["k"] in ("addConstraint",) and j["c"]["name"] is None) and not (j["k"] == "createIndex" and j["ix"]["name"] is None)
    if not named:
        return          # an unnamed constraint gets its name from the database: no DDL can name it again
    if j["k"] in ("dropTable", "dropColumn", "dropIndex", "dropConstraint", "modifyTable"):
        # the reverse of a drop re-creates the stored object: whether *that* can be emitted on a dialect depends on the
        # object (MATCH FULL on MySQL, ...), not on reverse(); those ops are judged by the o vs reverse().reverse() DDL oracle
        return
    bad = []
    for d in ro.SQL_CONTEXTS:
        a = ro.sql_of(op, d)
        if a.startswith("ERR:"):
            continue
        b = ro.sql_of(imp["r"], d)
        if b.startswith("ERR:"):
            bad.append({"dialect": d, "forward": a, "reverse": b})
    if bad:
        ctx.fail({"op": j, "where": where}, "undo-ddl: the op can be emitted on %s but its reverse() cannot (%s)"
                 % ([x["dialect"] for x in bad], bad[0]["reverse"]), impl={"sql": bad[:2]}, tags=list(feats) + ["residual"])


def judge_involution(ctx, op, j, m, imp, sres, where):
    """spec on the implementation's output: view equality (Lean) and SQL equality on five dialects"""
    if not sres.get("reversible"):
        ctx.hist("judged", "not-reversible (skipped)")
        return
    ctx.hist("judged", "reversible")
    ctx.nontrivial(json.dumps(j, sort_keys=True))
    problems = []
    if not sres.get("holds"):
        problems.append("fields")
    sd = sql_diffs(op, imp["rr"])
    if sd:
        problems.append("sql")
    if not problems:
        return
    feats = sorted(set(ro.lossy_features(j)))
    tags = list(feats)
    # is the failure explained by the known-lossy attributes alone?  strip them and test again
    stripped = ro.strip_lossy(op)
    residual = False
    if not feats:
        residual = True
    else:
        try:
            rr2 = stripped.reverse().reverse()
            if ro.view_json(rr2) != ro.view_json(stripped) or sql_diffs(stripped, rr2):
                residual = True
        except Exception:
            residual = True
    if residual:
        tags.append("residual")
    ctx.fail({"op": j, "where": where},
             "involution(%s): o.reverse().reverse() differs from o in %s" % ("+".join(feats) if feats and not residual else "unexplained",
                                                                             "/".join(problems)),
             impl={"rr": imp.get("rr_json"), "sql": sd[:2]}, tags=tags)


def check_leafs(ctx, leafs, where):
    js = [ro.op_json(o) for o in leafs]
    ans = ctx.drv.ask([{"op": "rev.rr", "o": j} for j in js])
    imps = [impl_rr(o) for o in leafs]
    q2, idx2 = [], []
    for i, (o, j, m, imp) in enumerate(zip(leafs, js, ans, imps)):
        ctx.evaluation()
        ctx.hist("op_class", type(o).__name__)
        if "err" in imp or "err" in m:
            if imp.get("err") != m.get("err"):
                ctx.disagree("rev.rr", {"op": j}, {k: v for k, v in imp.items() if k in ("err",)}, m)
                if m.get("reversible") is True and "err" in imp:
                    # the Lean spec says the op is reversible; the implementation could not reverse it
                    ctx.fail({"op": j, "where": where}, "involution(unexplained): reverse() of a reversible op fails: %s" % imp["err"],
                             impl={"reverse": imp["err"]}, tags=["residual"])
            else:
                ctx.trace_ok()
                ctx.hist("reverse_error", imp.get("err"))
            continue
        if "err2" in imp and m.get("reversible") is True and "err2" not in m:
            ctx.fail({"op": j, "where": where}, "involution(unexplained): reverse().reverse() of a reversible op fails: %s" % imp["err2"],
                     impl={"reverse_reverse": imp["err2"]}, tags=["residual"])
        ok = ro.norm(m.get("viewR")) == imp["viewR"] and (
            ("err2" in imp and imp.get("err2") == m.get("err2")) or
            ("viewRR" in imp and ro.norm(m.get("viewRR")) == imp["viewRR"]))
        if not ok:
            ctx.disagree("rev.rr", {"op": j}, {k: imp.get(k) for k in ("viewR", "viewRR", "err2")},
                         {k: ro.norm(m.get(k)) for k in ("viewR", "viewRR", "err2")})
        else:
            ctx.trace_ok()
        # the spec is judged on the implementation's own output whether or not the model agrees
        if "rr" in imp:
            q2.append({"op": "rev.viewEq", "a": j, "b": imp["rr_json"]})
            idx2.append(i)
    # the single reverse, judged on the implementation's own output
    q3 = [(i, {"op": "rev.shape", "o": js[i], "r": ro.op_json(imps[i]["r"])}) for i in range(len(leafs))
          if "r" in imps[i] and ans[i].get("reversible") is True]
    for (i, _), sh in zip(q3, ctx.drv.ask([x[1] for x in q3])):
        judge_undo(ctx, leafs[i], js[i], imps[i], sh, where)
    ans2 = ctx.drv.ask(q2)
    for i, s in zip(idx2, ans2):
        judge_involution(ctx, leafs[i], js[i], ans[i], imps[i], s, where)
        if len(ctx.samples) < 3:
            ctx.sample({"op": js[i], "reverse": imps[i]["viewR"], "reverse_reverse": imps[i]["viewRR"]})


def leaf_tags(container):
    out = []
    for o in container.ops:
        if hasattr(o, "ops"):
            out.extend(leaf_tags(o))
        else:
            j = ro.op_json(o)
            out.append([j["k"], bool(j["k"] == "createTableComment" and j.get("existing") is not None)])
    return out


DIFF_KIND = {"add_table": "createTable", "remove_table": "dropTable", "add_column": "addColumn", "remove_column": "dropColumn",
             "add_index": "createIndex", "remove_index": "dropIndex", "add_constraint": "addConstraint", "add_fk": "addConstraint",
             "remove_constraint": "dropConstraint", "remove_fk": "dropConstraint", "add_table_comment": "createTableComment",
             "remove_table_comment": "dropTableComment"}


def diff_kinds(container):
    """op kinds as observed through OpContainer.as_diffs() (to_diff_tuple of every leaf); None if a leaf cannot
    produce its diff tuple (drop op without stored _reverse)"""
    try:
        diffs = container.as_diffs()
    except ValueError:
        return None
    out = []
    for d in diffs:
        if isinstance(d, list):
            out.append("alterColumn")
        elif isinstance(d, tuple) and d:
            out.append(DIFF_KIND.get(d[0], "other:%s" % (d[0],)))
        else:
            out.append("other:%r" % (d,))          # a leaf whose to_diff_tuple() returns something else
    return out


def check_trees(ctx, trees, where):
    """trees: list of (upgrade op list, DowngradeOps produced by the implementation or None on ValueError)"""
    q = []
    for up, down in trees:
        q.append({"op": "rev.tree", "ops": [ro.op_json(o) for o in up]})
        q.append({"op": "rev.order", "ups": leaf_tags(ops.UpgradeOps(ops=up)),
                  "downs": [t[0] for t in leaf_tags(down)] if isinstance(down, ops.OpContainer) else []})
    ans = ctx.drv.ask(q)
    for k, (up, down) in enumerate(trees):
        m, s = ans[2 * k], ans[2 * k + 1]
        ctx.evaluation()
        inp = {"ops": q[2 * k]["ops"], "where": where}
        if where == "autogenerate" and m.get("reversible") is not True:
            # hypothesis of C09.populate_order: every op autogenerate emits is reversible
            ctx.fail(inp, "populate: autogenerate emitted an upgrade op that cannot be reversed (no stored _reverse / existing_* values)",
                     impl={"up": inp["ops"]}, tags=["populate"])
        if isinstance(down, Exception):
            ctx.disagree("rev.tree", inp, {"err": "raised " + type(down).__name__}, m)
            if m.get("reversible") is True:
                ctx.fail(inp, "order: UpgradeOps.reverse() of a tree of reversible ops raises %s" % type(down).__name__,
                         impl={"err": repr(down)[:300]}, tags=["order"])
            continue
        if where == "autogenerate":
            # a ModifyTableOps container names the table its rendered batch_alter_table()/directives act on
            for c in list(up) + list(down.ops):
                if isinstance(c, ops.ModifyTableOps):
                    bad = [type(o).__name__ for o in c.ops
                           if (getattr(o, "schema", c.schema), getattr(o, "table_name", c.table_name)) != (c.schema, c.table_name)
                           and not isinstance(o, ops.CreateForeignKeyOp)]
                    bad += [type(o).__name__ for o in c.ops if isinstance(o, ops.CreateForeignKeyOp)
                            and (o.kw.get("source_schema"), o.source_table) != (c.schema, c.table_name)]
                    if bad:
                        ctx.fail(inp, "undo-target: ModifyTableOps(%r, schema=%r) holds ops on another table: %s (the rendered "
                                 "migration would alter the wrong table)" % (c.table_name, c.schema, bad), impl={"ops": inp["ops"]},
                                 tags=["undo"])
        if down is None:
            if m.get("err") != "ValueError":
                ctx.disagree("rev.tree", inp, {"err": "ValueError"}, m)
            else:
                ctx.trace_ok()
            continue
        iv = [ro.view_json(o) if isinstance(o, ops.MigrateOperation) else {"k": "other:%s" % type(o).__name__} for o in down.ops]
        if "err" in m or [ro.norm(x) for x in m["down"]] != iv:
            ctx.disagree("rev.tree", inp, {"down": iv}, m)
        else:
            ctx.trace_ok()
        # DowngradeOps.reverse(): the upgrade rebuilt from the downgrade
        try:
            up2 = [ro.view_json(o) for o in down.reverse().ops]
        except ValueError:
            up2 = "ValueError"
        except Exception as e:
            up2 = "raised " + type(e).__name__
        m2 = m.get("up2")
        if (m2 if isinstance(m2, str) else [ro.norm(x) for x in m2]) != up2:
            ctx.disagree("rev.tree/DowngradeOps.reverse", inp, {"up2": up2}, {"up2": m2})
        # the same kinds through as_diffs()
        for cont, tags_ in ((ops.UpgradeOps(ops=up), q[2 * k + 1]["ups"]), (down, [[t] for t in q[2 * k + 1]["downs"]])):
            dk = diff_kinds(cont)
            if dk is not None and dk != [t[0] for t in tags_]:
                ctx.disagree("as_diffs-kinds", inp, {"as_diffs": dk}, {"op_classes": [t[0] for t in tags_]})
                # kinds(...) as a user reads them (as_diffs) are not the kinds of the ops: the reverse-order sentence fails
                ctx.fail(inp, "order: kinds read through as_diffs() are %s but the ops are %s (expected downgrade kinds %s)"
                         % (dk, [t[0] for t in tags_], s.get("expected")), impl={"as_diffs": dk}, tags=["order"])
        n = len(q[2 * k + 1]["ups"])
        ctx.hist("tree_leaves(%s)" % where, min(n, 12))
        if n:
            ctx.nontrivial(json.dumps(inp["ops"], sort_keys=True))
        if not s.get("holds"):
            ctx.fail(inp, "order: kinds(downgrade_ops) != reversed(inverse kinds(upgrade_ops)): got %s expected %s"
                     % (q[2 * k + 1]["downs"], s.get("expected")), impl={"down": iv}, tags=["order"])


# ------------------------------------------------------------------ part B: autogenerate on SQLite

NONBATCH_OK = (ops.AddColumnOp, ops.DropColumnOp, ops.CreateIndexOp, ops.DropIndexOp, ops.CreateTableOp, ops.DropTableOp)


def sqlite_can_alter(*containers):
    """every op is one SQLite executes without a table recreate (ADD/DROP COLUMN, CREATE/DROP INDEX/TABLE)"""
    return all(isinstance(o, NONBATCH_OK) for c in containers for o in flatten(c.ops))


def apply_rendered(conn, container, batch=True):
    """the real path: the ops rendered as the body of upgrade()/downgrade() (batch mode, as SQLite needs) and executed
    through the op.* directives"""
    from alembic.autogenerate import render_python_code
    mc = MigrationContext.configure(conn)
    code = render_python_code(container, render_as_batch=batch, migration_context=mc)
    src = "def _run():\n" + "\n".join("    " + l for l in code.splitlines()) + "\n"
    ns = {"op": Operations(mc), "sa": sa}
    exec(compile(src, "<rendered>", "exec"), ns)
    ns["_run"]()
    return code


def apply_ops(conn, container):
    mc = MigrationContext.configure(conn)
    op = Operations(mc)
    for o in container.ops:
        if isinstance(o, ops.ModifyTableOps):
            with op.batch_alter_table(o.table_name, schema=o.schema) as bop:
                for c in o.ops:
                    bop.invoke(c)
        else:
            op.invoke(o)


def battery_pairs():
    """small fixed schema pairs, each executed in every mode: single-kind changes (which batch mode applies without a
    table recreate) on a table of the default schema and of an attached schema"""
    def tbl(schema, name, cols, idxs=(), uqs=(), fks=(), **kw):
        return dict({"schema": schema, "name": name, "cols": [{"name": "id", "ty": "INTEGER", "nullable": False, "pk": True}] +
                     [{"name": c, "ty": "INTEGER", "nullable": True, "pk": False} for c in cols],
                     "idxs": list(idxs), "uqs": list(uqs), "fks": list(fks)}, **kw)
    def with_pk(t, order, name):
        for c in t["cols"]:
            if c["name"] in order:
                c["nullable"] = False
        return dict(t, pk_order=order, pk_name=name)

    out = []
    for sch in (None, "s2"):
        schemas = [None] + (["s2"] if sch else [])
        ref = tbl(sch, "t_a", ["a_1"])
        ix = {"name": "ix_tb_0", "unique": False, "cols": ["a_1"]}
        uix = {"name": "ix_tb_1", "unique": True, "cols": ["a_1", "b_1"]}
        pix = {"name": "ix_tb_p", "unique": False, "cols": ["a_1"], "where": "a_1 > 0"}
        uq = {"name": "uq_tb_0", "cols": ["b_1"]}
        fk = {"name": "fk_tb_0", "col": "a_1", "ref": "t_a", "ondelete": "CASCADE", "deferrable": True, "initially": "DEFERRED",
              "onupdate": None}
        plain = lambda **kw: tbl(sch, "t_b", ["a_1", "b_1"], **kw)      # noqa: E731
        variants = [("add-index", plain(), plain(idxs=[ix, uix])), ("drop-index", plain(idxs=[ix, uix]), plain()),
                    ("change-index", plain(idxs=[ix]), plain(idxs=[dict(ix, cols=["b_1"])])),
                    ("add-unique", plain(), plain(uqs=[uq])), ("drop-unique", plain(uqs=[uq]), plain()),
                    ("add-fk", plain(), plain(fks=[fk])), ("drop-fk", plain(fks=[fk]), plain()),
                    ("add-column", plain(), tbl(sch, "t_b", ["a_1", "b_1", "c_x"])),
                    ("drop-partial-index", plain(idxs=[pix]), plain()),
                    ("drop-table-with-partial-index", plain(idxs=[pix, ix]), None),
                    ("without-rowid-drop", tbl(sch, "t_b", ["a_1"], without_rowid=True), None),
                    ("composite-pk-drop", with_pk(tbl(sch, "t_b", ["a_1", "b_1"]), ["b_1", "a_1", "id"], None), None),
                    ("named-composite-pk-drop", with_pk(tbl(sch, "t_b", ["a_1", "b_1"]), ["b_1", "id"], "pk_tb"), None)]
        for name, a, b in variants:
            out.append(("%s/%s" % (sch or "main", name),
                        {"schemas": schemas, "conn": [ref, a], "meta": [ref] + ([b] if b is not None else []), "comments": False}))
    return out


def autogen_case(ctx, pair, mode=None):
    """returns (upgrade ops list, DowngradeOps) and runs the execute-and-compare oracle"""
    eng, conn = fs.make_db(pair)
    try:
        inc = "s2" in pair["schemas"]
        md_a = fs.build_metadata(pair["conn"])
        md_b = fs.build_metadata(pair["meta"])
        with warnings.catch_warnings():
            warnings.simplefilter("ignore")
            mc = MigrationContext.configure(conn, opts={"include_schemas": inc, "compare_server_default": True})
            try:
                base = ag_api.compare_metadata(mc, md_a)
                script = ag_api.produce_migrations(mc, md_b)
            except Exception as e:      # autogenerate itself fails: no migration to judge; reported, not a harness crash
                ctx.disagree("autogenerate", {"pair": pair}, {"raised": "%s: %s" % (type(e).__name__, str(e)[:200])}, {},
                             note="produce_migrations / compare_metadata raised on a schema pair of the C06 class")
                return ([], ops.DowngradeOps(ops=[]))
            up, down = script.upgrade_ops, script.downgrade_ops
            result = (list(up.ops), down)
            schemas_ = fs.inspected_schemas(conn, inc)
            opts_before = fs.table_options(conn, schemas_)
            if base:
                ctx.hist("undo_oracle", "skipped: start schema not quiet against its own metadata")
                return result
            if not up.ops:
                ctx.hist("undo_oracle", "skipped: empty upgrade")
                return result
            # two ways to run the ops: the rendered script body (the real path; needed as soon as an op carries a
            # server default, which autogenerate stores as a DefaultClause object) or Operations.invoke of the op objects
            has_default = any(c.get("default") is not None for side in ("conn", "meta") for t in pair[side] for c in t["cols"])
            rendered = has_default or (len(pair["conn"]) + len(pair["meta"])) % 2 == 0
            if mode is not None:
                rendered = mode != "invoke"
            apply = apply_rendered if rendered else apply_ops
            via = "rendered script (batch)" if rendered else "invoke (batch)"
            if rendered and sqlite_can_alter(up, down) and (mode == "nobatch" or (mode is None and len(json.dumps(pair)) % 2 == 0)):
                # plain op.add_column / op.drop_column / op.create_index / op.drop_index directives
                apply = lambda c_, o_: apply_rendered(c_, o_, batch=False)  # noqa: E731
                via = "rendered script (no batch)"
            ctx.hist("undo_executed_via", via)
            try:
                apply(conn, up)
            except Exception as e:
                ctx.hist("undo_oracle", "skipped: upgrade not executable on SQLite (%s)" % type(e).__name__)
                if rendered:
                    # the rendered migration does not run: do the op objects themselves run (fresh database)?
                    eng2, conn2 = fs.make_db(pair)
                    try:
                        apply_ops(conn2, up)
                        ok_invoke = True
                    except Exception:
                        ok_invoke = False
                    finally:
                        conn2.close()
                        eng2.dispose()
                    if ok_invoke:
                        ctx.fail({"pair": pair, "where": "undo"}, "undo-exec: the rendered upgrade fails on SQLite (%s: %s) although "
                                 "invoking the same op objects succeeds" % (type(e).__name__, str(e)[:200]),
                                 impl={"up": [ro.op_json(o) for o in up.ops]}, tags=["undo"])
                return result
            try:
                apply(conn, down)
            except Exception as e:
                ctx.fail({"pair": pair, "where": "undo"}, "undo-exec: the downgrade of an executed upgrade fails on SQLite: %s: %s"
                         % (type(e).__name__, str(e)[:300]), impl={"up": [ro.op_json(o) for o in up.ops]}, tags=["undo"])
                return result
            mc2 = MigrationContext.configure(conn, opts={"include_schemas": inc, "compare_server_default": True})
            rest = ag_api.compare_metadata(mc2, md_a)
            ctx.hist("undo_oracle", "executed")
            ctx.extra["undo_executed"] = ctx.extra.get("undo_executed", 0) + 1
            opts_after = fs.table_options(conn, schemas_)
            ctx.hist("undo_without_rowid_tables", sum(1 for v in opts_before.values() if v.get("sqlite_with_rowid") is False))
            if opts_after != opts_before:
                diff = {k: (opts_before.get(k), opts_after.get(k)) for k in set(opts_before) | set(opts_after)
                        if opts_before.get(k) != opts_after.get(k)}
                ctx.fail({"pair": pair, "where": "undo"}, "undo-options: reflected table options / primary key column order / partial-index predicates differ after upgrade+downgrade "
                         "(before, after): %s" % diff, impl={"up": [ro.op_json(o) for o in up.ops]}, tags=["undo"])
            if rest:
                ctx.fail({"pair": pair, "where": "undo"}, "undo: after upgrade+downgrade autogenerate still sees differences from the start schema: %s"
                         % [str(d)[:120] for d in rest][:6], impl={"up": [ro.op_json(o) for o in up.ops]}, tags=["undo"])
        return result
    finally:
        conn.close()
        eng.dispose()


def flatten(container_ops):
    out = []
    for o in container_ops:
        if hasattr(o, "ops"):
            out.extend(flatten(o.ops))
        else:
            out.append(o)
    return out


def run(ctx, n=None, rng_name="main"):
    rng = ctx.rng(rng_name)
    n_leaf = n or (12000 if ctx.thorough else 1200)
    n_tree = n_leaf // 4
    n_pairs = (n_leaf // 8) if n else (1200 if ctx.thorough else 120)
    # A: generated ops
    leafs = [ro.gen_leaf(rng) for _ in range(n_leaf)]
    for i in range(0, len(leafs), 500):
        check_leafs(ctx, leafs[i:i + 500], "generated")
    trees = []
    for _ in range(n_tree):
        up = ro.gen_tree(rng)
        try:
            down = ops.UpgradeOps(ops=up).reverse()
        except ValueError:
            down = None
        except Exception as e:                  # reported by check_trees, never a harness crash
            down = e
        trees.append((up, down))
    for i in range(0, len(trees), 300):
        check_trees(ctx, trees[i:i + 300], "generated")
    # B: real autogenerate output
    auto_trees, auto_leafs = [], []
    for _ in range(n_pairs):
        pair = fs.gen_pair(rng, big=ctx.thorough, with_schema=rng.random() < 0.15, c06_class=True, table_opts=True)
        up, down = autogen_case(ctx, pair)
        auto_trees.append((up, down))
        auto_leafs.extend(flatten(up))
    # fixed battery: single-kind changes x {default, attached} schema x every way of executing the migration
    for name, pair in battery_pairs():
        for mode in ("batch", "nobatch", "invoke"):
            ctx.hist("battery", mode)
            up, down = autogen_case(ctx, pair, mode=mode)
        auto_trees.append((up, down))
        auto_leafs.extend(flatten(up))
    check_trees(ctx, auto_trees, "autogenerate")
    for i in range(0, len(auto_leafs), 500):
        check_leafs(ctx, auto_leafs[i:i + 500], "autogenerate")


def search(ctx):
    run(ctx, n=6000, rng_name="search")


# ------------------------------------------------------------------ known findings

def _witness_op(w):
    kind = w["op"]
    if kind == "alter_rename":
        return ops.AlterColumnOp("t", "c", modify_name="d")
    if kind == "create_index_if_not_exists":
        return ops.CreateIndexOp("ix", "t", ["a"], if_not_exists=True)
    if kind == "unique_not_deferrable":
        return ops.CreateUniqueConstraintOp("uq", "t", ["a"], deferrable=False)
    if kind == "create_table_index_flag":
        return ops.CreateTableOp("t", [sa.Column("id", sa.Integer, primary_key=True), sa.Column("email", sa.String(50), index=True)])
    raise ValueError(kind)


def check_witness(ctx, finding):
    op = _witness_op(finding["witness"])
    rr = op.reverse().reverse()
    diffs = sql_diffs(op, rr)
    s = ctx.drv.ask1({"op": "rev.viewEq", "a": ro.op_json(op), "b": ro.op_json(rr)})
    if diffs or not s.get("holds"):
        return "%s: %d dialects differ; fields equal: %s" % (finding["witness"]["python"], len(diffs), s.get("holds"))
    return None


def classify(failure):
    tags = failure.get("tags") or []
    if "residual" in tags or not tags:
        return None
    ids = {FINDING_OF.get(t) for t in tags}
    if None in ids:
        return None
    # several known-lossy attributes on one op (e.g. if_not_exists and an index=True flag): every one of them
    # maps to a listed open finding and the failure disappears when all are stripped -> attribute to the first
    return sorted(ids)[0]


def replay(ctx, case):
    inp = case["input"]
    if inp.get("where") == "undo":
        sub = type(ctx)(ctx.prop, ctx.tier, ctx.seed, DRIVER)
        autogen_case(sub, inp["pair"])
        return {"failures": sub.failures, "hist": {k: dict(v) for k, v in sub.hists.items()}}
    if "op" in inp:
        m = ctx.drv.ask1({"op": "rev.rr", "o": inp["op"]})
        return {"model": m, "note": "rebuild the op from input.op (canonical fields) to replay on the implementation; "
                "see known_findings/C09.json for the python one-liners of the listed findings"}
    m = ctx.drv.ask1({"op": "rev.tree", "ops": inp["ops"]})
    return {"model": m}
