"""C10 - batch move-and-copy keeps every row and everything it was not told to change (SQLite).

Implementation side: the real `Operations(MigrationContext.configure(conn)).batch_alter_table(...)`
on a real SQLite file; statements captured through `before_cursor_execute`; the table observed
through the inspector / sqlite_master / raw `SELECT *` before and after, on the same and on a fresh
connection.  Model side: `Model.Batch.runBatch` (drv_batch, op `batch.run`) must produce the same
abstract statement sequence, the same outcome and the same final tables and rows.  Oracle: the Lean
checker `Spec.Batch.check10` (reference interpreter `specApply`) on the implementation's own
before/after observation.
"""
from __future__ import annotations

import json

from .. import batch_battery as bb
from .. import batch_corr as bc
from .. import batch_gen as bg

PROPERTY = "C10"
DRIVER = "drv_batch"
THEOREMS = [
    "C10.rows",
    "C10.rowcount",
    "C10.no_tmp",
    "C10.values",
    "C10.values_partial",
    "C10.generated_not_copied",
    "C10.generated_value",
    "C10.overwritten_column_counterexample",
    "C10.order_perm",
    "C10.order_respects",
    "C10.order_fuel",
    "C10.order_cycle_never_released",
    "C10.reorder_order",
    "C10.added_constraint_counterexample",
    "C10.added_constraint_partial",
    "C10.kept_constraints",
    "C10.kept_textual_check",
    "C10.evalPredCol_non_text",
    "C10.evalPredCol_null",
    "C10.kept_primary_key",
    "C10.kept_indexes",
]
PARTIAL = {
    "C10.added_constraint_partial": "full statement `C10.added_constraint_statement` (every constraint requested by add_constraint is "
    "in the new table) fails on the unchanged tree (finding C10-F1); proved under the hypothesis that every column the "
    "constraint names is a key of column_transfers (original name of an existing column, or an added column)",
    "C10.values_partial": "full statement `C10.values_statement` (every original column that no drop_column names keeps its values) "
    "fails when add_column re-uses the name of an existing column (finding C10-F2); proved under the hypothesis that "
    "no add_column names an existing column key",
}
TRUSTED = [
    "abstract SQLite semantics in lean/Model/Batch/Sqlite.lean (CREATE TABLE / INSERT..SELECT / DROP / RENAME / CREATE INDEX, "
    "NOT NULL / UNIQUE / simple CHECK evaluation, pysqlite legacy implicit transactions): validated against the real SQLite on every run, "
    "not proved",
    "SQLite's own CAST / column-affinity conversions: the conversion table is computed by the harness on a real SQLite and passed to the "
    "model and to the spec checker as a parameter; the theorems hold for every conversion table",
    "SQLAlchemy: reflection (Inspector), Table/Column/Constraint copy semantics, PrimaryKeyConstraint._set_parent, topological.sort "
    "(mirrored as Model.Batch.sortLevels and compared on every run), DDL compilation; the harness reads UNIQUE / FOREIGN KEY constraints "
    "from sqlite_master text because the inspector collapses identical ones",
    "observation: harness/batch_impl.py (statement abstraction by regular expressions, inspector canonicalisation)",
]
RULE = (
    "table generator (2-7 columns of 12 type tokens, nullability, server defaults, rowid/named/composite/text/no PK, named+unnamed "
    "UNIQUE/CHECK/FK incl. self-referential, plain+unique indexes, partial indexes (plain and unique, `WHERE` predicate; compared through the stored CREATE INDEX text), long table name; 35% of the tables have Boolean / Enum columns whose "
    "schema type carries a named CHECK (create_constraint=True, name=...)) x row generator (NULL, quotes, Unicode, "
    "big ints, fractional / out-of-range floats, blobs, off-type values; fixed battery of numeric / text columns retyped to INTEGER / BIGINT / SMALLINT and back) x 1-4 batch ops (add/drop/alter column incl. rename/type/nullable/default, "
    "insert_before/after, add/drop unique/check/fk/pk, create/drop index; autogenerate-style alter_column / drop_column calls passing "
    "existing_type=Boolean/Enum(create_constraint=True, name=...) for nullable / server_default / comment changes, renames and retypes; "
    "8% naming something that does not exist) x "
    "recreate always/auto x reflected/copy_from.  Non-trivial = the batch completed, recreated the table and the table had >= 1 row; "
    "distinct by (op kinds, recreate, copy_from, column types, constraint counts)"
)
ASSUMPTIONS = [
    "SQLite only (pysqlite legacy transaction control); PRAGMA foreign_keys off (SQLite default)",
    "generated columns (GENERATED ALWAYS AS ... STORED/VIRTUAL) are generated without keys / CHECKs / NOT NULL on them; their expression is read "
    "from the stored CREATE TABLE text (SQLAlchemy's reflection regex mis-reads it in some layouts); their values are compared as 'recomputed'",
    "not generated: a batch that drops every original column (SQLAlchemy raises KeyError compiling the empty INSERT..SELECT), partial_reordering, table_args/table_kwargs, copy_from tables whose Boolean/Enum *type object* generates the CHECK "
    "(type-bound constraints; copy_from tables carry the same CHECK as an explicit named CheckConstraint), functional indexes, schemas, "
    "identifiers that need quoting (C14's subject)",
]


def shape_key(case):
    t = case["table"]
    return (tuple(o["op"] + ("+" + "".join(k[0] for k in ("new_name", "type", "nullable", "default") if o.get(k) is not None)
                             if o["op"] == "alter_column" else "") for o in case["ops"]),
            case["recreate"], case["copy_from"], tuple(c["ty"] for c in t["cols"]),
            len(t["uniques"]), len(t["checks"]), len(t["fks"]), len(t["indexes"]), bool(t["pk"]))


def gen_case(rng, big=False):
    t = bg.gen_table(rng, big=big)
    ops = bg.gen_ops(rng, t)
    pr = bg.gen_partial_reordering(rng, t, ops) if rng.random() < 0.12 else None
    # 15%: the table lives in an ATTACHed database (schema="aux"), half of them with a different table of that name in main
    schema = "aux" if rng.random() < 0.15 else None
    return bc.new_case(t, ops, rng.choice(["always", "always", "auto"]), rng.random() < 0.3,
                       tddl=rng.choice([None, None, True]), pr=pr, schema=schema, main_twin=rng.random() < 0.5,
                       identity=rng.choice([None, "always", "default", "autoincrement"]))


def input_of(case):
    return {"table": case["table"], "ops": case["ops"], "recreate": case["recreate"], "copy_from": case["copy_from"],
            "tddl": case.get("tddl"), "pr": case.get("pr"), "schema": case.get("schema"), "main_twin": case.get("main_twin"),
            "identity": case.get("identity")}


def kind_of(why):
    return why[0].split(":")[0] if why else "?"


def judge(ctx, pending):
    ops = []
    for case, r in pending:
        ops.append(bc.model_op(case, r))
        ops.append(bc.spec10_op(case, r) if applicable(r) else {"op": "noop"})
    ans = ctx.drv.ask(ops)
    for k, (case, r) in enumerate(pending):
        m, s = ans[2 * k], ans[2 * k + 1]
        d = bc.compare(case, r, m)
        if d:
            ctx.disagree("batch.run", input_of(case), bc.brief(r),
                         {"stmts": m.get("stmts"), "outcome": m.get("outcome"), "final": bc.canon_db(m["final"]) if "final" in m else None},
                         note=",".join(d))
            if len(ctx.disagreements) <= 5:
                ctx.note("disagreement %s: ops=%s recreate=%s copy_from=%s impl=%s/%s model=%s/%s" % (
                    ",".join(d), json.dumps(case["ops"]), case["recreate"], case["copy_from"], r["stmts"], r["outcome"],
                    m.get("stmts"), m.get("outcome")))
        else:
            ctx.trace_ok()
        twin = bc.main_untouched(r) if case.get("schema") else []
        if applicable(r) or twin:
            if s.get("holds", True) is not True or twin:
                why = ((s.get("why") or [json.dumps(s)]) if s.get("holds", True) is not True else []) + twin
                ctx.fail(input_of(case), "%s: %s" % (kind_of(why), "; ".join(why)[:600]), impl=bc.brief(r), tags=sorted({w.split(":")[0] for w in why}))
        if k < 2:
            ctx.sample({"input": input_of(case), "stmts": r["stmts"], "outcome": r["outcome"]})
    pending.clear()


def applicable(r):
    """C10 speaks about a batch that was accepted and recreated the table"""
    return r["outcome"] == "ok" and "createTmp" in r["stmts"] and r["before"]["orig"] is not None


def one(ctx, case, pending):
    r = bc.run_impl(case)
    ctx.evaluation()
    ctx.hist("outcome", bc.canon_outcome(r["outcome"]) or "ok")
    ctx.hist("mode", "%s/%s" % (case["recreate"], "copy_from" if case["copy_from"] else "reflected"))
    ctx.hist("rows", len(case["table"]["rows"]))
    ctx.hist("cols", len(case["table"]["cols"]))
    for o in case["ops"]:
        ctx.hist("op", o["op"])
    ctx.hist("recreated", "createTmp" in r["stmts"])
    if case.get("copy_from"):
        ctx.hist("copy_from_pk_declared_with", case.get("identity") or "plain column")
    ctx.hist("schema", "%s%s" % (case.get("schema") or "main", " + same name in main" if case.get("main_twin") else ""))
    ctx.hist("partial_indexes", sum(1 for i in case["table"]["indexes"] if i.get("where")))
    if applicable(r) and r["before"]["orig"]["rows"]:
        ctx.nontrivial(shape_key(case))
    pending.append((case, r))


WITNESSES = {
    # the counterexample theorems' witnesses, replayed on the implementation on every run
    "C10-F1": {
        "table": {"name": "t", "cols": [
            {"name": "id", "ty": "INTEGER", "aff": "Integer", "nullable": False, "default": None, "dval": None, "pk": True},
            {"name": "a", "ty": "INTEGER", "aff": "Integer", "nullable": True, "default": None, "dval": None, "pk": False}],
            "pk": {"name": None, "cols": ["id"]}, "uniques": [], "checks": [], "fks": [], "indexes": [],
            "rows": [[{"i": 1}, {"i": 5}]]},
        "ops": [{"op": "alter_column", "name": "a", "new_name": "b", "type": None, "nullable": None, "default": None},
                {"op": "add_unique", "name": "uq_b", "cols": ["b"]}],
        "recreate": "always", "copy_from": False},
    "C10-F2": {
        "table": {"name": "t", "cols": [
            {"name": "id", "ty": "INTEGER", "aff": "Integer", "nullable": False, "default": None, "dval": None, "pk": True},
            {"name": "a", "ty": "INTEGER", "aff": "Integer", "nullable": True, "default": None, "dval": None, "pk": False}],
            "pk": {"name": None, "cols": ["id"]}, "uniques": [], "checks": [], "fks": [], "indexes": [],
            "rows": [[{"i": 1}, {"i": 5}]]},
        "ops": [{"op": "add_column", "col": {"name": "a", "ty": "INTEGER", "aff": "Integer", "nullable": True, "default": None,
                                             "dval": None, "pk": False}, "before": None, "after": None}],
        "recreate": "always", "copy_from": False},
}


def run_witness(ctx, w):
    case = bc.new_case(w["table"], w["ops"], w["recreate"], w["copy_from"])
    r = bc.run_impl(case)
    return case, r


def run_battery_item(ctx, name):
    """oracle-only: the real batch on a hand-built copy_from table, judged by check10 (+ sqlite_master text checks)"""
    r = bb.run_item(name)
    case = bb.case_of(name)
    why = bb.python_checks(name, r)
    if applicable(r):
        s = ctx.drv.ask1(bc.spec10_op(case, r))
        if s.get("holds") is not True:
            why = (s.get("why") or [json.dumps(s)]) + why
    return case, r, why


def battery(ctx):
    for name in bb.ITEMS:
        case, r, why = run_battery_item(ctx, name)
        ctx.evaluation()
        ctx.hist("battery", "%s: %s" % (name, bc.canon_outcome(r["outcome"]) or "ok"))
        if applicable(r):
            ctx.nontrivial(("battery", name))
        if why:
            ctx.fail({"battery": name, "ops": case["ops"], "recreate": case["recreate"], "copy_from": case["copy_from"]},
                     "%s: %s" % (kind_of(why), "; ".join(why)[:600]), impl=bc.brief(r), tags=sorted({w.split(":")[0] for w in why}))


def run(ctx, n_cases=None, rng_name="main"):
    rng = ctx.rng(rng_name)
    if rng_name == "main":
        battery(ctx)
    n = n_cases or (8000 if ctx.thorough else 500)
    pending = []
    # fixed battery: every add_column position branch, with and without partial_reordering, reflected and copy_from
    for j in range(3):
        t = bg.gen_table(rng)
        for ops in bg.ordering_battery(t):
            for pr in (None, [[t["cols"][-1]["name"], t["cols"][0]["name"]]]):
                one(ctx, bc.new_case(t, ops, "always", j == 1, pr=pr), pending)
        # recreate='auto': which single add_column forces the move-and-copy (requires_recreate_in_batch)
        for d in ("0", "'x'", None):
            col = {"name": "n1", "ty": "INTEGER" if d != "'x'" else "VARCHAR(20)", "aff": "Integer" if d != "'x'" else "String",
                   "nullable": True, "default": d, "dval": bg.default_value(d), "pk": False}
            one(ctx, bc.new_case(t, [{"op": "add_column", "col": col, "before": None, "after": None}], "auto", j == 1), pending)
    # fixed battery: retypes across type families on fractional / out-of-range / non-numeric values (CAST semantics)
    nt, seqs = bg.numeric_retype_battery()
    for ops in seqs:
        for cf in (False, True):
            one(ctx, bc.new_case(nt, ops, "always", cf), pending)
    # fixed battery: a named PRIMARY KEY dropped through the public API (reflected / copy_from, always / auto)
    for k, (pt, ops) in enumerate(bg.pk_drop_battery()):
        for cf in (False, True):
            one(ctx, bc.new_case(pt, ops, "auto" if (k + cf) % 2 else "always", cf), pending)
    for i in range(n):
        one(ctx, gen_case(rng, big=ctx.thorough and i % 4 == 0), pending)
        if len(pending) >= 250:
            judge(ctx, pending)
    judge(ctx, pending)


def search(ctx):
    run(ctx, n_cases=3000, rng_name="search")


def _values_of(r, col):
    t = r["fresh"]["orig"]
    if t is None:
        return None
    names = [c["name"] for c in t["cols"]]
    if col not in names:
        return None
    return [row[names.index(col)] for row in t["rows"]]


def check_witness(ctx, finding):
    if finding["id"] == "C10-F3":
        r = bb.run_item("copy_from_index_true")
        if r["outcome"] != "ok":
            return None
        had = [i["name"] for i in r["before"]["orig"]["indexes"]]
        has = [i["name"] for i in r["fresh"]["orig"]["indexes"]]
        return "index ix_t_x of the copy_from table is not re-created: %s -> %s" % (had, has) if "ix_t_x" in had and "ix_t_x" not in has else None
    w = WITNESSES.get(finding["id"])
    if w is None:
        return None
    case, r = run_witness(ctx, w)
    if r["outcome"] != "ok":
        return None
    if finding["id"] == "C10-F1":
        names = [u["name"] for u in r["fresh"]["orig"]["uniques"]]
        return None if "uq_b" in names else "requested unique constraint uq_b is not in the recreated table"
    if finding["id"] == "C10-F2":
        v = _values_of(r, "a")
        return None if v == [{"i": 5}] else "column a lost its values: %s" % v
    return None


def classify(failure):
    """narrow structural signatures of the known findings"""
    if failure["input"].get("battery"):
        # C10-F3: the copy_from table has Column(index=True); the only complaint is that very index missing
        reasons = [w.strip() for w in failure["what"].split(":", 1)[1].split(";")]
        if failure["input"]["battery"] == "copy_from_index_true" and len(reasons) == 1 and "index ix_t_x missing" in reasons[0]:
            return "C10-F3"
        return None
    ops = failure["input"]["ops"]
    what = failure["what"]
    table = failure["input"]["table"]
    orig = {c["name"] for c in table["cols"]}
    # C10-F1: the only complaint is a missing requested constraint, and that constraint names a column by
    # the new name an alter_column of the same batch gave it
    renamed_to = {o["new_name"]: o["name"] for o in ops if o["op"] == "alter_column" and o.get("new_name")}
    reasons = [w.strip() for w in what.split(":", 1)[1].split(";")] if ":" in what else [what]
    if reasons and all(("missing or changed" in w or "primary key" in w) for w in reasons):
        culprits = []
        for o in ops:
            if o["op"] in ("add_unique", "add_fk", "add_pk") and any(c in renamed_to and c not in orig for c in o["cols"]):
                culprits.append(o["name"])
        named = [w for w in reasons if any(c in w for c in culprits)] + [w for w in reasons if "primary key" in w and
                                                                         any(o["op"] == "add_pk" and o["name"] in culprits for o in ops)]
        if culprits and len(named) == len(reasons):
            return "C10-F1"
    # C10-F2: add_column re-using the name of an existing column: the checker's only complaint is the mustReject clause
    if len(reasons) == 1 and "adds a column under the name of an existing column" in reasons[0]:
        if any(o["op"] == "add_column" and o["col"]["name"] in orig for o in ops):
            return "C10-F2"
    return None


def replay(ctx, case):
    inp = case["input"]
    if inp.get("battery"):
        c, r, why = run_battery_item(ctx, inp["battery"])
        return {"impl": bc.brief(r), "sql_before": r["sql_before"], "sql_after": r["sql_after"], "spec": {"holds": not why, "why": why}}
    c = bc.new_case(inp["table"], inp["ops"], inp.get("recreate", "always"), inp.get("copy_from", False),
                    tddl=inp.get("tddl"), pr=inp.get("pr"), schema=inp.get("schema"), main_twin=inp.get("main_twin"),
                    identity=inp.get("identity"))
    r = bc.run_impl(c)
    m = ctx.drv.ask1(bc.model_op(c, r))
    out = {"impl": bc.brief(r), "model": {"stmts": m.get("stmts"), "outcome": m.get("outcome")}, "differences": bc.compare(c, r, m)}
    if applicable(r):
        out["spec"] = ctx.drv.ask1(bc.spec10_op(c, r))
    return out
