"""C08 - rendered migration code does exactly what the operation objects do.

Implementation side (real code, in-process):
  (a) alembic.autogenerate.render.render_op_text(...) for every top-level op of a generated
      op tree, compared character by character with the Lean model's `renderText`
      (lean/Model/Render/Ops.lean), and the Lean checker `Spec.Render.textDenotes` evaluated on
      the implementation's own text (it parses, and every embedded name decodes to the
      requested name);
  (b) ALWAYS: compile() + exec of the rendered text against an as_sql Operations object for
      each of sqlite/postgresql/mysql/mssql/oracle, compared with operations.invoke(op) of
      the original op object on whitespace-normalised SQL.  This is the property itself
      observed on the real code (type repr and DDL compilation are SQLAlchemy's and outside
      the Lean model);
  (c) Model.Py (pyRepr/pyParseStr) against the interpreter's repr()/ast.literal_eval.
"""
from __future__ import annotations

import json
import re

from alembic.autogenerate import render as am_render

from .. import render_exec as rx
from .. import render_gen as rg
from .. import render_model as rm
from .. import render_py

PROPERTY = "C08"
DRIVER = "drv_render"
THEOREMS = [
    "Py.repr_roundtrip",
    "Py.repr_injective",
    "Py.naive_plain",
    "C08.parse_pp",
    "C08.render_wf",
    "C08.syntax_full",
    "C08.syntax_denotes",
    "C08.roundtrip",
    "C08.roundtrip_create_table",
    "C08.evalCallT_extends",
    "C08.roundtrip_container",
    "C08.render_container",
    "C08.syntax_container",
    "C08.option_text_verbatim",
]
PARTIAL = {
    "C08.roundtrip_create_table": "evalCallT (renderOp c o) = some (normalizeT o) is proved for every directive including create_table "
    "(columns, inline PK/FK/unique/check constraints, schema / comment / if_not_exists / dialect kwargs).  Hypotheses evalOkT: extra keyword "
    "arguments (dialect kwargs) of a column / an inline unique or foreign key constraint / the table / an index do not shadow the parameter "
    "names the constructor binds itself, an index expression is not a bare string literal, a rendered server default is not the literal None.  "
    "normalizeT: the inline constraints of create_table come back in the order of their rendered text (sorted() in _add_table: same set, other "
    "clause order), falsy schema / comment / type_ / constraint name are None, a PK without columns is not rendered; existing_server_default next "
    "to a new server_default is erased, which MSSQL's invoke reads (finding C08-N5).  Outside the model: table prefixes= / info=, method-chain "
    "fragments, postgresql exclude constraints.  Containers: C08.roundtrip_container / C08.syntax_container cover ModifyTableOps rendered as "
    "plain statements and as a with op.batch_alter_table(...) block (header + members, in order).  That evalCallT commutes with canon on opaque fragments is not proved: the driver runs "
    "parse . evalCallT on the implementation's own text (Spec.Render.evalTop) on every run",
}
TRUSTED = [
    "type repr, server-default / index expressions (render_ddl_sql_expr), dialect kwarg values and fk colspecs are SQLAlchemy's: "
    "the harness obtains them by calling the real helper and hands them to the model as opaque, already parsed expressions",
    "DDL compilation (what invoke(op) and the executed code emit) is outside the Lean model: covered on every run by oracle (b), not by a theorem",
    "harness/render_model.py (extraction of the fields a renderer reads from the op object) and harness/render_exec.py "
    "(SQL normalisation: whitespace, order of constraint clauses inside CREATE TABLE)",
    "Python's str.isprintable for non-ASCII code points is a parameter of pyRepr (theorems hold for every oracle); lone surrogates are outside the model",
    "the one white-space irregularity of _alter_column (', ' between the first two positional arguments) is canonicalised by the harness before the text comparison",
]
RULE = (
    "op trees built from generated SQLAlchemy schema objects the way autogenerate builds them (create/drop table, add/drop/alter column, "
    "create/drop index incl. expressions (text, func, desc, literal_column, sa.column, cast, collate, operator expressions a+b / a||b / (a+b)*2 / -a / a->>k / and_(..), labelled or not, postgresql_ops keyed by column key or label, mixed with plain columns), unique/fk constraints, table comments; ModifyTableOps containers); names from identifier classes "
    "(plain, mixed case, reserved, space, quotes, backslash, percent, newline/tab, non-ASCII incl. non-printable, dotted); types with arguments; "
    "server defaults str/text/func/identity/computed; naming_convention on/off; batch on/off; schema on/off; x 5 dialects. "
    "A case is non-trivial when it renders at least one operation; distinct by (op kinds, rendered text)"
)
ASSUMPTIONS = [
    "operations are built with ops.*Op.from_* / the attributes compare.py assigns, not through arbitrary constructor arguments",
    "render_item hook unset, sqlalchemy_module_prefix='sa.', alembic_module_prefix='op.'",
    "sqlite + render_as_batch in offline mode needs a live connection: invoke itself refuses, such cases are counted as invoke-error (not judged)",
]

KINDS_FAIL = ("syntax", "exec-error", "sql-mismatch", "exec-differs-from-invoke-error", "render-error")

# ---------------------------------------------------------------------------------------------
# known-finding rules: structural precondition on (spec, op, dialect) + the specific textual
# difference the defect explains.  A failure is classified only when the two SQL texts become
# equal after undoing exactly the differences of the applicable rules.
# ---------------------------------------------------------------------------------------------


def _plain_name(s):
    return s is not None and not any(c in s for c in "'\\\n\r\x00")


def _tables_of(spec, ospecs):
    return [spec["tables"][o["table"]] for o in ospecs if "table" in o]


def _all_cols(spec, ospecs):
    out = []
    for o in ospecs:
        t = spec["tables"][o["table"]]
        k = o["kind"]
        if k in ("create_table", "drop_table"):
            out.extend(t["columns"])
        elif "column" in o and isinstance(o["column"], int):
            out.append(t["columns"][o["column"]])
    return out


def _jd(x):
    return json.dumps(x, sort_keys=True, default=str)


def rule_mysql_func_index(spec, ospecs, res):
    if res["dialect"] != "mysql":
        return None
    for o in ospecs:
        if o["kind"] == "create_index":
            ix = spec["tables"][o["table"]]["indexes"][o["index"]]
            if any("col" not in e for e in ix["elems"]):
                return lambda s: s.replace("(", "").replace(")", "")
    return None


def rule_percent(spec, ospecs, res):
    # render_ddl_sql_expr compiles with the dialect's paramstyle: '%' is doubled (pyformat/format) and
    # '%(x)s' inside a name becomes a bind marker ('?' / ':x' / '%(x)s') in the rendered Python
    if "%" in _jd([_tables_of(spec, ospecs), ospecs]):
        return lambda s: re.sub(r"%+(\(\w+\))?s?|\?", "\u00a7", s)
    return None


def rule_colon(spec, ospecs, res):
    if "\\\\:" in _jd([_tables_of(spec, ospecs), ospecs]):
        return lambda s: re.sub(r"\\?:\w+|\bNULL\b", "\u00a7", s)
    return None


def rule_quote_strip(spec, ospecs, res):
    blob = [_all_cols(spec, ospecs), ospecs]

    def edge(sd):
        return isinstance(sd, dict) and sd.get("kind") == "str" and (sd["value"].startswith("'") or sd["value"].endswith("'"))

    found = []

    def walk(x):
        if isinstance(x, dict):
            if edge(x):
                found.append(x)
            for v in x.values():
                walk(v)
        elif isinstance(x, list):
            for v in x:
                walk(v)

    walk(blob)
    if found:
        return lambda s: re.sub(r"'+", "'", s)
    return None


def rule_mssql_default_drop(spec, ospecs, res):
    if res["dialect"] != "mssql":
        return None
    for o in ospecs:
        if o["kind"] == "alter_column" and o.get("modify_server_default", False) is not False:
            return lambda s: re.sub(r"declare @const_name.*?exec\('alter table .*? drop constraint ' \+ @const_name\)( ;; )?", "", s, flags=re.S)
    return None


def rule_pk_add_column(spec, ospecs, res):
    for o in ospecs:
        if o["kind"] == "add_column" and spec["tables"][o["table"]]["columns"][o["column"]].get("primary_key"):
            # the column type becomes SERIAL / gets AUTO_INCREMENT / IDENTITY only on the invoke side
            def n(s):
                s = re.sub(r"(ADD (?:COLUMN )?(?:\"(?:[^\"]|\"\")*\"|`[^`]*`|\[[^\]]*\]|\S+) )(\w+(?: PRECISION| VARYING)?(?:\([^)]*\))?)", "\\1\u00a7T", s)
                return s.replace(" AUTO_INCREMENT", "").replace(" IDENTITY", "").replace(" PRIMARY KEY", "")
            return n
    return None


def rule_pg_drop_enum(spec, ospecs, res):
    if res["dialect"] != "postgresql":
        return None
    for o in ospecs:
        if o["kind"] == "drop_table":
            return lambda s: re.sub(r"( ;; )?DROP TYPE .*?(?= ;; |$)", "", s, flags=re.S)
    return None


def rule_quote_flag(spec, ospecs, res):
    ts = list(_tables_of(spec, ospecs))
    for t in list(ts):
        for fk in t.get("fks", []):
            rt = fk.get("reftable")
            if isinstance(rt, int):
                ts.append(spec["tables"][rt])
            else:
                ts.extend(x for x in spec["tables"] if x["name"] == rt)
    for t in ts:
        if t.get("quote_name") or (t.get("schema") and "." in t["schema"]):
            return lambda s: re.sub(r"[\"`\[\]]", "", s)
    return None


def _clause_set(stmt, bq):
    """CREATE TABLE (...) with its constraint clauses as a sorted set (duplicates removed)"""
    if not re.match(r"CREATE\s+(\w+\s+)*TABLE\b", stmt, re.I):
        return stmt
    closers = {"'": "'", '"': '"', "`": "`"}
    if bq:
        closers["["] = "]"
    i, n, start = 0, len(stmt), -1
    while i < n:
        ch = stmt[i]
        if ch in closers:
            k = stmt.find(closers[ch], i + 1)
            i = (n if k < 0 else k) + 1
            continue
        if ch == "(":
            start = i
            break
        i += 1
    if start < 0:
        return stmt
    depth, j, end = 0, start, -1
    while j < n:
        ch = stmt[j]
        if ch in closers:
            k = stmt.find(closers[ch], j + 1)
            j = (n if k < 0 else k) + 1
            continue
        if ch == "(":
            depth += 1
        elif ch == ")":
            depth -= 1
            if depth == 0:
                end = j
                break
        j += 1
    if end < 0:
        return stmt
    parts = rx._split_top(stmt[start + 1 : end], bq)
    cols = [p for p in parts if not rx._CONSTRAINT_KW.match(p)]
    # a duplicated type-bound CHECK may carry another (convention generated) name: compare CHECK clauses by body
    cons = sorted(set((p[p.index("CHECK ("):] if "CHECK (" in p else p) for p in parts if rx._CONSTRAINT_KW.match(p)))
    return stmt[: start + 1] + ", ".join(cols + cons) + stmt[end:]


def rule_dup_check(spec, ospecs, res):
    # CreateTableOp.from_table -> to_table copies the type-bound CHECK of Boolean/Enum(create_constraint=True)
    # next to the one the copied type creates again: invoke emits the constraint twice
    bq = res["dialect"] == "mssql"
    for o in ospecs:
        if o["kind"] == "create_table":
            for c in spec["tables"][o["table"]]["columns"]:
                if "create_constraint" in _jd(c["type"]) or (isinstance(c["type"], dict) and c["type"].get("t") == "Enum"):
                    return lambda s: " ;; ".join(_clause_set(st, bq) for st in s.split(" ;; "))
    return None


def rule_sqlite_parens(spec, ospecs, res):
    # not a finding: SQLiteImpl.render_ddl_sql_expr deliberately parenthesises default / index expressions
    if res["dialect"] == "sqlite":
        return lambda s: s.replace("(", "").replace(")", "")
    return None


def _flag_cols(spec, ospecs):
    """columns carrying Column(index=True) / Column(unique=True) that an add_column / create_table op of this group adds"""
    out = []
    for o in ospecs:
        t = spec["tables"][o["table"]] if "table" in o else None
        if o["kind"] == "add_column":
            c = t["columns"][o["column"]]
            if c.get("index") or c.get("unique"):
                out.append(c)
        elif o["kind"] == "create_table":
            out.extend(c for c in t["columns"] if c.get("index") or c.get("unique"))
    return out


def rule_column_flag(spec, ospecs, res):
    # _render_column never renders index=True / unique=True; invoking AddColumnOp / CreateTableOp creates the index / constraint
    cols = _flag_cols(spec, ospecs)
    if not cols:
        return None
    # alembic writes a tab as four blanks and (pyformat dialects) doubles '%' in offline SQL
    names = [v for c in cols for v in {c["name"], c["name"].replace("\t", "    "), c["name"].replace("%", "%%"), c["name"].replace("\t", "    ").replace("%", "%%")}]
    bare = lambda x: re.sub(r"[\"`\[\]]", "", x)

    def n(s):
        keep = []
        dropped = False
        for st in s.split(" ;; "):
            if dropped and st == "/":  # Oracle statement terminator of the statement just removed
                dropped = False
                continue
            dropped = False
            if re.match(r"CREATE (UNIQUE )?INDEX |ALTER TABLE .* ADD (CONSTRAINT .* )?UNIQUE ", st, re.S) and any(bare(nm) in bare(st) for nm in names):
                dropped = True
                continue
            keep.append(st)
        s = " ;; ".join(keep)
        # inline form inside CREATE TABLE: `, UNIQUE (col)` / `, CONSTRAINT uq_... UNIQUE (col)`
        for nm in names:
            s = re.sub(r",\s*(CONSTRAINT \S+ )?UNIQUE \((\"|`|\[)?%s(\"|`|\])?\)" % re.escape(nm), "", s)
        return s

    return n


def _fk_key_targets(spec, ospecs):
    """(key, name) of referred columns with Column(key=...) in foreign keys of tables created by this group"""
    out = []
    for o in ospecs:
        if o["kind"] != "create_table":
            continue
        for fk in spec["tables"][o["table"]].get("fks", []):
            if fk.get("ghost") or fk.get("link_to_name"):
                continue
            rt = fk["reftable"]
            rtab = spec["tables"][rt] if isinstance(rt, int) else [x for x in spec["tables"] if x["name"] == rt][0]
            for c in rtab["columns"]:
                if c.get("key") and c["name"] in fk["refcols"]:
                    out.append((c["key"], c["name"]))
    return out


_IDENT = r'(?:"(?:[^"]|"")*"|`(?:[^`]|``)*`|\[[^\]]*\]|[^\s()."`\[]+)'
_REF = _IDENT + r"(?:\." + _IDENT + r")*"


def rule_fk_target_key(spec, ospecs, res):
    # invoke side: CreateTableOp.to_table copies a foreign key through its colspec string, which holds the referred
    # column's *key*; the emitted REFERENCES clause names the key instead of the column (the rendered code is right)
    kn = _fk_key_targets(spec, ospecs)
    if not kn:
        return None

    def n(s):
        for key, name in kn:
            s = re.sub(r"(\"|`|\[)?%s(\"|`|\])?" % re.escape(key), "\u00a7col", s)
            for nm in sorted({x for v in (name, name.replace("%", "%%"), name.replace("\t", "    ")) for x in (v, v.replace('"', '""'), v.replace("`", "``"), v.replace("]", "]]"))}, key=len, reverse=True):
                s = re.sub(r"REFERENCES (%s) \(((?:%s, )*)(\"|`|\[)?%s(\"|`|\])?" % (_REF, _IDENT, re.escape(nm)), "REFERENCES \\1 (\\2\u00a7col", s, flags=re.S)
        return s

    return n


def rule_fk_metadata_schema(spec, ospecs, res):
    # invoke side: MetaData(schema=ms) makes a schema-less string target "tbl.col" mean ms.tbl (render._fk_colspec
    # renders 'ms.tbl.col'); CreateTableOp.to_table copies the bare string into a schema-less MetaData: REFERENCES tbl
    ms = spec["opts"].get("metadata_schema")
    if not ms:
        return None
    for o in ospecs:
        if o["kind"] == "create_table":
            for fk in spec["tables"][o["table"]].get("fks", []):
                if fk.get("ghost") and fk["ghost"].count(".") == 1:
                    tbl = fk["ghost"].split(".")[0]
                    if res["dialect"] == "sqlite":
                        # SQLite omits a foreign key whose target is in another schema: the clause is present on one side only
                        return lambda s: re.sub(r",\s*(CONSTRAINT (?:\"[^\"]*\"|\S+) )?FOREIGN KEY\([^)]*\) REFERENCES (\S+\.)?%s \([^)]*\)[^,()]*" % re.escape(tbl), "", s)
                    return lambda s: re.sub(r"REFERENCES (\"%s\"|`%s`|\[%s\]|%s)\.%s " % ((re.escape(ms),) * 4 + (re.escape(tbl),)), "REFERENCES %s " % tbl, s)
    return None


def rule_pg_ops_column_key(spec, ospecs, res):
    # dialect kwargs are rendered verbatim: postgresql_ops keyed by Column.key (SQLAlchemy matches it against the member's
    # .key) stays keyed by the key while the index columns are rendered by *name*: in the executed code nothing matches
    # and the operator class is lost
    if res["dialect"] != "postgresql":
        return None
    pairs = []
    for o in ospecs:
        if o["kind"] != "create_index":
            continue
        t = spec["tables"][o["table"]]
        ix = t["indexes"][o["index"]]
        pops = (ix.get("kw") or {}).get("postgresql_ops") or {}
        keyed = {c["name"] for c in t["columns"] if c.get("key")}
        for e in ix["elems"]:
            if e.get("col") in keyed and e["col"] in pops:
                pairs.append((e["col"], pops[e["col"]]))
    if not pairs:
        return None

    def n(s):
        for name, opclass in pairs:
            for nm in sorted({x for v in (name, name.replace("%", "%%"), name.replace("\t", "    ")) for x in (v, v.replace('"', '""'))}, key=len, reverse=True):
                s = re.sub(r"((?:\"%s\"|(?<![\w\"])%s)) %s\b" % (re.escape(nm), re.escape(nm), re.escape(opclass)), "\\1", s)
        return s

    return n


def rule_pg_ops_lightweight_column(spec, ospecs, res):
    # an index member given as sqlalchemy.column('a b') (a ColumnClause that is not a table column) is rendered as
    # sa.literal_column('"a b"'), the compiled (quoted) text: its key is no longer 'a b', so postgresql_ops={'a b': ...}
    # matches nothing in the executed code and the operator class is lost (only when the name needs quoting)
    if res["dialect"] != "postgresql":
        return None
    pairs = []
    for o in ospecs:
        if o["kind"] != "create_index":
            continue
        ix = spec["tables"][o["table"]]["indexes"][o["index"]]
        pops = (ix.get("kw") or {}).get("postgresql_ops") or {}
        for e in ix["elems"]:
            if "lwcol" in e and e["lwcol"] in pops:
                pairs.append((e["lwcol"], pops[e["lwcol"]]))
    if not pairs:
        return None

    def n(s):
        for name, opclass in pairs:
            for nm in sorted({v.replace('"', '""') for v in (name, name.replace("%", "%%"), name.replace("\t", "    "))}, key=len, reverse=True):
                s = re.sub(r"(\"%s\") %s\b" % (re.escape(nm), re.escape(opclass)), "\\1", s)
        return s

    return n


# exec raises / invoke raises: (finding id, predicate)
def err_exclude_expression(spec, ospecs, res):
    # CreateExcludeConstraintOp.to_constraint appends Column(name, NULLTYPE) for every element: name is None for an expression
    err = res.get("error") or ""
    # (exec stops at the first failing statement: when a later op of the same group makes invoke fail too, the kind is
    # exec-differs-from-invoke-error and the message carries both exceptions)
    exec_fails_here = (res["kind"] == "exec-error" and "non-blank name" in err) or (
        res["kind"] == "exec-differs-from-invoke-error" and "exec: ArgumentError('Column must be constructed with a non-blank name" in err)
    return (exec_fails_here and res["dialect"] == "postgresql"
            and any(o["kind"] == "create_exclude" and any(isinstance(e[0], dict) for ex in spec["tables"][o["table"]].get("excludes", []) for e in ex["elems"])
                    for o in ospecs))


def err_column_flag_sqlite(spec, ospecs, res):
    # N12 on SQLite: invoke raises for the index / unique constraint of a flagged column that the rendered add_column does not carry
    err = res.get("error") or ""
    if not (res["kind"] == "exec-differs-from-invoke-error" and res["dialect"] == "sqlite"):
        return False
    flagged = [spec["tables"][o["table"]]["columns"][o["column"]] for o in ospecs if o["kind"] == "add_column"
               and (spec["tables"][o["table"]]["columns"][o["column"]].get("unique") or spec["tables"][o["table"]]["columns"][o["column"]].get("index"))]
    if not flagged:
        return False
    inv_constraint = "invoke: NotImplementedError('No support for ALTER of constraints in SQLite" in err or \
        "invoke: NotImplementedError(\"No support for ALTER of constraints in SQLite" in err
    inv_batch = "batch mode with dialect sqlite requires a live database connection" in err and spec["opts"].get("render_as_batch")
    if "exec: None" in err:
        return bool(inv_constraint or inv_batch)
    # both raise, at different members of the group: invoke at the constraint of the flagged column, the executed code
    # got past that add_column (its ADD COLUMN is in the exec output) and stopped at a later member
    bare = lambda x: re.sub(r"[\"`\[\]]", "", x)
    out = bare(res.get("sql_exec") or "")
    return bool(inv_constraint and any(("ADD COLUMN " + bare(v)) in out for c in flagged
                                       for v in (c["name"], c["name"].replace("\t", "    "), c["name"].replace("\r", "").replace("\n", "\n"))))

def err_keyed_column_copy(spec, ospecs, res):
    # invoke side: alembic's schemaobj rebuilds a Table for the op (DropTableOp.to_table with a self-referential string
    # foreign key, CreateIndexOp.to_index with postgresql_include, ...) and adds a column *named* like an existing column
    # whose .key differs from its name: DuplicateColumnError on invoke; the rendered code executes
    err = res.get("error") or ""
    if not (res["kind"] == "exec-differs-from-invoke-error" and "DuplicateColumnError" in err and "exec: None" in err):
        return False
    # the message reaches us as repr(exception): quote style and backslash escapes vary
    m = re.search(r"A column with name \\?'(.*?)\\?' is already present in table", err, re.S)
    if not m:
        return False
    bare = lambda x: re.sub(r"[\\\\'\"]", "", x)
    dup = bare(m.group(1))
    for o in ospecs:
        if "table" in o and any(c.get("key") and bare(repr(c["name"])[1:-1]) == dup for c in spec["tables"][o["table"]]["columns"]):
            return True
    return False


ERR_RULES = [
    ("C08-N13-exclude-constraint-expression-not-executable", err_exclude_expression),
    ("C08-N12-column-index-unique-flag-not-rendered", err_column_flag_sqlite),
    ("C08-N15-column-key-breaks-invoke-side-table-copy", err_keyed_column_copy),
]

# finding id -> rule; order = order of application
RULES = [
    # structure-aware normalisers first, character-level ones last
    ("C08-N11-type-bound-check-duplicated-by-invoke", rule_dup_check),
    ("C08-N5-mssql-default-constraint-not-dropped", rule_mssql_default_drop),
    ("C08-N7-pg-drop-table-enum-type", rule_pg_drop_enum),
    ("C08-N12-column-index-unique-flag-not-rendered", rule_column_flag),
    ("C08-N16-fk-target-key-emitted-by-invoke", rule_fk_target_key),
    ("C08-N18-postgresql-ops-keyed-by-column-key-lost", rule_pg_ops_column_key),
    ("C08-N19-postgresql-ops-on-lightweight-column-lost", rule_pg_ops_lightweight_column),
    ("C08-N17-fk-target-loses-metadata-schema-on-invoke", rule_fk_metadata_schema),
    ("C08-N6-add-column-primary-key-not-rendered", rule_pk_add_column),
    ("C08-N8-quote-flag-dropped", rule_quote_flag),
    ("C08-N1-percent-doubled", rule_percent),
    ("C08-N2-escaped-colon-becomes-bind", rule_colon),
    ("C08-N3-string-default-quote-strip", rule_quote_strip),
    ("C08-F13-mysql-functional-index-parens", rule_mysql_func_index),
]
BENIGN = [rule_sqlite_parens]


def sqlite_paren_equiv(a, b):
    """SQLiteImpl.render_ddl_sql_expr deliberately parenthesises default / index expressions:
    `DEFAULT (-1)` vs `DEFAULT -1` is the same DDL for the purposes of the property"""
    strip = lambda s: s.replace("(", "").replace(")", "")
    return strip(a) == strip(b)


def explain(spec, ospecs, res):
    """-> finding id or None"""
    kind = res["kind"]
    app = [(fid, fn(spec, ospecs, res)) for fid, fn in RULES]
    app = [(fid, n) for fid, n in app if n is not None]
    if kind != "sql-mismatch":
        # a SyntaxError / Spec.Render failure is never explained; exec / invoke errors only by the narrow ERR_RULES
        for fid, pred in ERR_RULES:
            if pred(spec, ospecs, res):
                return fid
        return None
    bq = res["dialect"] == "mssql"
    a = rx.normalise_sql(res["sql_exec"], True, bq)
    b = rx.normalise_sql(res["sql_invoke"], True, bq)
    benign = [n for n in (fn(spec, ospecs, res) for fn in BENIGN) if n is not None]

    def same(x, y):
        if x == y:
            return True
        for n in benign:
            x, y = n(x), n(y)
        return x == y

    # a single rule first (names the cause), then the combination of all applicable ones
    for fid, n in app:
        if same(n(a), n(b)):
            return fid
    x, y = a, b
    first = None
    for fid, n in app:
        x2, y2 = n(x), n(y)
        if (x2, y2) != (x, y) and first is None:
            first = fid
        x, y = x2, y2
        if same(x, y):
            return first or fid
    return None


def classify(failure):
    inp = failure.get("input") or {}
    impl = failure.get("impl") or {}
    spec = inp.get("spec")
    if not spec or "ospecs" not in inp:
        return None
    res = {"kind": impl.get("kind"), "dialect": inp.get("dialect"), "sql_exec": impl.get("sql_exec") or "", "sql_invoke": impl.get("sql_invoke") or "",
           "error": impl.get("error") or ""}
    try:
        return explain(spec, inp["ospecs"], res)
    except Exception:
        return None


# ---------------------------------------------------------------------------------------------


def model_compare(ctx, case, pending):
    spec = case.spec
    as_batch = case.render_opts["render_as_batch"]
    rd = spec["opts"].get("render_dialect", "default")
    for i, top in enumerate(case.ops):
        actx = rm.make_actx(rd, as_batch)
        try:
            impl = am_render.render_op_text(actx, top)
        except Exception as e:  # judged by the oracle (render-error)
            ctx.hist("model", "impl-render-error:" + type(e).__name__)
            continue
        try:
            j = rm.top_json(top, rm.make_actx(rd, as_batch))
        except rm.Unrepresentable as e:
            ctx.hist("model", "opaque-fragment-outside-subset")
            ctx.hist("unrepresentable", str(e)[:40])
            continue
        np = sorted(rm.all_strings(j) | {ord(c) for c in impl if ord(c) > 126 and not c.isprintable()})
        pending.append((spec, i, case.op_kinds[i], case.op_specs[i], impl, j, as_batch, np))


def impl_text_canon(impl, j, as_batch):
    """undo the single layout irregularity of _alter_column (see TRUSTED)"""
    if as_batch:
        return impl
    ops_ = j["ops"] if j["top"] == "modify" else [j["o"]]
    for o in ops_:
        if o["kind"] == "alter_column":
            t = repr("".join(map(chr, o["table"])))
            impl = impl.replace("op.alter_column(%s, " % t, "op.alter_column(%s,\n           " % t)
    return impl


def flush_model(ctx, pending):
    if not pending:
        return
    ops_ = []
    for spec, i, kind, ospecs, impl, j, as_batch, np in pending:
        ops_.append({"op": "render.text", "case": j, "asBatch": as_batch, "nonprintable": np})
        ops_.append({"op": "render.spec", "case": j, "asBatch": as_batch, "nonprintable": np, "impl": rm.cps(impl)})
        ops_.append({"op": "render.eval", "case": j, "asBatch": as_batch, "nonprintable": np, "impl": rm.cps(impl)})
    ans = ctx.drv.ask(ops_)
    for k, (spec, i, kind, ospecs, impl, j, as_batch, np) in enumerate(pending):
        m, s, ev = ans[3 * k], ans[3 * k + 1], ans[3 * k + 2]
        ctx.evaluation()
        inp = {"spec": spec, "index": i, "ospecs": ospecs, "dialect": spec["opts"].get("render_dialect")}
        if "err" in m:
            ctx.disagree("render.text", inp, impl, m)
            continue
        mt = "".join(map(chr, m["text"]))
        if mt != impl_text_canon(impl, j, as_batch):
            ctx.disagree("render.text", inp, impl, mt)
        else:
            ctx.trace_ok()
            ctx.hist("model", "text-equal")
            if impl:
                ctx.nontrivial((kind, impl))
        if s.get("holds") is not True:
            ctx.fail(inp, "syntax: rendered text is not a valid call denoting the requested names (Spec.Render.textDenotes false on the implementation's text)",
                     impl={"kind": "model-spec", "text": impl, "op_kind": kind}, tags=["model-spec"])
        if s.get("holds") is True:
            # evaluation half: parse the implementation's text, bind the arguments (Model.Render.evalCall), compare with normalize(op)
            ctx.hist("model", "evalCall-checked-ops", ev.get("checked", 0))
            if ev.get("holds") is not True:
                ctx.fail(inp, "roundtrip: evaluating the rendered call does not give back the operation (Spec.Render.evalTop false on the implementation's text)",
                         impl={"kind": "model-eval", "text": impl, "op_kind": kind}, tags=["model-eval"])
        if not m.get("wf"):
            ctx.note("model AST not well-formed for %s (kwarg key / name outside the word class)" % kind)
    pending.clear()


def oracle_case(ctx, case):
    spec = case.spec
    results = rx.oracle(case)
    for res in results:
        ctx.evaluation()
        ctx.hist("oracle", res["kind"])
        ctx.hist("dialect", res["dialect"])
        for k in res["op_kind"].replace("modify:", "").split("+"):
            ctx.hist("op_kind", k)
        if res["kind"] in KINDS_FAIL:
            ospecs = case.op_specs[res["index"]]
            if res["kind"] == "sql-mismatch" and res["dialect"] == "sqlite":
                bq = False
                if sqlite_paren_equiv(rx.normalise_sql(res["sql_exec"], True, bq), rx.normalise_sql(res["sql_invoke"], True, bq)):
                    ctx.hist("oracle", "sqlite-parenthesised-expression (equivalent)")
                    continue
            inp = {"spec": spec, "index": res["index"], "ospecs": ospecs, "dialect": res["dialect"]}
            ctx.fail(inp, "%s: executing the rendered code differs from invoking the op on %s (%s)" % (res["kind"], res["dialect"], res["op_kind"]),
                     impl={k: res[k] for k in ("kind", "op_kind", "text", "sql_exec", "sql_invoke", "error")}, tags=[res["kind"], res["dialect"]])
        elif res["kind"] == "ok":
            ctx.trace_ok()
    return results


def body_check(ctx, case, results, k):
    """the path a migration file really takes: render_python_code / _render_cmd_body (PythonPrinter
    indentation, `pass` for an empty body) and _render_python_into_templatevars / _indent (the text
    pasted under `def upgrade():`), executed on one dialect and compared with the per-op executions"""
    from alembic.operations import ops as am_ops

    spec = case.spec
    allowed = spec.get("dialects") or list(rx.DIALECTS)
    d = allowed[k % len(allowed)]
    per = [r for r in results if r["dialect"] == d]
    if len(per) != len(case.ops) or any(r["kind"] not in ("ok", "sql-mismatch") for r in per):
        ctx.hist("body", "skipped (an op is not executable on %s)" % d)
        return
    sopts = spec.get("opts", {})
    as_batch = case.render_opts["render_as_batch"]
    tm = case.metadata if sopts.get("target_metadata") else None
    bq = d == "mssql"
    # reference: the per-op texts executed one after the other in ONE context (a context remembers e.g. which
    # PostgreSQL ENUM types it already created, so separate contexts are not comparable with one body)
    ump = sopts.get("user_module_prefix")
    ref_sql, ref_ek, ref_err = rx.sql_of_exec("".join(r["code"] for r in per), d, tm, user_module_prefix=ump)
    if ref_ek is not None:
        ctx.hist("body", "skipped (ops not executable in sequence on %s)" % d)
        return
    want = rx.normalise_sql(ref_sql, False, bq)
    inp = {"spec": spec, "index": 0, "ospecs": [o for l in case.op_specs for o in l], "dialect": d}
    try:
        from alembic.autogenerate import render_python_code

        actx = rx.autogen_context(d, as_batch, sopts.get("render_item"), sopts.get("user_module_prefix"))
        # the public entry point (api.render_python_code -> _render_cmd_body)
        body = render_python_code(am_ops.UpgradeOps(ops=list(case.ops)), render_as_batch=as_batch,
                                  render_item=actx.opts.get("render_item"), migration_context=actx.migration_context,
                                  user_module_prefix=sopts.get("user_module_prefix"))
        targs = {}
        script = am_ops.MigrationScript(None, am_ops.UpgradeOps(ops=list(case.ops)), am_ops.DowngradeOps(ops=[]))
        am_render._render_python_into_templatevars(rx.autogen_context(d, as_batch, sopts.get("render_item"), sopts.get("user_module_prefix")), script, targs)
    except Exception as e:
        ctx.fail(inp, "body-render-error: _render_cmd_body/_render_python_into_templatevars raised %r although every op renders" % (e,),
                 impl={"kind": "body-render-error", "error": repr(e)}, tags=["body"])
        return
    # both results are already _indent()ed for pasting under `def upgrade():`
    texts = [("render_python_code", "def upgrade():\n    %s\n" % body, "upgrade"),
             ("templatevars", "def upgrade():\n    %s\n\n\ndef downgrade():\n    %s\n" % (targs["upgrades"], targs["downgrades"]), "upgrade")]
    for label, text, call in texts:
        ctx.evaluation()
        sql, ek, err = rx.sql_of_exec(text, d, tm, call=call, user_module_prefix=ump)
        got = rx.normalise_sql(sql, False, bq)
        if ek is not None or got != want:
            ctx.fail(inp, "body-mismatch: the %s text of the whole upgrade body does not execute like its operations one by one on %s" % (label, d),
                     impl={"kind": "body-mismatch", "text": text, "sql_exec": sql, "sql_invoke": want, "error": repr(err), "op_kind": label}, tags=["body", d])
        else:
            ctx.trace_ok()
            ctx.hist("body", label + " ok")


def one_case(ctx, spec, k, pending):
    case = rg.build(spec)
    model_compare(ctx, case, pending)
    results = oracle_case(ctx, case)
    body_check(ctx, case, results, k)
    return case


def run(ctx, n_cases=None, rng_name="main"):
    n = n_cases or (12000 if ctx.thorough else 1200)
    render_py.run_py(ctx, 20000 if ctx.thorough else 3000)
    rng = ctx.rng(rng_name)
    pending = []
    if rng_name == "main":
        import copy

        for name, bspec in rg.battery():
            for b in (False, True):
                s = copy.deepcopy(bspec)
                s["opts"]["render_as_batch"] = b
                ctx.hist("battery", name)
                one_case(ctx, s, 1 if b else 0, pending)
        flush_model(ctx, pending)
    for k in range(n):
        spec = rg.gen_spec(rng, ctx.thorough)
        case = rg.build(spec)
        ctx.hist("opts", "batch=%s nc=%s" % (spec["opts"]["render_as_batch"], spec["opts"]["naming_convention"]))
        ctx.hist("render_dialect", spec["opts"].get("render_dialect"))
        for role, cls, _v in spec.get("name_classes", []):
            ctx.hist("name_class", cls)
        for t in spec["tables"]:
            for ix in t.get("indexes", []):
                for e in ix["elems"]:
                    ctx.hist("index_elem", "+".join(sorted(k for k in e)))
        model_compare(ctx, case, pending)
        results = oracle_case(ctx, case)
        body_check(ctx, case, results, k)
        for key in ("render_item", "user_module_prefix", "target_metadata", "metadata_schema"):
            if spec["opts"].get(key):
                ctx.hist("opts_extra", "%s=%s" % (key, spec["opts"][key]))
        if k < 3:
            texts = [am_render.render_op_text(rm.make_actx("default", case.render_opts["render_as_batch"]), o) for o in case.ops[:2]]
            ctx.sample({"op_kinds": case.op_kinds, "rendered": texts})
        if len(pending) > 400:
            flush_model(ctx, pending)
    flush_model(ctx, pending)
    _shrink_new(ctx)


def _shrink_new(ctx, limit=3):
    """unclassified failures: shrink the spec (same failure kind, still unclassified)"""
    done = 0
    for fl in ctx.failures:
        if done >= limit:
            break
        if classify(fl) is not None or fl["impl"].get("kind") in ("model-spec", "model-eval"):
            continue
        inp = fl["input"]
        kind, d = fl["impl"]["kind"], inp["dialect"]

        def pred(cand):
            c = rg.build(cand)
            for res in rx.oracle(c, dialects=(d,)):
                if res["kind"] == kind:
                    f2 = {"input": {"spec": cand, "index": res["index"], "ospecs": c.op_specs[res["index"]], "dialect": d},
                          "impl": {k: res[k] for k in ("kind", "sql_exec", "sql_invoke", "error")}}
                    if classify(f2) is None:
                        return True
            return False

        try:
            small = rx.shrink(inp["spec"], pred, max_rounds=60)
            c = rg.build(small)
            for res in rx.oracle(c, dialects=(d,)):
                if res["kind"] == kind:
                    fl["input"] = {"spec": small, "index": res["index"], "ospecs": c.op_specs[res["index"]], "dialect": d}
                    fl["impl"] = {k: res[k] for k in ("kind", "op_kind", "text", "sql_exec", "sql_invoke", "error")}
                    break
        except Exception as e:  # keep the unshrunk input
            ctx.note("shrink failed: %r" % (e,))
        done += 1


def search(ctx):
    run(ctx, n_cases=3000, rng_name="search")


def check_witness(ctx, finding):
    w = finding.get("witness") or {}
    if "spec" not in w:
        return None
    case = rg.build(w["spec"])
    for res in rx.oracle(case, dialects=tuple(w.get("dialects") or rx.DIALECTS)):
        if res["kind"] in KINDS_FAIL:
            fl = {"input": {"spec": w["spec"], "index": res["index"], "ospecs": case.op_specs[res["index"]], "dialect": res["dialect"]},
                  "impl": {k: res[k] for k in ("kind", "sql_exec", "sql_invoke", "error")}}
            if classify(fl) == finding["id"]:
                return "%s on %s: %s" % (res["kind"], res["dialect"], (res["text"] or "")[:120])
    return None


def replay(ctx, case):
    inp = case["input"]
    c = rg.build(inp["spec"])
    out = []
    for res in rx.oracle(c, dialects=(inp["dialect"],) if inp.get("dialect") in rx.DIALECTS else rx.DIALECTS):
        if res["index"] != inp.get("index", res["index"]):
            continue
        fl = {"input": {"spec": inp["spec"], "index": res["index"], "ospecs": c.op_specs[res["index"]], "dialect": res["dialect"]},
              "impl": {k: res[k] for k in ("kind", "sql_exec", "sql_invoke", "error")}}
        out.append({"dialect": res["dialect"], "kind": res["kind"], "rendered": res["text"], "sql_exec": res["sql_exec"],
                    "sql_invoke": res["sql_invoke"], "error": res["error"], "known_finding": classify(fl)})
    pend = []
    model_compare(ctx, c, pend)
    for spec, i, kind, ospecs, impl, j, as_batch, np in pend:
        m = ctx.drv.ask1({"op": "render.text", "case": j, "asBatch": as_batch, "nonprintable": np})
        s = ctx.drv.ask1({"op": "render.spec", "case": j, "asBatch": as_batch, "nonprintable": np, "impl": rm.cps(impl)})
        out.append({"index": i, "impl_text": impl, "model_text": "".join(map(chr, m.get("text", []))), "spec": s})
    return {"results": out}
