"""C02 - revision engine; see harness/rev_corr.py (shared runner) and lean/Props/C02.lean"""
from .. import rev_corr
from . import _rev_common as common

PROPERTY = "C02"
DRIVER = "drv_rev"
THEOREMS = common.THEOREMS["C02"]
PARTIAL = common.PARTIAL.get("C02", {})
TRUSTED = list(rev_corr.REV_TRUSTED) + [
    "which absolute targets `<branch>@<full revision id>` name a revision and a branch for the `refused-target` oracle is decided by harness/rev_corr.denoted_qualified from the history alone (the qualifier through denoted_plain); the refusal is held against the proved model's plan",
]
RULE = common.RULE
ASSUMPTIONS = common.ASSUMPTIONS


def run(ctx):
    rev_corr.run_focus(ctx, "C02")


def search(ctx):
    rev_corr.run_focus(ctx, "C02", rng_name="search", scale=2.0)


check_witness = common.make_check_witness("C02")
classify = common.make_classify("C02")
replay = common.make_replay("C02")
