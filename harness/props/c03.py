"""C03 - revision engine; see harness/rev_corr.py (shared runner) and lean/Props/C03.lean"""
from .. import rev_corr
from . import _rev_common as common

PROPERTY = "C03"
DRIVER = "drv_rev"
THEOREMS = common.THEOREMS["C03"]
PARTIAL = common.PARTIAL.get("C03", {})
TRUSTED = rev_corr.REV_TRUSTED
RULE = common.RULE
ASSUMPTIONS = common.ASSUMPTIONS


def run(ctx):
    rev_corr.run_focus(ctx, "C03")


def search(ctx):
    rev_corr.run_focus(ctx, "C03", rng_name="search", scale=2.0)


check_witness = common.make_check_witness("C03")
classify = common.make_classify("C03")
replay = common.make_replay("C03")
