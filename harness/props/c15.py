"""C15 - a history with a cycle is always rejected, an acyclic one never; heads/bases.

Implementation: real RevisionMap over fake revisions (harness/revfake.py).  Model:
Model.Rev.load.  Oracle: Spec.Rev.hasCycle / headsOf / basesOf evaluated by the driver on the
same history, compared with what the implementation accepted and reported; accepted
histories are additionally exercised (upgrade heads, downgrade base) under a wall-clock alarm.
"""
from __future__ import annotations

import itertools
import json

from .. import gen_graph, rev_impl
from . import _rev_common as common

PROPERTY = "C15"
DRIVER = "drv_rev"
THEOREMS = common.THEOREMS.get("C15", [])
PARTIAL = common.PARTIAL.get("C15", {})
TRUSTED = [
    "exception classes compared through a small enum; any of CycleDetected/DependencyCycleDetected/LoopDetected/DependencyLoopDetected counts as 'a cycle error'",
    "a 3 s wall-clock alarm per command is the observation of 'never hangs' on the implementation",
]
RULE = (
    "every digraph on <=3 revisions (thorough: 4, dependencies restricted) with arbitrary down_revision tuples (<=2, self-loops allowed) and "
    "depends_on (<=1), each also with one parent / dependency named twice, plus random larger graphs with planted cycles through merge points and dependencies; non-trivial = contains a cycle or "
    "has >=3 revisions; distinct by history"
)
ASSUMPTIONS = ["every referenced revision id exists in the history (dangling references are a different error)"]
CYCLE_ERRS = ("cycle", "depCycle", "loop", "depLoop")


def all_digraphs(n, max_down=2, max_deps=1):
    names = list("abcd"[:n])
    per = []
    for i in range(n):
        opts = []
        for k in range(0, max_down + 1):
            for d in itertools.combinations(names, k):
                rest = [x for x in names if x not in d]
                for k2 in range(0, max_deps + 1):
                    for dp in itertools.combinations(rest, k2):
                        opts.append((list(d), list(dp)))
        per.append(opts)
    for combo in itertools.product(*per):
        yield [{"id": names[i], "down": combo[i][0], "deps": combo[i][1], "labels": []} for i in range(n)]


def planted(rng, n):
    # half of the planted histories carry branch labels: label propagation walks the links too
    hist = gen_graph.gen_history(rng, n, labels=rng.random() < 0.5, deps=rng.random() < 0.6, shuffle=False)
    ids = [r["id"] for r in hist]
    k = rng.choice([0, 1, 1, 1, 2])
    for _ in range(k):
        # add a back edge from an early revision to a later one (cycle iff the later one descends from it)
        a, b = sorted(rng.sample(range(n), 2))
        r = hist[a]
        if rng.random() < 0.6:
            if ids[b] not in r["down"] and len(r["down"]) < 3:
                r["down"] = r["down"] + [ids[b]]
        else:
            if ids[b] not in r["deps"] and ids[b] not in r["down"]:
                r["deps"] = r["deps"] + [ids[b]]
    rng.shuffle(hist)
    return hist


def repeated(h, rng):
    """the same history with one parent named twice in a down_revision tuple (what hand-squashing two former parents
    into one id leaves behind: `down_revision = ("b2", "b2")`), or a dependency named twice / equal to a down revision.
    The graph - and so whether it has a cycle - is unchanged."""
    h2 = [dict(r, down=list(r["down"]), deps=list(r["deps"])) for r in h]
    cands = [r for r in h2 if r["down"] or r["deps"]]
    if not cands:
        return None
    r = rng.choice(cands)
    kind = rng.choice(["down-twice", "down-twice", "dep-twice", "dep-is-down"])
    if kind == "down-twice" and r["down"]:
        d = rng.choice(r["down"])
        r["down"].insert(rng.randrange(len(r["down"]) + 1), d)
    elif kind == "dep-twice" and r["deps"]:
        r["deps"] = r["deps"] + [rng.choice(r["deps"])]
    elif r["down"]:
        r["deps"] = r["deps"] + [rng.choice(r["down"])]
    else:
        return None
    return h2


def nested_diamonds(k, rng=None):
    """m0 <- (l1, r1) <- m1 <- (l2, r2) <- m2 ...: what a project gets after merging feature branches one after the other.
    Acyclic, 3k+1 revisions, but 2^k paths from the head to the base: a traversal that forgets what it has seen does not
    come back"""
    hist = [{"id": "m000", "down": [], "deps": [], "labels": []}]
    for i in range(1, k + 1):
        p = "m%03d" % (i - 1)
        hist.append({"id": "l%03d" % i, "down": [p], "deps": [], "labels": []})
        hist.append({"id": "r%03d" % i, "down": [p], "deps": [], "labels": []})
        hist.append({"id": "m%03d" % i, "down": ["l%03d" % i, "r%03d" % i], "deps": [], "labels": []})
    if rng is not None:
        rng.shuffle(hist)
    return hist


def malformed(rng, n):
    """a loadable-looking history with one defect that is not a cycle: illegal character in an id,
    a branch label used twice / equal to a revision id, a dangling down-revision or dependency.  The implementation must answer with some error or a consistent map; the model
    mirrors which (correspondence); the cycle oracle still applies to what is left."""
    hist = gen_graph.gen_history(rng, n, labels=True, deps=rng.random() < 0.5, shuffle=False)
    ids = [r["id"] for r in hist]
    kind = rng.choice(["illegal-id", "dup-label", "label-is-id", "dangling-down", "dangling-dep", "labels-only"])
    r = rng.choice(hist)
    if kind == "illegal-id":
        new = r["id"][:2] + rng.choice("@-+") + r["id"][2:]
        old = r["id"]
        r["id"] = new
        for q in hist:
            q["down"] = [new if x == old else x for x in q["down"]]
            q["deps"] = [new if x == old else x for x in q["deps"]]
    elif kind == "dup-label":
        a, b = (rng.sample(hist, 2) if len(hist) > 1 else (r, r))
        a["labels"] = ["dupl"]
        b["labels"] = list(b["labels"]) + ["dupl"]
    elif kind == "label-is-id":
        other = rng.choice(ids)
        r["labels"] = [other]
    elif kind == "dangling-down":
        r["down"] = r["down"][:1] + ["nosuchrev"]
    elif kind == "dangling-dep":
        r["deps"] = r["deps"] + ["nosuchrev"]
    # (a duplicated id is C19's business: the later file replaces the earlier one with a warning)
    rng.shuffle(hist)
    return kind, hist


def histories(ctx, rng):
    yield "empty", []
    for k in ((30, 45) if not ctx.thorough else (24, 30, 45, 60)):
        yield "nested-diamonds-%d" % k, nested_diamonds(k, rng)
    for _ in range(400 if ctx.thorough else 60):
        # descriptive / hand-numbered ids, one contained in another, lineages tied by depends_on (acyclic)
        yield "descriptive-ids", gen_graph.descriptive_history(rng)
    for _ in range(3000 if ctx.thorough else 300):
        kind, h = malformed(rng, rng.randint(1, 7))
        yield "malformed:" + kind, h
    for n in (1, 2, 3):
        for k, h in enumerate(all_digraphs(n)):
            yield "exhaustive-%d" % n, h
            # the same digraph with a branch label on one of its revisions (rotating)
            h2 = [dict(r) for r in h]
            h2[k % n]["labels"] = ["lbl"]
            yield "exhaustive-%d-labelled" % n, h2
            h3 = repeated(h, rng)
            if h3 is not None:
                yield "exhaustive-%d-repeated-parent" % n, h3
    if ctx.thorough:
        for h in all_digraphs(4, max_down=2, max_deps=0):
            yield "exhaustive-4-nodeps", h
    for _ in range(20000 if ctx.thorough else 1500):
        h = planted(rng, rng.randint(3, 12))
        yield "planted", h
        if rng.random() < 0.25:
            h3 = repeated(h, rng)
            if h3 is not None:
                yield "planted-repeated-parent", h3


def run(ctx, rng_name="main"):
    rng = ctx.rng(rng_name)
    batch = []
    hangs = 0
    load_hangs = 0

    def flush():
        if not batch:
            return
        ops = []
        for h, impl in batch:
            ops.append({"op": "rev.load", "revs": h, "normOrder": impl.get("normOrder", [])})
            ops.append({"op": "rev.spec.load", "revs": h})
        ans = ctx.drv.ask(ops)
        for k, (h, impl) in enumerate(batch):
            model, spec = ans[2 * k], ans[2 * k + 1]
            judge(ctx, h, impl, model, spec)
        # the object as a state machine: the same reads, in order, on one fresh RevisionMap and on Model.Rev.Memo
        picked = [(h, impl) for k, (h, impl) in enumerate(batch) if k % 4 == 0 and impl.get("err") != "hang"]
        if picked:
            mans = ctx.drv.ask([{"op": "rev.memo", "revs": h, "normOrder": impl.get("normOrder", []), "reads": rev_impl.MEMO_READS}
                                for h, impl in picked])
            for (h, impl), mm in zip(picked, mans):
                ii = rev_impl.memo_reads(h)
                mm = [{"ok": sorted(x["ok"])} if "ok" in x else {"err": x.get("err")} for x in mm]
                ctx.hist("reads_on_one_object", "all refuse" if all("err" in x for x in ii) else "all answer" if all("ok" in x for x in ii) else "mixed")
                if ii != mm:
                    ctx.disagree("rev.memo", {"revs": h, "reads": rev_impl.MEMO_READS}, ii, mm)
                else:
                    ctx.trace_ok()
        del batch[:]

    for kind, h in histories(ctx, rng):
        ctx.evaluation()
        ctx.hist("graph", kind)
        sd, impl = rev_impl.load(h)
        if sd is None and impl.get("err") == "hang":
            load_hangs += 1
            ctx.fail({"revs": h, "cmd": "load"}, "hang: loading the history does not terminate (neither accepted nor rejected with a cycle error)", impl=impl, tags=["hang", "load"])
            if load_hangs >= 3:
                ctx.note("three histories on which loading hangs: remaining histories skipped")
                break
            continue
        if sd is not None and hangs < 3:
            # accepted: every traversal must terminate (after three hangs the point is made: each costs the full alarm)
            for cmd, rows, tgt in (("upgrade", [], "heads"), ("downgrade", impl["ok"]["realHeads"], "base")):
                p = rev_impl.plan(sd, rows, cmd, tgt, timeout=3.0)
                if isinstance(p, dict) and p.get("err") == "hang":
                    hangs += 1
                    ctx.fail({"revs": h, "cmd": cmd, "rows": rows, "target": tgt}, "hang: %s does not terminate on an accepted history" % cmd, impl=impl, tags=["hang"])
        batch.append((h, impl))
        if len(batch) >= 3000:
            flush()
    flush()
    ctx.exhaustive = True  # the n<=3 digraph space is enumerated completely (the random part is extra)


def judge(ctx, h, impl, model, spec):
    inp = {"revs": h}
    ii = {k: v for k, v in impl.items() if k not in ("normOrder", "later")}
    mm = rev_impl.canon_model_load(model)
    if "ok" in ii and "ok" in mm:
        same = ii == mm
    else:
        same = ii.get("err") == mm.get("err")
    if not same:
        ctx.disagree("rev.load", inp, ii, mm)
    else:
        ctx.trace_ok()
    cyc = bool(spec["hasCycle"])
    ctx.hist("has_cycle", cyc)
    ctx.hist("impl_result", ii.get("err", "accepted"))
    if cyc or len(h) >= 3:
        ctx.nontrivial(json.dumps(h, sort_keys=True))
    if len(ctx.samples) < 4 and cyc and len(h) >= 3:
        ctx.sample({"history": h, "impl": ii.get("err", "accepted"), "spec_hasCycle": cyc})
    err = ii.get("err")
    if err is not None:
        ctx.hist("refused_history_asked_again", "answers" if impl.get("later") else "refuses again")
    if cyc and err in CYCLE_ERRS and impl.get("later"):
        ctx.fail(inp, "cycle-accepted-later: the history is refused with %s, and the same object asked again answers: %s" % (
            err, "; ".join("%s -> %s" % (n, v) for n, v in impl["later"][:4])), impl=impl, tags=["accepted", "later"])
    if cyc and err not in CYCLE_ERRS:
        if err is None:
            ctx.fail(inp, "cycle-accepted: history with a directed cycle loads without a cycle error", impl=ii, tags=["accepted"])
        # other errors (e.g. KeyError) are not this property's business
    elif not cyc and err in CYCLE_ERRS:
        ctx.fail(inp, "acyclic-rejected: acyclic history rejected with %s" % err, impl=ii, tags=["rejected"])
    elif not cyc and err is None:
        ok = ii["ok"]
        for key, skey in (("heads", "heads"), ("realHeads", "realHeads"), ("bases", "bases"), ("realBases", "realBases")):
            if sorted(ok[key]) != sorted(spec[skey]):
                ctx.fail(inp, "heads-bases: %s reported as %s, graph-theoretic definition gives %s" % (key, sorted(ok[key]), sorted(spec[skey])), impl=ii, tags=[key])


def search(ctx):
    run(ctx, rng_name="search")


def check_witness(ctx, finding):
    h = finding["witness"]["revs"]
    sd, impl = rev_impl.load(h)
    spec = ctx.drv.ask1({"op": "rev.spec.load", "revs": h})
    if spec["hasCycle"] and "err" not in impl:
        return "cycle accepted"
    return None


def classify(failure):
    return None


def replay(ctx, case):
    h = case["input"]["revs"]
    sd, impl = rev_impl.load(h)
    model = ctx.drv.ask1({"op": "rev.load", "revs": h, "normOrder": impl.get("normOrder", [])})
    spec = ctx.drv.ask1({"op": "rev.spec.load", "revs": h})
    return {"impl": impl, "model": model, "spec": spec}
