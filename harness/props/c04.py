"""C04 - a failing migration never leaves the version table out of step.

Implementation side: the real MigrationContext (online) on a SQLite *file* database, driven
in the env.py shape `with ctx.begin_transaction(): ctx.run_migrations()` with the real
ScriptDirectory._upgrade_revs/_downgrade_revs over fake revisions whose bodies execute
CREATE TABLE / DROP TABLE / INSERT / DELETE (optionally inside autocommit blocks) and raise
at a chosen atom position; plus the real alembic.command.upgrade/downgrade over a real
script directory with the shipped templates/generic/env.py.  After the exception a FRESH
connection reads alembic_version, sqlite_master and the data table; that observation is
compared with Model.Online.runFinal and judged by Spec.Online.check.
"""
from __future__ import annotations

import os
import shutil

from .. import online_impl as oi
from ..gen_graph import gen_history, reachable_state

PROPERTY = "C04"
DRIVER = "drv_online"
THEOREMS = [
    "C04.single_txn",
    "C04.per_migration",
    "C04.nontransactional",
    "C04.recorded_exactly_completed",
    "C04.rows_at_boundary",
    "C04.never_names_failed",
    "C04.failure_propagates",
    "C04.earlier_effects_durable",
    "C04.model_satisfies_check",
    "C04.single_txn_autocommit_block_commits",
    "C04.shape_preStmt_same",
    "C04.shape_noOuter_same",
    "C04.run_leaves_no_txn",
    "C04.round_without_migrations_leaves_txn",
    "C04.round_failure_eq_standalone",
    "C04.rounds_independent",
    "C04.run_leaves_no_txn_single_partial",
    "C04.rounds_independent_partial",
    "C04.orphan_round_loses_rows",
    "C04.owned_external_keeps",
    "C04.read_noop",
    "C04.read_noop_per_migration",
    "C04.configure_perMig_own",
    "C04.configure_tddl_own_counterexample",
    "C04.configure_tddl_own_partial",
]
PARTIAL = {
    "C04.rounds_independent_partial": "rounds of the one-enclosing-transaction regime must not contain autocommit blocks (missing: the "
                                      "complete-migration lemma for autocommit blocks when the transaction was opened at the env.py level); "
                                      "per-migration rounds need at least one migration (otherwise false: finding C04-F2)",
    "C04.run_leaves_no_txn_single_partial": "same restriction: no autocommit block in the round's migrations",
    "C04.rounds_independent": "needs every round to have at least one migration: the full statement - every sequence of rounds on one "
                              "connection behaves like standalone runs - is false on the unchanged tree when a round has nothing to do "
                              "(kernel-checked witness C04.round_without_migrations_leaves_txn, finding C04-F2)",
    "C04.configure_tddl_own_partial": "full statement C04.configure_tddl_own_statement (every configure() call of an env.py run gets its own "
                                      "transactional_ddl) is false on the unchanged tree (C04.configure_tddl_own_counterexample, finding C04-F1): "
                                      "proved only for calls that pass the argument",
    "C04.single_txn": "scope hypothesis: no autocommit_block is entered before the failure. autocommit_block commits the enclosing "
                      "transaction by design (documented warning), witnessed by C04.single_txn_autocommit_block_commits; the row-level "
                      "claims (rows_at_boundary, never_names_failed, nontransactional) are proved WITH autocommit blocks",
    "C04.per_migration": "scope hypothesis: the failed migration entered no autocommit_block before the failure (earlier migrations may); "
                         "exact state equality needs the `transactional` backend mode, which is validated live only on SQLite with the BEGIN recipe",
}
TRUSTED = [
    "the three DDL modes of Model.Online.execStmt are a model of backends: `pysqlite` (sqlite3 legacy transaction control) and "
    "`transactional` (SQLite with the documented BEGIN recipe) are validated live on every run; `autocommitDDL` (MySQL/Oracle: DDL "
    "implicitly commits) and the claim that PostgreSQL/MSSQL servers behave like `transactional` are NOT validated (no server in the sandbox)",
    "the version-table statements of each step (INSERT/UPDATE/DELETE rows) are read from a non-failing run of the real HeadMaintainer and "
    "passed to the model as parameters; the theorems hold for every value of them (the row algebra itself is property C03)",
    "the failure oracle raises a Python exception (Exception subclass, KeyboardInterrupt, SystemExit or another BaseException; the model "
    "carries the kind in Atom.raise and provably never consults it) between statements (or from a before_cursor_execute hook for the version statements); "
    "failures of COMMIT itself and crashes of the process/connection are out of scope",
    "a batch_alter_table block is abstracted to the statement list ddl(create tmp) | dml(copy, no visible effect) | ddl(drop) | ddl(rename = "
    "column appears/disappears); the individual effects of the last two are never durable separately on the validated backends "
    "(harness/online_impl.py:batch_stmts)",
    "offline stream: the emitted script is applied with the sqlite3 module in autocommit mode, so the script's own BEGIN/COMMIT are the only "
    "transaction framing (a transaction left open is rolled back at close); splitting at ';\\n' (harness/online_impl.py:split_script); "
    "without transactional DDL a failure in the on_version_apply hook (after the version statement was emitted) is judged as a failure "
    "before the next migration, because for the script migration k is then complete and recorded",
    "a body statement that reads the current heads (get_current_heads() mid-migration) is passed to the model as the statement Act.read whose "
    "effect is the identity (C04.read_noop / read_noop_per_migration prove that such statements change no boundary state and no "
    "post-failure state); its KIND is DDL because a SELECT, like DDL and unlike DML, does not open a transaction in sqlite3's legacy mode",
    "observation: sqlite_master table names, rows of the `data` table and alembic_version rows through a fresh connection "
    "(harness/online_impl.py:observe)",
]
RULE = (
    "script = history (linear or branched, 1-4 revisions, 35% of the branched ones with depends_on) x bodies (0-4 DDL/DML statements in "
    "plain/autocommit segments, downgrade undoes upgrade) x command (upgrade/downgrade from a reachable state); for every script: every "
    "config in {pysqlite,recipe} x transactional_ddl{default,True} x transaction_per_migration (passed as False/True or as 0/1, "
    "alternating) x external-transaction{no,yes}, and EVERY "
    "failure position (k, pos) of the plan (before/between/after each statement, around autocommit blocks, inside and after the version "
    "update), each position with an Exception AND with a BaseException that is not an Exception (KeyboardInterrupt / SystemExit / custom "
    "BaseException, round robin; all four kinds for the fixed scripts on the recipe engine without external transaction), on the in-process path and on the command.upgrade/downgrade "
    "path with the shipped env.py; plus the run without failure. Fixed batteries on every run: (1) the settings given through env.py "
    "(shipped generic env.py whose online context.configure call additionally receives transactional_ddl / transaction_per_migration / "
    "on_version_apply: all 8 setting combinations, incl. the after-the-version-update position on the command path); (2) failures raised "
    "by alembic itself inside the version update (the body deletes the version row, HeadMaintainer's rowcount check raises CommandError "
    "in _update_version and in _delete_version), all 16 configs + command path; (3) depends_on histories (witnesses of F2/F3), a branch "
    "point and a merge next to an unrelated head, both directions; (4) the shipped multidb template (two SQLite databases, "
    "pysqlite and recipe, both directions, every position: the failing database, the already migrated one and the untouched one are "
    "each judged). (5) env.py variants: a statement executed on the migration connection between configure() and "
    "begin_transaction() (get_current_heads / connection SELECT / context.execute) and run_migrations() without the outer "
    "begin_transaction() (only where that level is a nullcontext): round robin over the configs of every random in-process script, and "
    "on the command path (patched generic env.py) every variant x 4 settings (all 8 in thorough) x every failure position for a script "
    "with and one without autocommit blocks; (11) migration bodies that read the current heads "
    "(get_current_heads()) before / between / after their statements (35% of the random bodies per direction, fixed scripts, the "
    "two-database / rounds scripts); (10) several configure()/begin_transaction()/run_migrations() rounds on ONE connection "
    "without a caller-owned transaction (hand-written multi-tenant env.py: one version table and disjoint objects per round, different "
    "settings per round), failing migration in the first or the second round, every round judged on its slice of the observation; "
    "(9) env.py calling run_migrations() twice inside ONE begin_transaction() block, through the real EnvironmentContext "
    "and ScriptDirectory.run_env() with a per-call target (phases), failing migration in the first or the second call, judged as the "
    "stock shape over the concatenated plan; (8) an offline (--sql) stream: the same bodies run in as_sql mode (sqlite dialect, transactional_ddl {default,True} x "
    "transaction_per_migration; MigrationContext in-process and command.upgrade(sql=True) with the shipped env.py), failing at every "
    "body position (outside and inside autocommit blocks) and in the on_version_apply hook; the command must fail and the script "
    "emitted so far, applied statement by statement to a database in the start state, is judged by the same spec; "
    "(7) op.batch_alter_table() blocks in migration bodies (SQLite move-and-copy, recreate always/auto, add column on upgrade, "
    "drop column on downgrade; 30% of the random revisions that create a table, plus fixed scripts in all four (transactional_ddl, "
    "transaction_per_migration) settings x both engines), failure positions also between the statements of the block; "
    "(6) a hand-written two-database env.py with different settings per configure() call (all 16 "
    "ordered pairs). A case is non-trivial when the run raised; distinct by (config, plan, k, pos, kind)"
)
ASSUMPTIONS = [
    "env.py has the documented shape: with connectable.connect() as connection: configure(connection=...); "
    "with context.begin_transaction(): context.run_migrations()",
    "an external caller wraps the run in `with connection.begin():` (rollback on exception); the shipped multidb env.py is such a caller",
    "templates/async/env.py is not executed (no async SQLite driver in the sandbox); its synchronous part do_run_migrations has the generic shape",
]

# env.py variants: "heads"/"select"/"ctxexec" execute something on the migration connection between configure() and
# begin_transaction(); "no_outer" calls run_migrations() without the outer begin_transaction() (only sensible - and only
# generated - where that level is a nullcontext anyway: transactional_ddl false or transaction_per_migration, no external txn)
SHAPES = ["stock", "heads", "select", "ctxexec", "no_outer"]
# "two_calls": env.py calls run_migrations() twice inside one begin_transaction() block (the work function migrates to
# config["phases"][k] in the k-th call).  For the model that is the stock shape over the concatenated plan: the second call
# re-reads the heads (a read, autobegin is idempotent) and continues the loop; with transactional DDL and no per-migration
# transactions the block is ONE enclosing transaction (C04.single_txn).  The claim is validated against the real
# EnvironmentContext on every run.
MODEL_SHAPE = {"two_calls": "stock", "stock": "stock", "heads": "preStmt", "select": "preStmt", "ctxexec": "preStmt", "no_outer": "noOuter"}


def shape_ok(config, shape, default_tddl=False):
    if shape != "no_outer":
        return True
    tddl = config.get("tddl") if config.get("tddl") is not None else default_tddl
    return not config.get("external") and (not tddl or bool(config.get("perMig")))


def with_pm_spelling(configs, offset):
    """transaction_per_migration is passed as a bool or as its int spelling 0 / 1 (deterministic alternation that gives both
    spellings to both truth values within one config list; the model and the spec only see the truth value)"""
    return [dict(c, pm_int=(j + j // 2 + offset) % 2 == 0) if c is not None else c for j, c in enumerate(configs)]


def with_shapes(configs, offset):
    """round robin assignment of an env.py shape to every config (deterministic)"""
    out = []
    for j, c in enumerate(configs):
        sh = SHAPES[(offset + j) % len(SHAPES)]
        out.append(dict(c, shape=sh if shape_ok(c, sh) else "heads"))
    return out


PLAN_ERRORS = {"err:multipleHeads", "err:resolution", "err:rangeNotAncestor", "err:revisionError", "err:commandError"}
ENGINE_MODE = {"pysqlite": "pysqlite", "recipe": "transactional"}


# ------------------------------------------------------------------------------------------ generator

def gen_bodies(rng, hist, p_auto=0.2, max_stmts=4):
    bodies = {}
    t = 0
    d = 0
    ncol = 0
    for r in hist:
        segs = []
        objs = []
        nst = rng.choice([0, 1, 2, 2, 3, max_stmts])
        cur = {"auto": False, "stmts": []}
        for _ in range(nst):
            if rng.random() < 0.3 and cur["stmts"]:
                segs.append(cur)
                cur = {"auto": rng.random() < p_auto * 2, "stmts": []}
            if rng.random() < 0.5:
                st = ["ddl", "add", 2 * t]
                t += 1
            else:
                st = ["dml", "add", 2 * d + 1]
                d += 1
            cur["stmts"].append(st)
            objs.append(st)
        if cur["stmts"] or rng.random() < 0.1:
            segs.append(cur)
        if segs and rng.random() < p_auto:
            segs[rng.randrange(len(segs))]["auto"] = True
        # op.batch_alter_table() on a table this revision created: add a column (recreate always / auto)
        batch = None
        made = [e // 2 for k, _, e in objs if k == "ddl"]
        if made and rng.random() < 0.3:
            batch = (rng.choice(made), ncol, rng.choice(["always", "auto"]))
            ncol += 1
            segs.append(oi.batch_seg(batch[0], batch[1], "add", batch[2]))
            if rng.random() < 0.4:
                segs.append({"auto": False, "stmts": [["dml", "add", 2 * d + 1]]})
                objs.append(["dml", "add", 2 * d + 1])
                d += 1
        # downgrade undoes the upgrade (reverse order), in one or two segments
        down_stmts = [[k, "del", e] for k, _, e in reversed(objs)]
        if len(down_stmts) >= 2 and rng.random() < 0.4:
            c = rng.randrange(1, len(down_stmts))
            dsegs = [{"auto": False, "stmts": down_stmts[:c]}, {"auto": rng.random() < p_auto, "stmts": down_stmts[c:]}]
        else:
            dsegs = [{"auto": rng.random() < p_auto / 2, "stmts": down_stmts}] if down_stmts else []
        # the migration reads the current heads mid-way (before / between / after its statements, also inside autocommit blocks)
        for which in (segs, dsegs):
            if which and rng.random() < 0.35:
                sg = which[rng.randrange(len(which))]
                if not sg.get("batch"):
                    sg["stmts"].insert(rng.randint(0, len(sg["stmts"])), list(READ))
        if batch:
            # the downgrade drops the column first (always a recreate on SQLite)
            dsegs = [oi.batch_seg(batch[0], batch[1], "drop", batch[2])] + dsegs
        bodies[r["id"]] = {"up": segs, "down": dsegs}
    return bodies


def gen_script(rng, max_n):
    n = rng.randint(1, max_n)
    if rng.random() < 0.6:
        hist = gen_history(rng, n, labels=False, deps=False, p_root=0.0, p_merge=0.0, shuffle=False)
        for i, r in enumerate(hist):  # linear
            r["down"] = [hist[i - 1]["id"]] if i else []
        shape = "linear"
    else:
        hist = gen_history(rng, n, labels=False, deps=rng.random() < 0.35, p_merge=0.4)
        shape = "branched" if any(len(r["down"]) > 1 for r in hist) or sum(1 for r in hist if not r["down"]) > 1 or \
            len({tuple(r["down"]) for r in hist if r["down"]}) < sum(1 for r in hist if r["down"]) else "linear"
    if any(r.get("deps") for r in hist):
        shape += "+deps"
    ids = [r["id"] for r in hist]
    if rng.random() < 0.6:
        cmd = "upgrade"
        start = reachable_state(rng, hist) if rng.random() < 0.4 else []
        target = rng.choice(["heads", "heads", "heads", rng.choice(ids)])
    else:
        cmd = "downgrade"
        start = reachable_state(rng, hist, force_nonempty=True) if rng.random() < 0.5 else ["heads"]
        target = rng.choice(["base", "base", rng.choice(ids), "-1"])
    return {"hist": hist, "shape": shape, "cmd": cmd, "start": start, "target": target, "bodies": gen_bodies(rng, hist)}


def all_configs(rng, thorough):
    out = []
    for engine in ("pysqlite", "recipe"):
        for tddl in (None, True):
            for per_mig in (False, True):
                out.append({"engine": engine, "tddl": tddl, "perMig": per_mig, "external": False})
    # external transaction: a sample (all of them in the thorough tier)
    ext = [dict(c, external=True) for c in out]
    if not thorough:
        ext = rng.sample(ext, 2)
    return out + ext


# ------------------------------------------------------------------------------------------ one script

READ = ["ddl", "read", 0]  # the body reads the current heads (MigrationContext.get_current_heads()) at this point


def to_model_stmt(st):
    if st[1] == "read":
        # for the model a statement whose effect is the identity (Act.read; C04.read_noop: invisible at every boundary); DDL kind because
        # a SELECT does not open a DBAPI transaction in sqlite3's legacy mode, exactly like DDL (a DML would)
        return {"k": "ddl", "a": ["read"]}
    return {"k": st[0], "a": [st[1], st[2]]}


def to_model_segs(segs):
    return [{"auto": s["auto"], "stmts": [to_model_stmt(x) for x in s["stmts"]]} for s in segs]


def build_plan(steps, bodies, rev_index):
    return [{"rev": rev_index[s["rid"]], "segs": to_model_segs(bodies[s["rid"]][s["dir"]]), "vstmts": s["vstmts"]} for s in steps]


def n_atoms(mig):
    return sum(len(s["stmts"]) + (2 if s["auto"] else 0) for s in mig["segs"]) + len(mig["vstmts"])


def prepare_base(scratch, script, rev_index, name="base.sqlite"):
    """database in the start state, reached with the real code (default config, no failure)"""
    base = oi.new_db(scratch, name)
    for t in script["start"]:
        res, _ = oi.run_inprocess(base, script["hist"], script["bodies"], rev_index, "upgrade", t,
                                  {"engine": "pysqlite", "tddl": None, "perMig": False}, None)
        if res != "ok":
            return None
    return base


def parents_of(hist, rev_index):
    """what a version row implies: down revisions and dependencies"""
    return [[rev_index[r["id"]], [rev_index[p] for p in list(r["down"]) + list(r.get("deps") or [])]] for r in hist]


def script_cases(ctx, script, configs, runner="inprocess", cfg_obj=None, scratch=None, base=None):
    """yields (inp, impl_result) for every config and every failure position"""
    hist = script["hist"]
    rev_index = {r["id"]: i for i, r in enumerate(hist)}
    parents = parents_of(hist, rev_index)
    db0 = oi.observe(base, rev_index)
    work = os.path.join(scratch, "work.sqlite")

    def execute(config, fail):
        shutil.copyfile(base, work)
        if runner == "inprocess":
            res, orc = oi.run_inprocess(work, hist, script["bodies"], rev_index, script["cmd"], script["target"], config, fail)
        else:
            patched = config.get("env") == "patched"
            cobj = cfg_obj[1] if patched else cfg_obj[0]
            cobj.set_main_option("sqlalchemy.url", "sqlite:///" + work)
            kw = None
            if patched:
                kw = {"transaction_per_migration": oi.pm_value(config)}
                if config.get("tddl") is not None:
                    kw["transactional_ddl"] = config["tddl"]
            res, orc = oi.run_command(cobj, script["bodies"], rev_index, script["cmd"], script["target"], config["engine"], fail,
                                      configure_kw=kw, hook=patched, shape=config.get("shape", "stock") if patched else "stock",
                                      phases=config.get("phases") if patched else None)
        return res, orc, oi.observe(work, rev_index)

    for cfg_no, config in enumerate(configs):
        if config.get("env") == "patched" and not cfg_obj[1].attributes.get("verif_env_patched"):
            ctx.hist("env_patch", "needle not found in the shipped env.py: settings-through-env.py configs skipped")
            continue
        res, orc, fin = execute(config, None)
        ctx.evaluation()
        # alembic's own rowcount check (HeadMaintainer._update_version/_delete_version) raising inside the version
        # update because the body tampered with the version table: a failure "at any point" not injected by the oracle
        self_fail = bool(script.get("self_failure")) and res == "err:commandError" and orc.step >= 0
        if res != "ok" and not (res == "err:assertion" and config.get("external")) and not self_fail:
            ctx.hist("reference_run", res)
            if res not in PLAN_ERRORS:
                # the run without any injected failure raised something that is not a plan-resolution error
                # (those - multiple heads for the chosen target etc. - are not this property's business):
                # the model says such a run completes
                ctx.disagree("online.reference", {"script": script, "config": config}, {"res": res, "final": fin},
                             {"raised": False}, note="run without injected failure raised")
            continue
        if script.get("self_failure") and not self_fail:
            ctx.disagree("online.reference", {"script": script, "config": config}, {"res": res, "final": fin},
                         {"raised": True}, note="the rowcount check of the version update did not raise")
            continue
        if orc.unparsed:
            ctx.disagree("online.parse", {"script": script, "config": config}, {"unparsed": orc.unparsed}, None)
            continue
        if res != "ok" and not self_fail:
            # external transaction + autocommit block: the reference run itself raises; take the plan from a
            # non-external reference run
            res2, orc2, _ = execute(dict(config, external=False), None)
            if res2 != "ok":
                continue
            ref = orc2
        else:
            ref = orc
        plan = build_plan(ref.steps, script["bodies"], rev_index)
        tddl = bool(orc.tddl_seen)
        base_inp = {
            "mode": ENGINE_MODE[config["engine"]], "tddl": tddl, "perMig": bool(config["perMig"]) if (runner == "inprocess" or config.get("env") == "patched") else False,
            "external": bool(config.get("external")),
            "pre": [{"k": "ddl", "a": ["cvt"]}] if not db0["vt"] else [],
            "plan": plan, "db": {k: db0[k] for k in ("objs", "rows", "vt")},
            "upgrade": script["cmd"] == "upgrade", "parents": parents,
            "shape": MODEL_SHAPE[config.get("shape", "stock")],
        }
        meta = {"runner": runner, "config": config, "script": script}
        ctx.hist("transaction_per_migration spelling", "%r" % (oi.pm_value(config),))
        ctx.hist("env.py shape x runner", "%s / %s" % (config.get("shape", "stock"), runner))
        ref_fail = {"k": orc.step, "pos": orc.pos, "kind": "exception"} if self_fail else None
        yield dict(base_inp, fail=ref_fail), {"res": res, "final": fin, "eff": [orc.step, orc.pos] if res != "ok" else None}, meta
        nonexc = ["keyboardInterrupt", "systemExit", "baseException"]
        for k, mig in enumerate(plan):
            for pos in range(0, n_atoms(mig) + 1):
                if runner != "inprocess" and config.get("env") != "patched" and pos == n_atoms(mig):
                    continue  # "after the version update" needs an on_version_apply hook: in-process / patched env.py only
                # every position: an Exception and (round robin, deterministic) one BaseException that is not an
                # Exception; all four kinds when the script asks for it (fixed scripts, exhaustive domain)
                kinds = ["exception"] + (nonexc if script.get("all_kinds") and not config.get("external") and config["engine"] == "recipe"
                                         else [nonexc[(k + pos + cfg_no) % 3]])
                for kind in kinds:
                    res, orc, fin = execute(config, (k, pos, kind))
                    ctx.evaluation()
                    eff = [orc.step, orc.pos] if res != "ok" else None
                    yield dict(base_inp, fail={"k": k, "pos": pos, "kind": kind}), {"res": res, "final": fin, "eff": eff}, meta


def judge(ctx, pending):
    ops = []
    for inp, impl, meta in pending:
        ops.append({"op": "online.run", **inp})
        sinp = dict(inp, **meta["spec_cfg"]) if "spec_cfg" in meta else inp  # twodb: judged against the call's OWN settings
        if impl["eff"] is not None:
            ops.append({"op": "online.spec", **sinp, "fail": {"k": impl["eff"][0], "pos": impl["eff"][1], "kind": (inp.get("fail") or {}).get("kind", "exception")},
                        "final": {k: impl["final"][k] for k in ("objs", "rows", "vt")}})
        else:
            ops.append({"op": "online.spec", **sinp, "fail": None, "final": {k: impl["final"][k] for k in ("objs", "rows", "vt")}})
    ans = ctx.drv.ask(ops)
    for i, (inp, impl, meta) in enumerate(pending):
        m, s = ans[2 * i], ans[2 * i + 1]
        rec = {"input": inp, "runner": meta["runner"], "config": meta["config"], "script": meta["script"]}
        if "multi" in meta:
            rec["multi"] = meta["multi"]
        obs = {k: impl["final"][k] for k in ("objs", "rows", "vt")}
        bad_obs = impl["final"]["unknown"] or impl["final"]["dup_rows"] or impl["final"]["dup_data"]
        raised = impl["res"] != "ok"
        if meta.get("spec_only"):
            if bad_obs:  # offline stream: no online model run to compare with; the replayed state is judged by the spec
                ctx.disagree("offline.observe", rec, {"final": impl["final"]}, None)
        elif "err" in m or bad_obs or m.get("final") != obs or m.get("raised") != raised:
            ctx.disagree("online.run", rec, {"res": impl["res"], "final": impl["final"]}, m)
        else:
            ctx.trace_ok()
        cfgkey = "%s tddl=%s perMig=%s ext=%s" % (inp["mode"], inp["tddl"], inp["perMig"], inp["external"])
        ctx.hist("config", cfgkey)
        ctx.hist("runner", meta["runner"])
        ctx.hist("result", impl["res"])
        if raised:
            ctx.nontrivial((cfgkey, meta["runner"], repr(inp["plan"]), repr(inp["db"]), repr(inp["fail"])))
            mig = inp["plan"][impl["eff"][0]]
            nb = n_atoms(mig) - len(mig["vstmts"])
            p = impl["eff"][1]
            where = ("body" if p < nb else "between body and version update" if p == nb and mig["vstmts"] else
                     "inside version update" if p < n_atoms(mig) else "after version update")
            ctx.hist("failure_position", where)
            ctx.hist("failed_step_index", impl["eff"][0])
            ctx.hist("failure_kind", (inp.get("fail") or {}).get("kind", "n/a") if impl["res"] == "boom" else impl["res"])
            ctx.hist("kind x position x runner", "%s / %s / %s" % ((inp.get("fail") or {}).get("kind", impl["res"]), where, meta["runner"]))
        if raised and "hyp" in s:
            ctx.hist("hypotheses_of_model_satisfies_check_hold", s["hyp"])
        if "err" in s:
            ctx.disagree("online.spec", rec, impl, s)
        elif s.get("holds") is not True:
            why = [k for k, v in s.items() if v is False and k not in ("holds", "hyp")]
            if raised:
                what = "out-of-step: after the failure the version table / schema are not as C04 demands (%s)" % ",".join(why)
            else:
                what = "incomplete: a run in which nothing raised did not leave every migration applied and recorded"
            ctx.fail(rec, what, impl={"res": impl["res"], "final": impl["final"], "failed_at": impl["eff"]}, tags=why)
        if i < 2:
            ctx.sample({"config": meta["config"], "runner": meta["runner"], "cmd": meta["script"]["cmd"], "target": meta["script"]["target"],
                        "history": meta["script"]["hist"], "plan": inp["plan"], "fail": inp["fail"], "db_before": inp["db"],
                        "observed_after": obs, "result": impl["res"]})
    pending.clear()


def run_script(ctx, script, configs, pending, runner="inprocess", flush=True):
    rev_index = {r["id"]: i for i, r in enumerate(script["hist"])}
    with oi.Scratch() as scratch:
        base = prepare_base(scratch, script, rev_index)
        if base is None:
            ctx.hist("setup", "failed")
            return
        cfg_obj = None
        if runner == "command":
            cfg_obj = (oi.make_script_dir(scratch, script["hist"], base),
                       oi.make_script_dir(scratch, script["hist"], base, patch_env=True, name="scripts_cfg")
                       if any(c.get("env") == "patched" for c in configs) else None)
        ctx.hist("shape", script["shape"])
        ctx.hist("cmd", script["cmd"])
        ctx.hist("revisions", len(script["hist"]))
        for case in script_cases(ctx, script, configs, runner, cfg_obj, scratch, base):
            pending.append(case)
            ctx.hist("steps", len(case[0]["plan"]))
    if flush and len(pending) > 2000:
        judge(ctx, pending)


FIXED_SCRIPTS = [
    # linear a <- b <- c, mixed DDL/DML, one autocommit block
    {"hist": [{"id": "a", "down": []}, {"id": "b", "down": ["a"]}, {"id": "c", "down": ["b"]}], "shape": "linear",
     "cmd": "upgrade", "start": [], "target": "heads",
     "bodies": {"a": {"up": [{"auto": False, "stmts": [["ddl", "add", 0], ["dml", "add", 1], ["ddl", "add", 2]]}],
                      "down": [{"auto": False, "stmts": [["ddl", "del", 2], ["dml", "del", 1], ["ddl", "del", 0]]}]},
                "b": {"up": [{"auto": False, "stmts": [["dml", "add", 3]]}, {"auto": True, "stmts": [["ddl", "add", 4]]},
                             {"auto": False, "stmts": [["ddl", "read", 0], ["ddl", "add", 6]]}],
                      "down": [{"auto": False, "stmts": [["ddl", "del", 6], ["ddl", "read", 0], ["ddl", "del", 4], ["dml", "del", 3]]}]},
                "c": {"up": [{"auto": False, "stmts": [["ddl", "add", 8], ["dml", "add", 5]]}],
                      "down": [{"auto": False, "stmts": [["dml", "del", 5], ["ddl", "del", 8]]}]}}},
    # two roots merged: a, b; m <- (a, b); then d <- m.  upgrade from {a}
    {"hist": [{"id": "a", "down": []}, {"id": "b", "down": []}, {"id": "m", "down": ["a", "b"]}, {"id": "d", "down": ["m"]}],
     "shape": "branched", "cmd": "upgrade", "start": ["a"], "target": "heads",
     "bodies": {"a": {"up": [{"auto": False, "stmts": [["ddl", "add", 0]]}], "down": [{"auto": False, "stmts": [["ddl", "del", 0]]}]},
                "b": {"up": [{"auto": False, "stmts": [["dml", "add", 1], ["ddl", "add", 2]]}],
                      "down": [{"auto": False, "stmts": [["ddl", "del", 2], ["dml", "del", 1]]}]},
                "m": {"up": [], "down": []},
                "d": {"up": [{"auto": False, "stmts": [["ddl", "add", 4], ["dml", "add", 3]]}],
                      "down": [{"auto": False, "stmts": [["dml", "del", 3], ["ddl", "del", 4]]}]}}},
]


def _b(up, down):
    return {"up": [{"auto": False, "stmts": up}] if up else [], "down": [{"auto": False, "stmts": down}] if down else []}


# the body itself deletes the row the version update is about to UPDATE / DELETE: alembic's own rowcount check
# (HeadMaintainer._update_version / _delete_version) raises CommandError inside the version update, after the
# statement was executed.  Index 0 = revision a.
SABOTAGE_SCRIPTS = [
    {"hist": [{"id": "a", "down": []}, {"id": "b", "down": ["a"]}], "shape": "linear", "cmd": "upgrade", "start": ["a"],
     "target": "heads", "self_failure": True,
     "bodies": {"a": _b([["ddl", "add", 0]], [["ddl", "del", 0]]),
                "b": _b([["ddl", "add", 2], ["dml", "vdel", 0], ["dml", "add", 1]], [["dml", "del", 1], ["ddl", "del", 2]])}},
    {"hist": [{"id": "a", "down": []}], "shape": "linear", "cmd": "downgrade", "start": ["a"], "target": "base", "self_failure": True,
     "bodies": {"a": _b([["ddl", "add", 0], ["dml", "add", 1]], [["dml", "del", 1], ["dml", "vdel", 0], ["ddl", "del", 0]])}},
]

# histories with depends_on (the witnesses of the C03 repairs F2/F3: a row implied by another one)
DEPS_SCRIPTS = [
    {"hist": [{"id": "a", "down": []}, {"id": "b", "down": []}, {"id": "c", "down": [], "deps": ["a"]},
              {"id": "d", "down": ["a", "b"], "deps": ["c"]}], "shape": "branched+deps", "cmd": "upgrade", "start": [], "target": "heads",
     "bodies": {"a": _b([["ddl", "add", 0]], [["ddl", "del", 0]]), "b": _b([["dml", "add", 1]], [["dml", "del", 1]]),
                "c": _b([["ddl", "add", 2], ["dml", "add", 3]], [["dml", "del", 3], ["ddl", "del", 2]]),
                "d": _b([["dml", "add", 5], ["ddl", "add", 4]], [["ddl", "del", 4], ["dml", "del", 5]])}},
    {"hist": [{"id": "a", "down": []}, {"id": "b", "down": []}, {"id": "c", "down": [], "deps": ["a"]},
              {"id": "d", "down": ["a"], "deps": ["c"]}], "shape": "branched+deps", "cmd": "downgrade", "start": ["b", "d"], "target": "d@base",
     "bodies": {"a": _b([["ddl", "add", 0]], [["ddl", "del", 0]]), "b": _b([["dml", "add", 1]], [["dml", "del", 1]]),
                "c": _b([["ddl", "add", 2], ["dml", "add", 3]], [["dml", "del", 3], ["ddl", "del", 2]]),
                "d": _b([["dml", "add", 5], ["ddl", "add", 4]], [["ddl", "del", 4], ["dml", "del", 5]])}},
]


# branch point (insert of a second head), merge while an unrelated head exists, and their undoing
_BM_HIST = [{"id": "a", "down": []}, {"id": "b", "down": ["a"]}, {"id": "c", "down": ["a"]}, {"id": "x", "down": []},
            {"id": "m", "down": ["b", "c"]}]
_BM_BODIES = {"a": _b([["ddl", "add", 0]], [["ddl", "del", 0]]), "b": _b([["dml", "add", 1]], [["dml", "del", 1]]),
              "c": _b([["ddl", "add", 2]], [["ddl", "del", 2]]), "x": _b([["dml", "add", 3]], [["dml", "del", 3]]),
              "m": _b([["ddl", "add", 4]], [["ddl", "del", 4]])}
DEPS_SCRIPTS += [
    {"hist": _BM_HIST, "shape": "branched", "cmd": "upgrade", "start": ["x"], "target": "heads", "bodies": _BM_BODIES},
    {"hist": _BM_HIST, "shape": "branched", "cmd": "downgrade", "start": ["heads"], "target": "base", "bodies": _BM_BODIES},
]


# migrations whose bodies contain op.batch_alter_table() blocks (SQLite move-and-copy), followed by another migration
def _batch_script(recreate):
    return {"hist": [{"id": "a", "down": []}, {"id": "b", "down": ["a"]}, {"id": "c", "down": ["b"]}], "shape": "linear",
            "cmd": "upgrade", "start": [], "target": "heads",
            "bodies": {"a": _b([["ddl", "add", 0], ["dml", "add", 1]], [["dml", "del", 1], ["ddl", "del", 0]]),
                       "b": {"up": [oi.batch_seg(0, 0, "add", recreate), {"auto": False, "stmts": [["dml", "add", 3]]}],
                             "down": [{"auto": False, "stmts": [["dml", "del", 3]]}, oi.batch_seg(0, 0, "drop", recreate)]},
                       "c": _b([["ddl", "add", 2]], [["ddl", "del", 2]])}}


BATCH_SCRIPTS = [_batch_script("always"), dict(_batch_script("auto"), cmd="downgrade", start=["heads"], target="base"),
                 dict(_batch_script("always"), cmd="downgrade", start=["heads"], target="base"), _batch_script("auto")]


def fixed_scripts():
    out = []
    for s in FIXED_SCRIPTS:
        out.append(dict(s, all_kinds=True))
        out.append(dict(s, cmd="downgrade", start=["heads"], target="base", all_kinds=True))
    return out


# ------------------------------------------------------------------------------------------ multidb template
# templates/multidb/env.py (online): conn.begin() on every engine, configure + run_migrations per engine WITHOUT
# begin_transaction (the connection is in an external transaction: alembic must not commit), commit all at the end,
# `except: rollback all; raise`.  Per database this is the model's external-transaction regime.

def multidb_execute(scratch, cfg, script, rev_index, bases, engine_mode, fail):
    works = [os.path.join(scratch, "work_engine%d.sqlite" % (i + 1)) for i in range(2)]
    for b, w in zip(bases, works):
        shutil.copyfile(b, w)
        cfg.set_section_option("engine%d" % (works.index(w) + 1), "sqlalchemy.url", "sqlite:///" + w)
    res, orc = oi.run_command(cfg, script["bodies"], rev_index, script["cmd"], script["target"], engine_mode, fail)
    for f in ("engine1.sql", "engine2.sql"):
        if os.path.exists(f):  # pragma: no cover  (offline mode only)
            os.remove(f)
    return res, orc, [oi.observe(w, rev_index) for w in works]


def multidb_cases(ctx, script, engine_mode, scratch):
    hist = script["hist"]
    rev_index = {r["id"]: i for i, r in enumerate(hist)}
    parents = parents_of(hist, rev_index)
    bases = [prepare_base(scratch, script, rev_index, "base_engine%d.sqlite" % (i + 1)) for i in range(2)]
    if None in bases:
        ctx.hist("setup", "failed")
        return
    cfg = oi.make_script_dir(scratch, hist, None, template="multidb", name="multi")
    db0 = [oi.observe(b, rev_index) for b in bases]
    res, ref, fins = multidb_execute(scratch, cfg, script, rev_index, bases, engine_mode, None)
    ctx.evaluation()
    if res != "ok" or ref.unparsed:
        ctx.disagree("online.reference", {"script": script, "runner": "multidb"}, {"res": res, "unparsed": ref.unparsed},
                     {"raised": False}, note="multidb run without injected failure raised")
        return
    names = ["engine1", "engine2"]
    gsteps = [[g for g, st in enumerate(ref.steps) if st["engine"] == nm] for nm in names]
    plans = [build_plan([ref.steps[g] for g in gs], script["bodies"], rev_index) for gs in gsteps]
    config = {"engine": engine_mode, "tddl": None, "perMig": False, "external": True, "template": "multidb"}

    def base_inp(i):
        return {"mode": ENGINE_MODE[engine_mode], "tddl": bool(ref.tddl_seen), "perMig": False, "external": True,
                "pre": [{"k": "ddl", "a": ["cvt"]}] if not db0[i]["vt"] else [], "plan": plans[i],
                "db": {k: db0[i][k] for k in ("objs", "rows", "vt")}, "upgrade": script["cmd"] == "upgrade", "parents": parents}

    def meta(i, gfail):
        return {"runner": "multidb", "config": config, "script": script, "multi": {"db": i, "fail": gfail}}

    for i in range(2):
        yield dict(base_inp(i), fail=None), {"res": "ok", "final": fins[i], "eff": None}, meta(i, None)
    nonexc = ["keyboardInterrupt", "systemExit", "baseException"]
    for e in range(2):
        for k, g in enumerate(gsteps[e]):
            mig = plans[e][k]
            for pos in range(0, n_atoms(mig)):  # no hook in the shipped multidb env.py: not "after the version update"
                for kind in ("exception", nonexc[(g + pos) % 3]):
                    res, orc, fins = multidb_execute(scratch, cfg, script, rev_index, bases, engine_mode, (g, pos, kind))
                    ctx.evaluation()
                    if res == "ok":
                        ctx.disagree("online.run", {"script": script, "runner": "multidb", "fail": [g, pos, kind]}, {"res": res}, {"raised": True})
                        continue
                    for i in range(2):
                        if i == e:
                            f = {"k": k, "pos": pos, "kind": kind}
                            eff = [orc.step - gsteps[e][0], orc.pos]
                        elif i < e and plans[i]:
                            # this database ran all of its migrations; the caller then rolls it back: for the model
                            # that is a failure after the version update of its last migration
                            f = {"k": len(plans[i]) - 1, "pos": n_atoms(plans[i][-1]), "kind": kind}
                            eff = [f["k"], f["pos"]]
                        else:
                            # not reached (or nothing to do): only conn.begin() happened on it
                            same = {x: fins[i][x] for x in ("objs", "rows", "vt")} == {x: db0[i][x] for x in ("objs", "rows", "vt")}
                            ctx.hist("multidb_untouched_database", "unchanged" if same else "CHANGED")
                            if not same:
                                ctx.fail({"script": script, "runner": "multidb", "config": config, "multi": {"db": i, "fail": [g, pos, kind]}},
                                         "out-of-step: multidb: a database on which no migration ran was changed by the failed run",
                                         impl={"final": fins[i], "before": db0[i]}, tags=["untouched"])
                            continue
                        yield dict(base_inp(i), fail=f), {"res": res, "final": fins[i], "eff": eff}, meta(i, [g, pos, kind])


MULTIDB_SCRIPT = {
    "hist": [{"id": "a", "down": []}, {"id": "b", "down": ["a"]}], "shape": "linear", "cmd": "upgrade", "start": [], "target": "heads",
    "bodies": {"a": _b([["ddl", "add", 0], ["dml", "add", 1]], [["dml", "del", 1], ["ddl", "del", 0]]),
               "b": _b([["dml", "add", 3], ["ddl", "read", 0], ["ddl", "add", 2]], [["ddl", "del", 2], ["ddl", "read", 0], ["dml", "del", 3]])},
}


def multidb_battery(ctx, pending):
    for script in (MULTIDB_SCRIPT, dict(MULTIDB_SCRIPT, cmd="downgrade", start=["heads"], target="base")):
        for engine_mode in ("pysqlite", "recipe"):
            with oi.Scratch() as scratch:
                for case in multidb_cases(ctx, script, engine_mode, scratch):
                    pending.append(case)
                    ctx.hist("steps", len(case[0]["plan"]))


# ------------------------------------------------------------------------------------------ several configure() calls
# One env.py run that calls context.configure() once per database with DIFFERENT settings per call (hand-written env.py,
# harness/online_impl.py:TWODB_ENV).  EnvironmentContext.context_opts is shared by the calls: what one call passes must not
# change what a later call gets.  Every database is judged against ITS OWN settings; the flags the real contexts ended up
# with are compared with Model.Online.configureCall.

SETTINGS = [(None, False), (None, True), (True, False), (True, True)]
TWODB_SCRIPT = {
    "hist": [{"id": "a", "down": []}, {"id": "b", "down": ["a"]}], "shape": "linear", "cmd": "upgrade", "start": [], "target": "heads",
    "bodies": {"a": _b([["ddl", "add", 0], ["dml", "add", 1]], [["dml", "del", 1], ["ddl", "del", 0]]),
               "b": _b([["dml", "add", 3], ["ddl", "read", 0], ["ddl", "add", 2]], [["ddl", "del", 2], ["ddl", "read", 0], ["dml", "del", 3]])},
}


def settings_kw(st, pm_int=False):
    kw = {}
    if st[0] is not None:
        kw["transactional_ddl"] = st[0]
    if pm_int:
        kw["transaction_per_migration"] = int(bool(st[1]))  # 0 / 1, always passed
    elif st[1]:
        kw["transaction_per_migration"] = True
    return kw


ROUND_SHIFT = 50  # objects of round r are the script's objects + 2 * 50 * r
ROUND_NAMES = ["r1", "r2"]


def round_obs(path, rev_index, r):
    """the slice of a one-database observation that belongs to round r (its objects, its version table)"""
    o = oi.observe(path, rev_index, vt_name="alembic_version_" + ROUND_NAMES[r])
    lo, hi = 2 * ROUND_SHIFT * r, 2 * ROUND_SHIFT * (r + 1)
    return dict(o, objs=[e - lo for e in o["objs"] if lo <= e < hi])


def twodb_execute(scratch, cfg, script, rev_index, bases, engine_mode, calls, fail, pm_int=False, layout="twodb"):
    if layout == "rounds":
        # several configure()/begin_transaction()/run_migrations() rounds on ONE connection, one version table per round
        work = os.path.join(scratch, "work_rounds.sqlite")
        shutil.copyfile(bases[0], work)
        cfg.set_main_option("db.url", "sqlite:///" + work)
        cfg.attributes["verif_databases"] = [(ROUND_NAMES[i], settings_kw(st, pm_int)) for i, st in enumerate(calls)]
        res, orc = oi.run_command(cfg, script["bodies"], rev_index, script["cmd"], script["target"], engine_mode, fail,
                                  shifts={nm: ROUND_SHIFT * i for i, nm in enumerate(ROUND_NAMES)})
        return res, orc, [round_obs(work, rev_index, i) for i in range(2)]
    works = [os.path.join(scratch, "work_db%d.sqlite" % (i + 1)) for i in range(2)]
    for i, (b, w) in enumerate(zip(bases, works)):
        shutil.copyfile(b, w)
        cfg.set_main_option("db%d.url" % (i + 1), "sqlite:///" + w)
    cfg.attributes["verif_databases"] = [("db%d" % (i + 1), settings_kw(st, pm_int)) for i, st in enumerate(calls)]
    res, orc = oi.run_command(cfg, script["bodies"], rev_index, script["cmd"], script["target"], engine_mode, fail)
    return res, orc, [oi.observe(w, rev_index) for w in works]


def twodb_cases(ctx, script, engine_mode, calls, scratch, cfg, bases, all_positions, kinds_for, pm_int=False, layout="twodb"):
    hist = script["hist"]
    rev_index = {r["id"]: i for i, r in enumerate(hist)}
    parents = parents_of(hist, rev_index)
    if layout == "rounds":
        db0 = [round_obs(bases[0], rev_index, i) for i in range(2)]
        names = ROUND_NAMES
    else:
        db0 = [oi.observe(b, rev_index) for b in bases]
        names = ["db1", "db2"]
    res, ref, fins = twodb_execute(scratch, cfg, script, rev_index, bases, engine_mode, calls, None, pm_int, layout)
    ctx.evaluation()
    config = {"engine": engine_mode, "calls": [list(c) for c in calls], "template": layout, "pm_int": pm_int}
    if layout == "rounds" and db0[0]["rows"]:
        config["first_round_up_to_date"] = True
    if res != "ok" or ref.unparsed:
        ctx.disagree("online.reference", {"script": script, "runner": layout, "config": config}, {"res": res, "unparsed": ref.unparsed},
                     {"raised": False}, note="two-database run without injected failure raised")
        return
    gsteps = [[g for g, st in enumerate(ref.steps) if st["engine"] == nm] for nm in names]
    plans = [build_plan([ref.steps[g] for g in gs], script["bodies"], rev_index) for gs in gsteps]
    # the flags the real contexts got, against the model of configure()
    seen = [ref.steps[gs[0]]["seen"] if gs else None for gs in gsteps]
    eff = ctx.drv.ask1({"op": "online.configure", "dialectDefault": False, "calls": [list(c) for c in calls]}).get("effective")
    for i in range(2):
        if seen[i] is not None and seen[i][:2] != eff[i]:
            ctx.disagree("online.configure", {"runner": layout, "config": config, "db": i}, {"flags_of_real_context": seen[i]},
                         {"flags": eff[i]}, note="settings reaching the MigrationContext of a later configure() call")
    own = [[bool(c[0]) if c[0] is not None else False, bool(c[1])] for c in calls]

    def base_inp(i, flags):
        # the model mirrors the flags the real context had; an "external" transaction that no caller owns (an earlier
        # round on the same connection left it open, finding C04-F2) is never committed: orphan
        ext = bool(flags[2]) if len(flags) > 2 else False
        return {"mode": ENGINE_MODE[engine_mode], "tddl": flags[0], "perMig": flags[1], "external": ext, "orphan": ext,
                "pre": [{"k": "ddl", "a": ["cvt"]}] if not db0[i]["vt"] else [], "plan": plans[i],
                "db": {k: db0[i][k] for k in ("objs", "rows", "vt")}, "upgrade": script["cmd"] == "upgrade", "parents": parents}

    def meta(i, gfail, flags):
        return {"runner": layout, "config": config, "script": script,
                "multi": {"db": i, "fail": gfail, "own": own[i], "seen": flags},
                "spec_cfg": {"tddl": own[i][0], "perMig": own[i][1], "external": False, "orphan": False}}

    for i in range(2):
        if seen[i] is not None:
            yield dict(base_inp(i, seen[i]), fail=None), {"res": "ok", "final": fins[i], "eff": None}, meta(i, None, seen[i])
    for e in range(2):
        for k, g in enumerate(gsteps[e]):
            mig = plans[e][k]
            for pos in range(0, n_atoms(mig) + 1):
                if not all_positions and not (e == 1 and k >= 1) and pos != 1:
                    continue  # quick: every position of the later migrations on the later database, a sample elsewhere
                for kind in kinds_for(g, pos):
                    res, orc, fins = twodb_execute(scratch, cfg, script, rev_index, bases, engine_mode, calls, (g, pos, kind), pm_int, layout)
                    ctx.evaluation()
                    if res == "ok":
                        ctx.disagree("online.run", {"script": script, "runner": layout, "config": config, "fail": [g, pos, kind]}, {"res": res}, {"raised": True})
                        continue
                    flags_e = orc.steps[gsteps[e][0]]["seen"] if len(orc.steps) > gsteps[e][0] else seen[e]
                    for i in range(2):
                        if i == e:
                            yield (dict(base_inp(i, flags_e), fail={"k": k, "pos": pos, "kind": kind}),
                                   {"res": res, "final": fins[i], "eff": [orc.step - gsteps[e][0], orc.pos]}, meta(i, [g, pos, kind], flags_e))
                        elif i < e and seen[i] is not None:
                            # migrated completely and committed by its own context before the other database failed
                            yield dict(base_inp(i, seen[i]), fail=None), {"res": "ok", "final": fins[i], "eff": None}, meta(i, [g, pos, kind], seen[i])
                        else:
                            same = {x: fins[i][x] for x in ("objs", "rows", "vt")} == {x: db0[i][x] for x in ("objs", "rows", "vt")}
                            ctx.hist("twodb_untouched_database", "unchanged" if same else "CHANGED")
                            if not same:
                                ctx.fail({"script": script, "runner": layout, "config": config, "multi": {"db": i, "fail": [g, pos, kind]}},
                                         "out-of-step: two databases: a database on which no migration ran was changed by the failed run",
                                         impl={"final": fins[i], "before": db0[i]}, tags=["untouched"])


def twodb_battery(ctx, pending, thorough):
    nonexc = ["keyboardInterrupt", "systemExit", "baseException"]
    scripts = [TWODB_SCRIPT] + ([dict(TWODB_SCRIPT, cmd="downgrade", start=["heads"], target="base")] if thorough else [])
    for script in scripts:
        rev_index = {r["id"]: i for i, r in enumerate(script["hist"])}
        with oi.Scratch() as scratch:
            bases = [prepare_base(scratch, script, rev_index, "base_db%d.sqlite" % (i + 1)) for i in range(2)]
            if None in bases:
                ctx.hist("setup", "failed")
                continue
            cfg = oi.make_twodb_dir(scratch, script["hist"])
            n = 0
            for engine_mode in ("recipe", "pysqlite"):
                for c1 in SETTINGS:
                    for c2 in SETTINGS:
                        n += 1
                        if not thorough and engine_mode == "pysqlite" and c1[0] == c2[0]:
                            continue  # quick: on pysqlite only the pairs whose transactional_ddl arguments differ
                        if not thorough and engine_mode == "recipe" and c1 == c2:
                            continue  # quick: identical settings in both calls are left to the one-connection rounds below
                        if thorough:
                            kinds_for = lambda g, pos: ["exception"] + nonexc
                        else:
                            kinds_for = lambda g, pos, n=n: ["exception"] if (g + pos + n) % 3 else ["exception", nonexc[(g + pos + n) % 9 // 3]]
                        for case in twodb_cases(ctx, script, engine_mode, (c1, c2), scratch, cfg, bases, thorough, kinds_for, pm_int=n % 2 == 1):
                            pending.append(case)
                            ctx.hist("steps", len(case[0]["plan"]))
                            ctx.hist("configure() pairs (own settings db1 -> db2)", "%s -> %s" % (c1, c2))


def rounds_battery(ctx, pending, thorough):
    """several configure()/begin_transaction()/run_migrations() rounds on ONE connection (one version table and disjoint
    objects per round), no caller-owned transaction; every round is judged on its own slice of the fresh-connection
    observation against its own settings.  Pairs (transactional_ddl=True -> not given) are left to the two-database
    battery (known finding C04-F1 lives there)."""
    nonexc = ["keyboardInterrupt", "systemExit", "baseException"]
    script = TWODB_SCRIPT
    rev_index = {r["id"]: i for i, r in enumerate(script["hist"])}
    with oi.Scratch() as scratch:
        base = oi.new_db(scratch, "base_rounds.sqlite")
        cfg = oi.make_twodb_dir(scratch, script["hist"], layout="rounds")
        n = 0
        for engine_mode in ("recipe", "pysqlite"):
            for c1 in SETTINGS:
                for c2 in SETTINGS:
                    n += 1
                    if c1[0] is True and c2[0] is None:
                        continue
                    if not thorough and not (c1 == c2 or (engine_mode == "recipe" and n % 3 == 0)):
                        continue
                    if thorough:
                        kinds_for = lambda g, pos: ["exception"] + nonexc
                    else:
                        kinds_for = lambda g, pos, n=n: ["exception"] if (g + pos + n) % 3 else ["exception", nonexc[(g + pos + n) % 9 // 3]]
                    for case in twodb_cases(ctx, script, engine_mode, (c1, c2), scratch, cfg, [base, base], thorough, kinds_for,
                                            pm_int=n % 2 == 0, layout="rounds"):
                        pending.append(case)
                        ctx.hist("steps", len(case[0]["plan"]))
                        ctx.hist("configure() rounds on one connection (own settings r1 -> r2)", "%s -> %s" % (c1, c2))
        # a tenant that is ALREADY UP TO DATE (round r1 has nothing to do) before a tenant that has migrations to apply
        base_done = rounds_base_r1_done(scratch, cfg, script, rev_index, base)
        n = 0
        for engine_mode in ("pysqlite", "recipe"):
            for c1 in SETTINGS:
                for c2 in SETTINGS:
                    n += 1
                    if c1[0] is True and c2[0] is None:
                        continue
                    if not thorough and not (c1 == c2 and c1[0] is None):
                        continue
                    kinds_for = (lambda g, pos: ["exception"] + nonexc) if thorough else (lambda g, pos: ["exception"])
                    for case in twodb_cases(ctx, script, engine_mode, (c1, c2), scratch, cfg, [base_done, base_done], thorough, kinds_for,
                                            pm_int=n % 2 == 0, layout="rounds"):
                        pending.append(case)
                        ctx.hist("steps", len(case[0]["plan"]))
                        ctx.hist("rounds: up-to-date round before a round with migrations (own settings r1 -> r2)", "%s -> %s" % (c1, c2))


def rounds_base_r1_done(scratch, cfg, script, rev_index, base):
    """a database on which round r1 (its version table, its objects) is already at heads: r1 run alone, real code"""
    done = os.path.join(scratch, "base_rounds_r1_done.sqlite")
    shutil.copyfile(base, done)
    cfg.set_main_option("db.url", "sqlite:///" + done)
    cfg.attributes["verif_databases"] = [(ROUND_NAMES[0], {})]
    res, _ = oi.run_command(cfg, script["bodies"], rev_index, script["cmd"], script["target"], "pysqlite", None,
                            shifts={ROUND_NAMES[0]: 0})
    assert res == "ok", res
    return done


# ------------------------------------------------------------------------------------------ offline (--sql) stream
# The emitted script is what a user applies later.  Oracle: (1) a migration that raises makes the command fail (the
# exception propagates); (2) the script emitted up to then, applied statement by statement to a database in the start state,
# leaves a version table / schema that Spec.Online.check accepts for the configured settings (rows at a migration boundary,
# failed revision never named / never dropped, exact state with transactional DDL, rows = completed migrations without).

def has_batch(script):
    return any(seg.get("batch") for b in script["bodies"].values() for d in b.values() for seg in d)


def offline_cases(ctx, script, configs, scratch, runner="offline"):
    hist = script["hist"]
    rev_index = {r["id"]: i for i, r in enumerate(hist)}
    ids = [r["id"] for r in hist]
    parents = parents_of(hist, rev_index)
    base = prepare_base(scratch, script, rev_index, "base_off.sqlite")
    if base is None:
        ctx.hist("setup", "failed")
        return
    db0 = oi.observe(base, rev_index)
    start_rows = [ids[i] for i in db0["rows"]]
    work = os.path.join(scratch, "work_off.sqlite")
    cfg_obj = None
    if runner == "command-sql":
        cfg_obj = oi.make_script_dir(scratch, hist, base, name="scripts_sql")

    def execute(config, fail):
        import io

        if runner == "offline":
            res, orc, text = oi.run_offline(hist, script["bodies"], rev_index, script["cmd"], script["target"], config, fail, start_rows)
        else:
            cfg_obj.output_buffer = io.StringIO()
            tgt = script["target"]
            res, orc = oi.run_command(cfg_obj, script["bodies"], rev_index, script["cmd"], tgt, "pysqlite", fail, sql=True)
            text = cfg_obj.output_buffer.getvalue()
        shutil.copyfile(base, work)
        errors = oi.apply_script(work, text)
        return res, orc, text, errors, oi.observe(work, rev_index)

    for cfg_no, config in enumerate(configs):
        res, ref, text, errors, fin = execute(config, None)
        ctx.evaluation()
        if res != "ok":
            ctx.hist("reference_run", "offline " + res)
            if res not in PLAN_ERRORS:
                ctx.disagree("offline.reference", {"script": script, "config": config, "runner": runner}, {"res": res}, {"raised": False},
                             note="offline run without injected failure raised")
            continue
        if errors:
            ctx.disagree("offline.replay", {"script": script, "config": config, "runner": runner}, {"sql_errors": errors[:3]}, None,
                         note="the emitted script of a run without failure does not apply")
            continue
        # version statements of each step, from the emitted script
        steps = [dict(st, vstmts=[]) for st in ref.steps]
        bad = []
        for k, st in oi.split_script(text):
            if "alembic_version" in st and st.split(None, 1)[0].upper() in ("INSERT", "UPDATE", "DELETE") and 0 <= k < len(steps):
                v = oi.parse_version_stmt(st, rev_index)
                (steps[k]["vstmts"].append(v) if v is not None else bad.append(st))
        if bad:
            ctx.disagree("online.parse", {"script": script, "config": config, "runner": runner}, {"unparsed": bad[:3]}, None)
            continue
        plan = build_plan(steps, script["bodies"], rev_index)
        tddl = bool(ref.tddl_seen)
        base_inp = {"mode": "transactional" if tddl else "pysqlite", "tddl": tddl, "perMig": bool(config["perMig"]), "external": False,
                    "pre": [{"k": "ddl", "a": ["cvt"]}] if not db0["vt"] else [], "plan": plan,
                    "db": {k: db0[k] for k in ("objs", "rows", "vt")}, "upgrade": script["cmd"] == "upgrade", "parents": parents, "shape": "stock"}
        meta = {"runner": runner, "config": config, "script": script, "spec_only": True}
        nonexc = ["keyboardInterrupt", "systemExit", "baseException"]
        for k, mig in enumerate(plan):
            nb = n_atoms(mig) - len(mig["vstmts"])
            # body positions (before each atom: outside and inside autocommit blocks) and, in-process, the on_version_apply
            # hook = "after the version update".  Offline no cursor event exists for the version statements, so the oracle's
            # counter stands at nb when the hook runs and there is no position between body and version update.
            positions = list(range(0, nb)) + ([n_atoms(mig)] if runner == "offline" else [])
            for pos in positions:
                for kind in ("exception", nonexc[(k + pos + cfg_no) % 3]):
                    opos = nb if pos == n_atoms(mig) else pos
                    res, orc, text, errors, fin = execute(config, (k, opos, kind))
                    ctx.evaluation()
                    rec = {"script": script, "config": config, "runner": runner, "fail": [k, pos, kind]}
                    if orc.fired is None:
                        ctx.hist("offline_failure_not_reached", "%s" % runner)
                        continue
                    if res == "ok":
                        ctx.fail(dict(rec, input=dict(base_inp, fail={"k": k, "pos": pos, "kind": kind})),
                                 "swallowed: a migration raised in --sql mode but the command completed without error",
                                 impl={"res": res, "script_tail": text[-600:]}, tags=["swallowed"])
                    if errors:
                        ctx.disagree("offline.replay", rec, {"sql_errors": errors[:3], "res": res}, None,
                                     note="the emitted script does not apply statement by statement")
                        continue
                    jk, jpos, jres = k, pos, (res if res != "ok" else "boom")
                    if pos == n_atoms(mig) and not tddl:
                        # without transactional DDL an offline script has no transaction framing: when the hook raises, all
                        # statements of migration k AND its version statement are already in the script, i.e. for the script
                        # migration k is complete and recorded; the failure is judged as one before the next migration
                        # (or, after the last migration, as a complete run)
                        ctx.hist("offline_hook_failure_without_tddl", "judged as failure before the next migration")
                        if k + 1 < len(plan):
                            jk, jpos = k + 1, 0
                        else:
                            yield dict(base_inp, fail=None), {"res": "ok", "final": fin, "eff": None}, meta
                            continue
                    yield (dict(base_inp, fail={"k": jk, "pos": jpos, "kind": kind}),
                           {"res": jres, "final": fin, "eff": [jk, jpos]}, meta)


def offline_battery(ctx, pending, script, configs, runner):
    if has_batch(script):
        return  # batch_alter_table needs reflection: not available in --sql mode
    with oi.Scratch() as scratch:
        for case in offline_cases(ctx, script, configs, scratch, runner):
            pending.append(case)
            ctx.hist("steps", len(case[0]["plan"]))


OFFLINE_CFGS = [{"engine": "offline", "tddl": t, "perMig": pm, "external": False} for t in (None, True) for pm in (False, True)]


class _Stub:
    """what run_script needs from a Ctx, collected in a worker process and merged by the parent"""

    def __init__(self, thorough):
        from ..core import Driver

        self.drv = Driver(DRIVER)
        self.thorough = thorough
        self.evaluations = 0
        self.hists = []
        self.disagreements = []
        self.failures = []

    def evaluation(self, n=1):
        self.evaluations += n

    def hist(self, name, key, n=1):
        self.hists.append((name, str(key), n))

    def disagree(self, op, input, impl, model, note=""):
        self.disagreements.append({"op": op, "input": input, "impl": impl, "model": model, "note": note})

    def fail(self, input, what, impl=None, tags=()):
        self.failures.append({"input": input, "what": what, "impl": impl, "tags": list(tags)})


def _work(job):
    import warnings

    warnings.filterwarnings("ignore", message="downgrade -1 from multiple heads")
    script, configs, runner, thorough = job
    stub = _Stub(thorough)
    pending = []
    if runner in ("offline", "command-sql"):
        offline_battery(stub, pending, script, configs, runner)
    elif runner == "multidb":
        multidb_battery(stub, pending)
    elif runner == "twodb":
        twodb_battery(stub, pending, thorough)
    elif runner == "rounds":
        rounds_battery(stub, pending, thorough)
    else:
        run_script(stub, script, configs, pending, runner, flush=False)
    return pending, stub.evaluations, stub.hists, stub.disagreements, stub.failures


def run_jobs(ctx, jobs, pending):
    """jobs: (script, configs, runner).  Thorough tier: a process pool (the cases are independent: own scratch dir,
    own database file); results are merged and judged in job order, so the outcome does not depend on scheduling."""
    import warnings

    warnings.filterwarnings("ignore", message="downgrade -1 from multiple heads")
    jobs = [(s, c, r, ctx.thorough) for s, c, r in jobs]
    nproc = min(16, os.cpu_count() or 1, len(jobs)) if ctx.thorough else 1
    if nproc > 1:
        import multiprocessing as mp

        with mp.get_context("fork").Pool(nproc) as pool:
            results = pool.imap(_work, jobs, chunksize=1)
            for res in results:
                _merge(ctx, res, pending)
    else:
        for job in jobs:
            _merge(ctx, _work(job), pending)


def _merge(ctx, res, pending):
    cases, n_eval, hists, disagreements, failures = res
    ctx.failures.extend(failures)
    ctx.evaluation(n_eval)
    for name, key, n in hists:
        ctx.hist(name, key, n)
    ctx.disagreements.extend(disagreements)
    pending.extend(cases)
    if len(pending) > 3000:
        judge(ctx, pending)


KINDS = [("ddl", False), ("dml", False), ("ddl", True), ("dml", True)]


def exhaustive_scripts(max_len=2):
    """linear history a <- b; every body of <= max_len statements, each statement DDL or DML, alone in a plain
    segment or alone in an autocommit block; upgrade from base and downgrade to base"""
    import itertools

    def bodies():
        for n in range(max_len + 1):
            for combo in itertools.product(KINDS, repeat=n):
                yield combo

    def mk(combo, t0):
        up = []
        objs = []
        for i, (kind, auto) in enumerate(combo):
            e = 2 * (t0 + i) if kind == "ddl" else 2 * (t0 + i) + 1
            up.append({"auto": auto, "stmts": [[kind, "add", e]]})
            objs.append((kind, auto, e))
        down = [{"auto": auto, "stmts": [[kind, "del", e]]} for kind, auto, e in reversed(objs)]
        return {"up": up, "down": down}

    hist = [{"id": "a", "down": []}, {"id": "b", "down": ["a"]}]
    for ba in bodies():
        for bb in bodies():
            b = {"a": mk(ba, 0), "b": mk(bb, 10)}
            yield {"hist": hist, "shape": "linear", "cmd": "upgrade", "start": [], "target": "heads", "bodies": b}
            yield {"hist": hist, "shape": "linear", "cmd": "downgrade", "start": ["heads"], "target": "base", "bodies": b}


def run(ctx, n_scripts=None, rng_name="main"):
    rng = ctx.rng(rng_name)
    n = n_scripts if n_scripts is not None else (1000 if ctx.thorough else 5)
    pending = []
    fixed = fixed_scripts()
    jobs = []
    for s in fixed:
        jobs.append((s, all_configs(rng, True), "inprocess"))
    # the shipped env.py through alembic.command.*: pysqlite default and the recipe installed on Engine
    cmd_cfgs = [{"engine": "pysqlite", "tddl": None, "perMig": False, "external": False},
                {"engine": "recipe", "tddl": None, "perMig": False, "external": False}]
    for s in fixed:
        jobs.append((s, cmd_cfgs, "command"))
    # the settings of the property given the way a user gives them: in env.py's context.configure(...) (the shipped
    # generic env.py with that one call extended; reaches EnvironmentContext.configure's option plumbing and makes
    # the "after the version update" position - an on_version_apply hook - reachable on the command path)
    env_cfgs = [{"engine": e, "tddl": t, "perMig": pm, "external": False, "env": "patched"}
                for e in ("pysqlite", "recipe") for t in (None, True) for pm in (False, True)]
    jobs.append((dict(fixed[0], all_kinds=False), env_cfgs if ctx.thorough else env_cfgs[::2] + env_cfgs[7:], "command"))
    jobs.append((dict(fixed[1], all_kinds=False), env_cfgs[1::2] if not ctx.thorough else env_cfgs, "command"))
    # env.py variants on the command path (patched generic env.py): every non-stock shape x a sample of the settings
    # (all settings in the thorough tier) x every failure position
    shape_cfgs = []
    for sh in SHAPES[1:]:
        for c in (env_cfgs if ctx.thorough else [env_cfgs[0], env_cfgs[1], env_cfgs[6], env_cfgs[7]]):
            if shape_ok(c, sh):
                shape_cfgs.append(dict(c, shape=sh))
    jobs.append((dict(fixed[0], all_kinds=False), shape_cfgs if ctx.thorough else shape_cfgs[::3], "command"))
    jobs.append((dict(fixed[2], all_kinds=False), shape_cfgs, "command"))  # a script without autocommit blocks
    # several run_migrations() calls inside one begin_transaction() block, through the real EnvironmentContext; the failing
    # migration may be in the first or in a later call
    two = env_cfgs if ctx.thorough else [env_cfgs[6], env_cfgs[2], env_cfgs[7], env_cfgs[0]]
    for s, phases in ((fixed[2], ["m", "heads"]), (fixed[3], ["m", "base"]), (fixed[0], ["b", "heads"])):
        jobs.append((dict(s, all_kinds=False), [dict(c, shape="two_calls", phases=phases) for c in (two if s is not fixed[0] else two[:2])],
                     "command"))
    # failures raised by alembic itself inside the version update (rowcount check), every configuration
    for s in SABOTAGE_SCRIPTS:
        jobs.append((s, all_configs(rng, True), "inprocess"))
        jobs.append((s, cmd_cfgs + env_cfgs[3:4], "command"))
    # batch_alter_table blocks in the bodies: all four (transactional_ddl, transaction_per_migration) settings x both engines,
    # a sample of the external-transaction configs, every position (also between the statements of the block)
    base_cfgs = all_configs(rng, True)
    nonext = [c for c in base_cfgs if not c["external"]]
    both = [c for c in nonext if c["tddl"] and c["perMig"]]
    for n_b, s in enumerate(BATCH_SCRIPTS):
        if ctx.thorough:
            jobs.append((s, base_cfgs, "inprocess"))
        elif n_b == 0:
            jobs.append((s, nonext + [c for c in base_cfgs if c["external"]][::4], "inprocess"))
        elif n_b == 1:
            jobs.append((s, both + [nonext[0], nonext[6]], "inprocess"))
        else:
            jobs.append((s, both, "inprocess"))
    jobs.append((BATCH_SCRIPTS[0], [env_cfgs[7]] + ([env_cfgs[3]] if ctx.thorough else []), "command"))
    # histories with depends_on
    plain_cfgs = [c for c in all_configs(rng, True) if not c["external"]]
    for s in DEPS_SCRIPTS:
        jobs.append((s, plain_cfgs if ctx.thorough else plain_cfgs[::2] + plain_cfgs[7:], "inprocess"))
    jobs.append((DEPS_SCRIPTS[0], cmd_cfgs[:1], "command"))
    for i in range(n):
        script = gen_script(rng, 4 if not ctx.thorough else 6)
        jobs.append((script, with_shapes(all_configs(rng, ctx.thorough), i), "inprocess"))
        jobs.append((script, OFFLINE_CFGS if ctx.thorough else OFFLINE_CFGS[i % 4:i % 4 + 1] + OFFLINE_CFGS[(i + 3) % 4:(i + 3) % 4 + 1], "offline"))
        if i % 4 == 0:
            jobs.append((script, cmd_cfgs + [env_cfgs[(i // 4) % len(env_cfgs)]], "command"))
    # offline (--sql) stream: failures in the body, outside and inside autocommit blocks, and in the hook
    for s in fixed[:2]:
        jobs.append((s, OFFLINE_CFGS, "offline"))
    jobs.append((fixed[0], OFFLINE_CFGS[:1], "command-sql"))
    jobs.append(("multidb", None, "multidb"))
    jobs.append(("twodb", None, "twodb"))
    jobs.append(("rounds", None, "rounds"))
    if ctx.thorough and rng_name == "main":
        n_ex = 0
        for script in exhaustive_scripts(2):
            jobs.append((script, all_configs(rng, True), "inprocess"))
            n_ex += 1
        ctx.note("thorough tier: additionally ALL %d scripts over the linear history a<-b whose bodies have <=2 statements "
                 "(each DDL or DML, plain or in an autocommit block), upgrade and downgrade, x 16 configurations x every "
                 "failure position: this small domain is enumerated exhaustively" % n_ex)
    jobs = [(s_, with_pm_spelling(c_, n_) if isinstance(c_, list) else c_, r_) for n_, (s_, c_, r_) in enumerate(jobs)]
    run_jobs(ctx, jobs, pending)
    judge(ctx, pending)
    ctx.exhaustive = False
    ctx.extra["anchored_source_fingerprints"] = fingerprints()
    ctx.note("failure positions are enumerated exhaustively for every generated script and configuration; scripts are sampled")


def fingerprints():
    """sha1 of the source of the anchored functions (information only; a change is never a violation by itself)"""
    import hashlib
    import inspect

    from alembic.runtime import migration as M
    from alembic.util import sqla_compat as C

    out = {}
    for name, obj in [
        ("MigrationContext.begin_transaction", M.MigrationContext.begin_transaction),
        ("MigrationContext.run_migrations", M.MigrationContext.run_migrations),
        ("MigrationContext.autocommit_block", M.MigrationContext.autocommit_block),
        ("_ProxyTransaction.__exit__", M._ProxyTransaction.__exit__),
        ("HeadMaintainer.update_to_step", M.HeadMaintainer.update_to_step),
        ("sqla_compat._safe_begin_connection_transaction", C._safe_begin_connection_transaction),
        ("sqla_compat._ensure_scope_for_ddl", C._ensure_scope_for_ddl),
    ]:
        try:
            out[name] = hashlib.sha1(inspect.getsource(obj).encode()).hexdigest()[:12]
        except Exception as e:  # pragma: no cover
            out[name] = "unavailable: %r" % (e,)
    return out


def search(ctx):
    run(ctx, n_scripts=60, rng_name="search")


def check_witness(ctx, finding):
    """replays the witness of a known finding on the real code; returns what fails (None = no longer reproduces)"""
    if finding["id"] == "C04-F2":
        return check_witness_f2(ctx, finding)
    if finding["id"] != "C04-F1":
        return None
    w = finding["witness"]
    script = TWODB_SCRIPT
    rev_index = {r["id"]: i for i, r in enumerate(script["hist"])}
    calls = [tuple(c) for c in w["calls"]]
    with oi.Scratch() as scratch:
        bases = [prepare_base(scratch, script, rev_index, "base_db%d.sqlite" % (i + 1)) for i in range(2)]
        cfg = oi.make_twodb_dir(scratch, script["hist"])
        res, orc, fins = twodb_execute(scratch, cfg, script, rev_index, bases, w["engine"], calls, tuple(w["fail"]))
    seen = orc.steps[-1].get("seen") if orc.steps else None
    if res != "ok" and seen and seen[:2] == [True, False] and fins[1]["rows"] == [] and 0 in fins[1]["objs"]:
        return ("db2 was configured without transactional_ddl but its context has transactional_ddl=True (inherited from db1's "
                "configure() call): after the failure revision a's table exists and alembic_version is empty")
    return None


def classify_f2(failure):
    """C04-F2 only: layout `rounds`, the judged round is the second one, the round before it had NOTHING to do (its version table
    was already at heads), the real context of the judged round shows _in_external_transaction=True although no caller owns a
    transaction, and the outcome is exactly "applied but not recorded": that round's version table holds no row."""
    i = failure.get("input") or {}
    if i.get("runner") != "rounds" or "multi" not in i or not (i.get("config") or {}).get("first_round_up_to_date"):
        return None
    m = i["multi"]
    fin = ((failure.get("impl") or {}).get("final") or {})
    shape_ok_ = failure.get("what", "").startswith("incomplete") or (failure.get("tags") and set(failure["tags"]) <= {"nonTxnOk", "perMigOk"})
    if m.get("db") == 1 and len(m.get("seen") or []) > 2 and m["seen"][2] is True and m["seen"][:2] == m.get("own") and shape_ok_ \
            and fin.get("rows") == []:
        return "C04-F2"
    return None


def check_witness_f2(ctx, finding):
    w = finding["witness"]
    script = TWODB_SCRIPT
    rev_index = {r["id"]: i for i, r in enumerate(script["hist"])}
    with oi.Scratch() as scratch:
        base = oi.new_db(scratch, "base_rounds.sqlite")
        cfg = oi.make_twodb_dir(scratch, script["hist"], layout="rounds")
        done = rounds_base_r1_done(scratch, cfg, script, rev_index, base)
        res, orc, fins = twodb_execute(scratch, cfg, script, rev_index, [done, done], w["engine"], [tuple(c) for c in w["calls"]], None,
                                       False, "rounds")
    seen = orc.steps[-1].get("seen") if orc.steps else None
    if res == "ok" and seen and seen[2] is True and fins[1]["rows"] == [] and fins[1]["objs"]:
        return ("round r1 had nothing to do; round r2 ran both migrations (its tables exist) with _in_external_transaction=True and its "
                "version table is empty after the connection was closed")
    return None


def classify(failure):
    f2 = classify_f2(failure)
    if f2:
        return f2
    """C04-F1 only: the later database, its own call did not pass transactional_ddl, the earlier call passed True, the real
    context shows exactly that leak (and no other flag differs from the call's own settings), and only the clauses that
    depend on transactional_ddl being false are violated."""
    i = failure.get("input") or {}
    if i.get("runner") != "twodb" or "multi" not in i:
        return None
    m, calls = i["multi"], i["config"]["calls"]
    if (m.get("db") == 1 and calls[1][0] is None and calls[0][0] is True and m.get("own") == [False, bool(calls[1][1])]
            and (m.get("seen") or [])[:2] == [True, bool(calls[1][1])] and failure.get("tags") and set(failure["tags"]) <= {"nonTxnOk", "perMigOk"}):
        return "C04-F1"
    return None


def replay(ctx, case):
    rec = case["input"]
    script, config = rec["script"], rec["config"]
    rev_index = {r["id"]: i for i, r in enumerate(script["hist"])}
    out = {}
    if rec.get("runner") in ("twodb", "rounds"):
        multi = rec["multi"]
        layout = rec["runner"]
        with oi.Scratch() as scratch:
            if layout == "rounds":
                bases = [oi.new_db(scratch, "base_rounds.sqlite")] * 2
            else:
                bases = [prepare_base(scratch, script, rev_index, "base_db%d.sqlite" % (i + 1)) for i in range(2)]
            cfg = oi.make_twodb_dir(scratch, script["hist"], layout=layout)
            f = tuple(multi["fail"]) if multi.get("fail") else None
            res, orc, fins = twodb_execute(scratch, cfg, script, rev_index, bases, config["engine"], [tuple(c) for c in config["calls"]], f,
                                           bool(config.get("pm_int")), layout)
        fin = fins[multi["db"]]
        out["impl"] = {"res": res, "final_db1": fins[0], "final_db2": fins[1], "failed_at_global_step": [orc.step, orc.pos],
                       "flags_of_real_contexts_per_step": [st.get("seen") for st in orc.steps], "database_judged": multi["db"],
                       "own_settings": multi.get("own")}
        if "input" in rec:
            inp = rec["input"]
            out["model"] = ctx.drv.ask1({"op": "online.run", **inp})
            out["spec_against_own_settings"] = ctx.drv.ask1({"op": "online.spec", **dict(inp, tddl=multi["own"][0], perMig=multi["own"][1]),
                                                            "final": {k: fin[k] for k in ("objs", "rows", "vt")}})
        return out
    if rec.get("runner") == "multidb":
        multi = rec["multi"]
        with oi.Scratch() as scratch:
            bases = [prepare_base(scratch, script, rev_index, "base_engine%d.sqlite" % (i + 1)) for i in range(2)]
            cfg = oi.make_script_dir(scratch, script["hist"], None, template="multidb", name="multi")
            f = tuple(multi["fail"]) if multi.get("fail") else None
            res, orc, fins = multidb_execute(scratch, cfg, script, rev_index, bases, config["engine"], f)
        out["impl"] = {"res": res, "final_engine1": fins[0], "final_engine2": fins[1], "failed_at_global_step": [orc.step, orc.pos],
                       "database_judged": multi["db"]}
        fin = fins[multi["db"]]
        if "input" in rec:
            inp = rec["input"]
            out["model"] = ctx.drv.ask1({"op": "online.run", **inp})
            out["spec"] = ctx.drv.ask1({"op": "online.spec", **inp, "final": {k: fin[k] for k in ("objs", "rows", "vt")}})
        return out
    inp = rec["input"]
    with oi.Scratch() as scratch:
        base = prepare_base(scratch, script, rev_index)
        fail = (inp["fail"]["k"], inp["fail"]["pos"], inp["fail"].get("kind", "exception")) if inp.get("fail") else None
        if script.get("self_failure") and fail is not None and fail[1] >= n_atoms(inp["plan"][fail[0]]) and fail[2] == "exception":
            fail = None  # the failure is alembic's own rowcount check, nothing is injected
        if rec.get("runner") == "command":
            patched = config.get("env") == "patched"
            cfg_obj = oi.make_script_dir(scratch, script["hist"], base, patch_env=patched)
            kw = None
            if patched:
                kw = {"transaction_per_migration": oi.pm_value(config)}
                if config.get("tddl") is not None:
                    kw["transactional_ddl"] = config["tddl"]
            res, orc = oi.run_command(cfg_obj, script["bodies"], rev_index, script["cmd"], script["target"], config["engine"], fail,
                                      configure_kw=kw, hook=patched, shape=config.get("shape", "stock") if patched else "stock",
                                      phases=config.get("phases") if patched else None)
        else:
            res, orc = oi.run_inprocess(base, script["hist"], script["bodies"], rev_index, script["cmd"], script["target"], config, fail)
        fin = oi.observe(base, rev_index)
    out["impl"] = {"res": res, "final": fin, "failed_at": [orc.step, orc.pos]}
    out["model"] = ctx.drv.ask1({"op": "online.run", **inp})
    f = {"k": orc.step, "pos": orc.pos, "kind": (inp.get("fail") or {}).get("kind", "exception")} if res != "ok" else None
    out["spec"] = ctx.drv.ask1({"op": "online.spec", **inp, "fail": f, "final": {k: fin[k] for k in ("objs", "rows", "vt")}})
    return out
