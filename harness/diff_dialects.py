"""Dialect-level stream of C07 (needs no live database): the real `impl.compare_type` of every
DDL impl on Column pairs drawn from a type-family table, against the Lean model of
`_tokenize_column_type` / `_column_types_match` / `_column_args_match` instantiated with the
synonym groups read from the live impl, and the oracle "a pair from two different families that
no synonym group joins must be reported as different" (C07.type_family_detected_groups)."""
from __future__ import annotations

import io
import re
import warnings

import sqlalchemy as sa
from sqlalchemy import types as T
from sqlalchemy.dialects import mssql as ms
from sqlalchemy.dialects import mysql as my
from sqlalchemy.dialects import oracle as ora
from sqlalchemy.dialects import postgresql as pg
from sqlalchemy.engine.default import DefaultDialect

from alembic.ddl.impl import DefaultImpl
from alembic.migration import MigrationContext

DIALECTS = ["default", "sqlite", "postgresql", "mysql", "mssql", "oracle"]


def _n(rng, hi=255):
    return rng.choice([1, 5, 10, 30, 64, hi, rng.randint(1, 4000)])


def meta_types(rng, dialect=None):
    """metadata-side (generic) types per family (+ the dialect's own string types with the keyword arguments
    `type_arg_extract` looks at: MySQL CHARACTER SET / COLLATE)"""
    p = rng.randint(1, 38)
    extra = []
    if dialect == "mysql":
        extra = [my.VARCHAR(_n(rng), charset="latin1"), my.VARCHAR(_n(rng), charset="utf8"), my.VARCHAR(_n(rng), collation="utf8_bin"),
                 my.TEXT(charset="utf8", collation="utf8_general_ci")]
    d = _meta_types(rng, p)
    d["string"] = d["string"] + extra
    return d


def _meta_types(rng, p):
    return {
        "string": [T.String(_n(rng)), T.Text(), T.Unicode(_n(rng)), T.VARCHAR(_n(rng)), T.CHAR(_n(rng, 8)), T.String()],
        "integer": [T.Integer(), T.BigInteger(), T.SmallInteger()],
        "floatnum": [T.Float(), T.Float(rng.choice([24, 53])), T.Numeric(p, rng.randint(0, p)), T.Numeric(), T.DECIMAL(p, rng.randint(0, p)), T.Double(), T.REAL()],
        "boolean": [T.Boolean()],
        "datetime": [T.DateTime(), T.Date(), T.Time(), T.DateTime(timezone=True), T.TIMESTAMP()],
        "binary": [T.LargeBinary(), T.LargeBinary(_n(rng))],
        "json": [T.JSON()],
    }


def insp_types(dialect, rng):
    """inspector-side types per family: the dialect's own reflected type classes"""
    p = rng.randint(1, 38)
    s = rng.randint(0, p)
    generic = {
        "string": [T.VARCHAR(_n(rng)), T.TEXT(), T.CHAR(_n(rng, 8)), T.NVARCHAR(_n(rng)), T.VARCHAR()],
        "integer": [T.INTEGER(), T.BIGINT(), T.SMALLINT()],
        "floatnum": [T.FLOAT(), T.NUMERIC(p, s), T.DECIMAL(p, s), T.REAL(), T.NUMERIC()],
        "boolean": [T.BOOLEAN()],
        "datetime": [T.DATETIME(), T.DATE(), T.TIME(), T.TIMESTAMP()],
        "binary": [T.BLOB()],
        "json": [T.JSON()],
    }
    if dialect == "postgresql":
        return {
            "string": [pg.VARCHAR(_n(rng)), pg.TEXT(), pg.CHAR(_n(rng, 8)), pg.VARCHAR()],
            "integer": [pg.INTEGER(), pg.BIGINT(), pg.SMALLINT()],
            "floatnum": [pg.DOUBLE_PRECISION(), pg.REAL(), pg.NUMERIC(p, s), pg.NUMERIC(), pg.FLOAT()],
            "boolean": [pg.BOOLEAN()],
            "datetime": [pg.TIMESTAMP(), pg.TIMESTAMP(timezone=True), pg.DATE(), pg.TIME()],
            "binary": [pg.BYTEA()],
            "json": [pg.JSON(), pg.JSONB()],
        }
    if dialect == "mysql":
        return {
            "string": [my.VARCHAR(_n(rng)), my.TEXT(), my.LONGTEXT(), my.CHAR(_n(rng, 8)), my.TINYTEXT(), my.VARCHAR(_n(rng), charset="utf8"),
                       my.VARCHAR(_n(rng), collation="utf8_general_ci"), my.TEXT(charset="latin1")],
            "integer": [my.INTEGER(), my.BIGINT(), my.SMALLINT(), my.TINYINT(), my.INTEGER(display_width=11), my.MEDIUMINT()],
            "floatnum": [my.FLOAT(), my.DOUBLE(), my.DECIMAL(p, s), my.NUMERIC(p, s), my.DECIMAL()],
            "boolean": [my.BOOLEAN()],
            "datetime": [my.DATETIME(), my.TIMESTAMP(), my.DATE(), my.TIME(), my.DATETIME(fsp=6)],
            "binary": [my.BLOB(), my.LONGBLOB(), my.VARBINARY(_n(rng))],
            "json": [my.JSON()],
        }
    if dialect == "mssql":
        return {
            "string": [ms.VARCHAR(_n(rng)), ms.NVARCHAR(_n(rng)), ms.TEXT(), ms.NTEXT(), ms.CHAR(_n(rng, 8)), ms.VARCHAR()],
            "integer": [ms.INTEGER(), ms.BIGINT(), ms.SMALLINT(), ms.TINYINT()],
            "floatnum": [ms.FLOAT(), ms.REAL(), ms.NUMERIC(p, s), ms.DECIMAL(p, s), ms.MONEY()],
            "boolean": [ms.BIT()],
            "datetime": [ms.DATETIME(), ms.DATETIME2(), ms.DATE(), ms.TIME(), ms.SMALLDATETIME()],
            "binary": [ms.VARBINARY(_n(rng)), ms.IMAGE()],
            "json": [],
        }
    if dialect == "oracle":
        return {
            "string": [ora.VARCHAR2(_n(rng)), ora.NVARCHAR2(_n(rng)), ora.CLOB(), ora.CHAR(_n(rng, 8)), ora.VARCHAR(_n(rng))],
            "integer": [T.INTEGER(), ora.NUMBER(), ora.NUMBER(p, 0)],
            "floatnum": [ora.FLOAT(), ora.BINARY_DOUBLE(), ora.BINARY_FLOAT(), ora.NUMBER(p, s), T.NUMERIC(p, s), ora.DOUBLE_PRECISION()],
            "boolean": [],
            "datetime": [ora.DATE(), ora.TIMESTAMP(), ora.TIMESTAMP(timezone=True)],
            "binary": [ora.BLOB(), ora.RAW(_n(rng))],
            "json": [],
        }
    return generic


def get_impl(dialect):
    if dialect == "default":
        return DefaultImpl(DefaultDialect(), None, True, None, io.StringIO(), {})
    return MigrationContext.configure(dialect_name=dialect, opts={"as_sql": True, "output_buffer": io.StringIO()}).impl


def params_json(p):
    return {"token0": p.token0, "tokens": list(p.tokens), "args": list(p.args), "kwargs": sorted([k, v] for k, v in p.kwargs.items())}


def run_dialects(ctx, rng, rounds=1):
    pending = []
    for dialect in DIALECTS:
        try:
            impl = get_impl(dialect)
        except Exception as e:  # pragma: no cover
            ctx.note("dialect %s not available: %r" % (dialect, e))
            continue
        syn = [sorted(g) for g in impl.type_synonyms]
        for _ in range(rounds):
            it, mt = insp_types(dialect, rng), meta_types(rng, dialect)
            for fi, itypes in it.items():
                for ity in itypes:
                    for fm, mtypes in mt.items():
                        for mty in mtypes:
                            try:
                                with warnings.catch_warnings():
                                    warnings.simplefilter("ignore")
                                    itxt = impl.dialect.type_compiler.process(ity).lower()
                                    mtxt = impl.dialect.type_compiler.process(mty).lower()
                                    icol, mcol = sa.Column("c", ity), sa.Column("c", mty)
                                    ip, mp = impl._tokenize_column_type(icol), impl._tokenize_column_type(mcol)
                                    real = bool(impl.compare_type(icol, mcol))
                            except Exception as e:
                                ctx.hist("dialect.skipped", "%s:%s" % (dialect, type(e).__name__))
                                continue
                            ext = []
                            for reg in impl.type_arg_extract:
                                a = re.search(reg, " ".join(ip.tokens).lower())
                                b = re.search(reg, " ".join(mp.tokens).lower())
                                ext.append([a.group(1) if a else None, b.group(1) if b else None])
                            pending.append((dialect, fi, fm, itxt, mtxt, syn, ext, ip, mp, real))
    ans = ctx.drv.ask([{"op": "diff.cmptype_g", "syn": p[5], "ext": p[6], "insp": p[3], "meta": p[4]} for p in pending])
    for (dialect, fi, fm, itxt, mtxt, syn, ext, ip, mp, real), m in zip(pending, ans):
        inp = {"dialect": dialect, "insp": itxt, "meta": mtxt, "families": [fi, fm], "synonyms": syn}
        ctx.evaluation()
        ctx.hist("dialect.pairs", dialect)
        impl_out = {"itok": params_json(ip), "mtok": params_json(mp), "cmp": real}
        if "err" in m:
            ctx.disagree("diff.cmptype_g", inp, impl_out, m)
            continue
        model_out = {"itok": {**m["itok"], "kwargs": sorted(m["itok"]["kwargs"])}, "mtok": {**m["mtok"], "kwargs": sorted(m["mtok"]["kwargs"])}, "cmp": m["cmp"]}
        if model_out != impl_out:
            ctx.disagree("diff.cmptype_g", inp, impl_out, model_out, "compare_type / tokenisation differs from the model with this dialect's synonym groups")
        else:
            ctx.trace_ok()
        if m.get("same") and real:
            ctx.fail(inp, "spurious-type-synonym: on dialect %s %s vs %s is reported as a type change although a synonym group (or the same type name) joins them and their arguments are compatible"
                     % (dialect, itxt, mtxt), impl=impl_out, tags=["dialect:" + dialect, "type-synonym"])
        cross = fi != fm
        if cross:
            ctx.hist("dialect.cross", "%s:%s" % (dialect, "must-differ" if m["must"] else "joined-by-group-or-same-token"))
        if cross and m["must"]:
            ctx.nontrivial((dialect, itxt, mtxt))
            if not real:
                ctx.fail(inp, "missed-type-family: on dialect %s a change from %s (%s) to %s (%s) is not reported by compare_type although no synonym group joins them"
                         % (dialect, itxt, fi, mtxt, fm), impl=impl_out, tags=["dialect:" + dialect, "type-family"])
