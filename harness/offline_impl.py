"""C12 implementation side: run the real alembic code online and offline (--sql) on SQLite.

* bodies are JSON op lists (create_table, drop_table, add_column, drop_column, create_index,
  drop_index, bulk_insert, execute); `run_ops` interprets them against `alembic.op` /
  an `Operations` object, `render_py` renders them as the Python source of a real revision file;
* `FakeRunner`  : revfake.make_sd (real RevisionMap/ScriptDirectory over fake revisions) +
                  real MigrationContext in the env.py shape, online on a SQLAlchemy SQLite
                  connection / offline (as_sql) into a buffer;
* `RealRunner`  : a real script directory made by `alembic.command.init` (shipped generic
                  env.py) + written revision files, driven by `alembic.command.upgrade/downgrade`
                  with `sql=True` and `a:b` ranges;
* `split_script`: the Python twin of Lean `Model.Offline.split` (terminator outside string
                  literals / quoted identifiers / line comments), and `split_sqlite`, the same
                  boundaries decided by `sqlite3.complete_statement`;
* `dump_db`     : whitespace-normalised sqlite_master + all table contents + alembic_version rows.
"""
from __future__ import annotations

import contextlib
import datetime
import decimal
import io
import os
import re
import shutil
import sqlite3

import sqlalchemy as sa

# --------------------------------------------------------------------------------------
# values and types (JSON <-> Python)

def val_py(v):
    k = v["k"]
    if k == "null":
        return None
    if k == "int":
        return int(v["v"])
    if k == "str":
        return v["v"]
    if k == "float":
        return float(v["v"])
    if k == "dec":
        return decimal.Decimal(v["v"])
    if k == "date":
        return datetime.date.fromisoformat(v["v"])
    if k == "datetime":
        return datetime.datetime.fromisoformat(v["v"])
    if k == "bool":
        return bool(v["v"])
    if k == "bytes":
        return bytes.fromhex(v["v"])
    if k == "time":
        return datetime.time.fromisoformat(v["v"])
    raise ValueError(k)


def type_py(t):
    """'Integer' | 'Text' | 'String(50)' | 'Float' | 'Numeric(10,3)' | 'Date' | 'DateTime' | 'Boolean'"""
    m = re.match(r"(\w+)(?:\((.*)\))?$", t)
    name, args = m.group(1), m.group(2)
    cls = getattr(sa, name)
    if args:
        return cls(*[int(a) for a in args.split(",")])
    return cls()


def type_src(t):
    m = re.match(r"(\w+)(?:\((.*)\))?$", t)
    return "sa.%s(%s)" % (m.group(1), m.group(2) or "")


def default_py(d):
    """server default: {"kind": "str", "v": ...} -> plain string (rendered as a quoted literal);
    {"kind": "text", "v": ...} -> sa.text(...) (number or parenthesised expression, rendered as is)"""
    return d["v"] if d["kind"] == "str" else sa.text(d["v"])


def col_py(c):
    kw = {}
    if c.get("default"):
        kw["server_default"] = default_py(c["default"])
    if c.get("pk"):
        kw["primary_key"] = True
    if "nullable" in c and not c.get("pk"):
        kw["nullable"] = bool(c["nullable"])
    if c.get("index"):
        kw["index"] = True  # create_table / add_column emit a separate CREATE INDEX
    if c.get("unique"):
        kw["unique"] = True
    args = [sa.ForeignKey(c["fk"])] if c.get("fk") else []
    return sa.Column(c["name"], type_py(c["type"]), *args, **kw)


def col_src(c):
    kw = ""
    if c.get("default"):
        d = c["default"]
        kw += ", server_default=%s" % (repr(d["v"]) if d["kind"] == "str" else "sa.text(%r)" % d["v"])
    if c.get("pk"):
        kw += ", primary_key=True"
    if "nullable" in c and not c.get("pk"):
        kw += ", nullable=%r" % bool(c["nullable"])
    if c.get("index"):
        kw += ", index=True"
    if c.get("unique"):
        kw += ", unique=True"
    fk = ", sa.ForeignKey(%r)" % c["fk"] if c.get("fk") else ""
    return "sa.Column(%r, %s%s%s)" % (c["name"], type_src(c["type"]), fk, kw)


def run_ops(op, ops):
    """interpret a JSON op list against `alembic.op` (module proxy) or an Operations object"""
    for o in ops:
        k = o["op"]
        if k == "create_table":
            extra = [sa.CheckConstraint(x["text"], name=x.get("name")) for x in o.get("checks", [])]
            op.create_table(o["name"], *([col_py(c) for c in o["cols"]] + extra))
        elif k == "drop_table":
            op.drop_table(o["name"])
        elif k == "rename_table":
            op.rename_table(o["name"], o["new"])
        elif k == "add_column":
            op.add_column(o["table"], col_py(o["col"]))
        elif k == "drop_column":
            op.drop_column(o["table"], o["col"])
        elif k == "create_index":
            cols = [sa.text(c["expr"]) if isinstance(c, dict) else c for c in o["cols"]]
            kw = {"sqlite_where": sa.text(o["where"])} if o.get("where") else {}
            op.create_index(o["name"], o["table"], cols, unique=bool(o.get("unique")), **kw)
        elif k == "drop_index":
            op.drop_index(o["name"], table_name=o["table"])
        elif k == "bulk_insert":
            if o.get("untyped"):
                # ad-hoc table whose columns carry no type (NullType): values go to the driver / the literal renderer as they are
                t = sa.table(o["table"], *[sa.column(c["name"]) for c in o["cols"]])
            elif o.get("keys"):
                # a real Table (own MetaData) some of whose columns have a Python-side key different from the column name
                # (explicit key=, or a declarative model's __table__); the rows are keyed by those keys
                t = sa.Table(o["table"], sa.MetaData(),
                             *[sa.Column(c["name"], type_py(c["type"]), key=o["keys"].get(c["name"], c["name"])) for c in o["cols"]])
            else:
                t = sa.table(o["table"], *[sa.column(c["name"], type_py(c["type"])) for c in o["cols"]])
            keys = o.get("keys") or {}
            rows = [{keys.get(n, n): val_py(v) for n, v in r.items()} for r in o["rows"]]
            if o.get("malformed") == "tuple":
                rows = tuple(rows)  # not a list: TypeError in both modes
            elif o.get("malformed") == "rowlist":
                rows = [list(r.values()) for r in rows]  # rows that are not dicts: TypeError in both modes
            op.bulk_insert(t, rows, multiinsert=bool(o.get("multiinsert", True)))
        elif k == "execute":
            stmt = sa.text(o["text"]) if o.get("as_text") else o["text"]
            if o.get("via") == "context":
                op.get_context().execute(stmt, execution_options=o.get("execution_options"))  # MigrationContext.execute
            else:
                op.execute(stmt, execution_options=o.get("execution_options"))
        elif k == "execute_expr":
            # op.execute() of a SQL expression construct whose values are bound parameters
            t = sa.table(o["table"], *[sa.column(c["name"], type_py(c["type"])) for c in o["cols"]])
            vals = {n: val_py(v) for n, v in o.get("values", {}).items()}
            if o["kind"] == "insert":
                op.execute(t.insert().values(**vals))
            elif o["kind"] == "update":
                op.execute(t.update().where(t.c.id == o["where_id"]).values(**vals))
            else:
                op.execute(t.delete().where(t.c.id == o["where_id"]))
        elif k == "autocommit":
            # the documented way to leave the migration's transaction for a few statements
            with op.get_context().autocommit_block():
                run_ops(op, o["ops"])
        else:
            raise ValueError(k)


def flat_ops(ops):
    """all leaf ops, autocommit blocks opened up (document order)"""
    for o in ops:
        if o["op"] == "autocommit":
            yield from flat_ops(o["ops"])
        else:
            yield o


def render_py(ops):
    """Python source lines (body of upgrade()/downgrade()) doing the same as run_ops"""
    out = []
    for o in ops:
        k = o["op"]
        if k == "create_table":
            extra = ["sa.CheckConstraint(%r, name=%r)" % (x["text"], x.get("name")) for x in o.get("checks", [])]
            out.append("op.create_table(%r, %s)" % (o["name"], ", ".join([col_src(c) for c in o["cols"]] + extra)))
        elif k == "drop_table":
            out.append("op.drop_table(%r)" % o["name"])
        elif k == "rename_table":
            out.append("op.rename_table(%r, %r)" % (o["name"], o["new"]))
        elif k == "add_column":
            out.append("op.add_column(%r, %s)" % (o["table"], col_src(o["col"])))
        elif k == "drop_column":
            out.append("op.drop_column(%r, %r)" % (o["table"], o["col"]))
        elif k == "create_index":
            cols = "[%s]" % ", ".join("sa.text(%r)" % c["expr"] if isinstance(c, dict) else repr(c) for c in o["cols"])
            kw = ", sqlite_where=sa.text(%r)" % o["where"] if o.get("where") else ""
            out.append("op.create_index(%r, %r, %s, unique=%r%s)" % (o["name"], o["table"], cols, bool(o.get("unique")), kw))
        elif k == "drop_index":
            out.append("op.drop_index(%r, table_name=%r)" % (o["name"], o["table"]))
        elif k == "bulk_insert":
            if o.get("untyped"):
                t = "sa.table(%r, %s)" % (o["table"], ", ".join("sa.column(%r)" % c["name"] for c in o["cols"]))
            elif o.get("keys"):
                t = "sa.Table(%r, sa.MetaData(), %s)" % (o["table"], ", ".join(
                    "sa.Column(%r, %s, key=%r)" % (c["name"], type_src(c["type"]), o["keys"].get(c["name"], c["name"])) for c in o["cols"]))
            else:
                t = "sa.table(%r, %s)" % (o["table"], ", ".join("sa.column(%r, %s)" % (c["name"], type_src(c["type"])) for c in o["cols"]))
            keys = o.get("keys") or {}
            rows = "[%s]" % ", ".join("{%s}" % ", ".join("%r: %r" % (keys.get(n, n), val_py(v)) for n, v in r.items()) for r in o["rows"])
            if o.get("malformed") == "tuple":
                rows = "tuple(%s)" % rows
            elif o.get("malformed") == "rowlist":
                rows = "[list(r.values()) for r in %s]" % rows
            out.append("op.bulk_insert(%s, %s, multiinsert=%r)" % (t, rows, bool(o.get("multiinsert", True))))
        elif k == "execute":
            stmt = ("sa.text(%r)" if o.get("as_text") else "%r") % o["text"]
            fn = "op.get_context().execute" if o.get("via") == "context" else "op.execute"
            out.append("%s(%s, execution_options=%r)" % (fn, stmt, o.get("execution_options")))
        elif k == "execute_expr":
            t = "sa.table(%r, %s)" % (o["table"], ", ".join("sa.column(%r, %s)" % (c["name"], type_src(c["type"])) for c in o["cols"]))
            vals = "{%s}" % ", ".join("%r: %r" % (n, val_py(v)) for n, v in o.get("values", {}).items())
            out.append("_t = %s" % t)
            if o["kind"] == "insert":
                out.append("op.execute(_t.insert().values(**%s))" % vals)
            elif o["kind"] == "update":
                out.append("op.execute(_t.update().where(_t.c.id == %r).values(**%s))" % (o["where_id"], vals))
            else:
                out.append("op.execute(_t.delete().where(_t.c.id == %r))" % o["where_id"])
        elif k == "autocommit":
            out.append("with op.get_context().autocommit_block():")
            out.extend("    " + l for l in render_py(o["ops"]))
        else:
            raise ValueError(k)
    return out or ["pass"]


# --------------------------------------------------------------------------------------
# splitting an offline script into statements

WS = " \t\n\r\x0b\x0c"


def split_script(text):
    """Twin of Lean Model.Offline.split: cut at ';' outside '...' / "..." / -- comments;
    line comments are dropped, whitespace before a statement is skipped; a blank tail is dropped."""
    out = []
    cur = []
    mode = "code"
    i = 0
    for c in text:
        if mode == "dash":
            if c == "-":
                mode = "comment"
                continue
            cur.append("-")
            mode = "code"
        if mode == "code":
            if c == ";":
                out.append("".join(cur))
                cur = []
            elif c == "'":
                cur.append(c)
                mode = "str"
            elif c == '"':
                cur.append(c)
                mode = "ident"
            elif c == "-":
                mode = "dash"
            elif not cur and c in WS:
                pass
            else:
                cur.append(c)
        elif mode == "str":
            cur.append(c)
            if c == "'":
                mode = "code"
        elif mode == "ident":
            cur.append(c)
            if c == '"':
                mode = "code"
        elif mode == "comment":
            if c == "\n":
                mode = "code"
    if mode == "dash":
        cur.append("-")
    if "".join(cur).strip(WS):
        out.append("".join(cur))
    return out


def split_sqlite(text):
    """statement texts as sqlite3.complete_statement sees them (raw, comments included)"""
    out = []
    start = 0
    pos = 0
    while True:
        j = text.find(";", pos)
        if j < 0:
            break
        if sqlite3.complete_statement(text[start : j + 1]):
            out.append(text[start:j])
            start = j + 1
        pos = j + 1
    if text[start:].strip(WS):
        out.append(text[start:])
    return out


def strip_comments_ws(stmt):
    """raw sqlite piece -> the form split_script gives (leading whitespace / -- comment lines removed)"""
    r = split_script(stmt + ";")
    return r[0] if r else ""


def exec_script(path, text):
    """execute an offline script statement by statement with the sqlite3 module; returns (n_ok, error|None)"""
    con = sqlite3.connect(path, isolation_level=None)
    n = 0
    try:
        for st in split_script(text):
            if not st.strip(WS):
                continue
            try:
                con.execute(st)
            except Exception as e:  # noqa
                return n, "%s: %s @ statement %d: %s" % (type(e).__name__, e, n, st[:200])
            n += 1
        return n, None
    finally:
        con.close()


# --------------------------------------------------------------------------------------
# database dump


def _cell(v):
    if v is None:
        return "n"
    if isinstance(v, bool):
        return "i:%d" % int(v)
    if isinstance(v, int):
        return "i:%d" % v
    if isinstance(v, float):
        return "f:%.15g" % v
    if isinstance(v, bytes):
        return "b:" + v.hex()
    return "s:" + v


def _normws(s):
    return re.sub(r"\s+", " ", s or "").strip()


def dump_db(path, vt="alembic_version"):
    """vt: name of the version table (env.py option version_table)"""
    con = sqlite3.connect(path)
    try:
        master = con.execute("SELECT type, name, tbl_name, sql FROM sqlite_master ORDER BY type, name").fetchall()
        schema = []
        tables = {}
        version = []
        has_vt = False
        for typ, name, tbl, sql in master:
            if name == vt or tbl == vt:
                has_vt = True
                continue
            schema.append([typ, name, tbl, _normws(sql)])
            if typ == "table":
                q = '"%s"' % name.replace('"', '""')
                info = [(r[1], r[2], r[3], r[5]) for r in con.execute("PRAGMA table_info(%s)" % q)]
                rows = con.execute("SELECT * FROM %s ORDER BY rowid" % q).fetchall()
                tables[name] = {"cols": [[c[0], _normws(c[1]), c[2], c[3]] for c in info], "rows": [[_cell(v) for v in r] for r in rows]}
        if has_vt:
            version = sorted(r[0] for r in con.execute('SELECT version_num FROM "%s"' % vt.replace('"', '""')))
        return {"schema": schema, "tables": tables, "version": version, "has_version_table": has_vt}
    finally:
        con.close()


def tabs4(x):
    if isinstance(x, str):
        return x.replace("\t", "    ")
    if isinstance(x, list):
        return [tabs4(y) for y in x]
    if isinstance(x, dict):
        return {tabs4(k): tabs4(v) for k, v in x.items()}
    return x


def diff_dump(a, b):
    """list of human readable differences (empty = same schema, data and version rows)"""
    out = []
    if a["version"] != b["version"]:
        out.append("version rows: online %r offline %r" % (a["version"], b["version"]))
    sa_, sb = {tuple(x[:3]): x[3] for x in a["schema"]}, {tuple(x[:3]): x[3] for x in b["schema"]}
    for k in sorted(set(sa_) | set(sb)):
        if sa_.get(k) != sb.get(k):
            out.append("schema %r: online %r offline %r" % (k, sa_.get(k), sb.get(k)))
    for t in sorted(set(a["tables"]) & set(b["tables"])):
        ta, tb = a["tables"][t], b["tables"][t]
        if ta["cols"] != tb["cols"]:
            out.append("columns of %r: online %r offline %r" % (t, ta["cols"], tb["cols"]))
        if ta["rows"] != tb["rows"]:
            k = next((i for i, (x, y) in enumerate(zip(ta["rows"], tb["rows"])) if x != y), min(len(ta["rows"]), len(tb["rows"])))
            out.append("rows of %r differ (online %d rows, offline %d rows) first at %d: online %r offline %r" % (
                t, len(ta["rows"]), len(tb["rows"]), k, ta["rows"][k : k + 1], tb["rows"][k : k + 1]))
    return out


# --------------------------------------------------------------------------------------
# runners


class VerSpy:
    """records the HeadMaintainer statements (insert/update/delete) of each step of a run"""

    def __init__(self):
        self.ops = []
        self.steps = []  # [{"log", "rev", "up", "ver": [...]}]

    def __enter__(self):
        from alembic.runtime.migration import HeadMaintainer as H

        self.H = H
        self.orig = (H._insert_version, H._delete_version, H._update_version, H.update_to_step)
        spy = self

        def upd_step(self_, step):
            rev = getattr(getattr(step, "revision", None), "revision", None)
            spy.steps.append({"log": step.short_log, "rev": rev, "up": bool(getattr(step, "is_upgrade", True)), "ver": []})
            n = len(spy.ops)
            try:
                return spy.orig[3](self_, step)
            finally:
                spy.steps[-1]["ver"] = spy.ops[n:]

        def ins(self_, version):
            spy.ops.append(["insert", version])
            return spy.orig[0](self_, version)

        def dele(self_, version):
            spy.ops.append(["delete", version])
            return spy.orig[1](self_, version)

        def upd(self_, from_, to_):
            spy.ops.append(["update", from_, to_])
            return spy.orig[2](self_, from_, to_)

        H._insert_version, H._delete_version, H._update_version, H.update_to_step = ins, dele, upd, upd_step
        return self

    def __exit__(self, *a):
        self.H._insert_version, self.H._delete_version, self.H._update_version, self.H.update_to_step = self.orig


DEFAULT_ENV = {
    "literal_binds": True,          # the shipped env.py sets it for --sql
    "per_migration": False,         # transaction_per_migration
    "transactional_ddl": None,      # override of the dialect's setting (SQLite: False)
    "version_table": "alembic_version",
    "version_table_pk": True,
    "version_table_schema": None,   # "main" is the only schema a plain SQLite file has
    "output_encoding": None,        # --sql output through EncodedIO
    "external_txn": False,          # env.py opens connection.begin() itself before configure()
    "callbacks": False,             # on_version_apply
    "base_prefix": False,           # range written base:<target> instead of <target>
    # real env.py only (EnvironmentContext.configure arguments / command arguments):
    "tag": None,                    # command.upgrade(..., tag=...)
    "buffer_in_env": False,         # env.py passes output_buffer= to context.configure() itself
    "start_in_env": False,          # upgrade --sql <target> with starting_rev= given by env.py instead of a start:end range
}


def full_env(env):
    e = dict(DEFAULT_ENV)
    e.update(env or {})
    return e


def env_opts(env):
    """context.configure() keyword arguments common to the online and the offline run"""
    o = {"transaction_per_migration": bool(env["per_migration"])}
    if env["transactional_ddl"] is not None:
        o["transactional_ddl"] = bool(env["transactional_ddl"])
    if env["version_table"] != "alembic_version":
        o["version_table"] = env["version_table"]
    if not env["version_table_pk"]:
        o["version_table_pk"] = False
    if env["version_table_schema"]:
        o["version_table_schema"] = env["version_table_schema"]
    return o


def make_callback(log):
    def cb(ctx, step, heads, run_args):
        log.append([bool(step.is_upgrade), bool(step.is_migration), list(step.source_revision_ids), list(step.destination_revision_ids),
                    step.up_revision.revision if step.up_revision is not None else None,
                    sorted(r.revision for r in step.down_revisions), [r.revision for r in step.source_revisions],
                    [r.revision for r in step.destination_revisions], sorted(heads)])

    return cb


class FakeRunner:
    """fake revisions in a real ScriptDirectory; real MigrationContext; env.py shape"""

    kind = "fake"

    def __init__(self, hist, bodies, env=None):
        from .revfake import make_sd

        self.holder = {}
        self.hist = hist
        self.env = full_env(env)
        self.cb_log = []
        fb = {}
        for r in hist:
            b = bodies.get(r["id"], {"up": [], "down": []})
            fb[r["id"]] = (self._mk(b["up"], "upgrade"), self._mk(b["down"], "downgrade"))
        self.sd = make_sd(hist, fb)

    def _mk(self, ops, name):
        def body(**kw):
            run_ops(self.holder["op"], ops)

        body.__name__ = name  # RevisionStep.short_log prints it
        return body

    def close(self):
        pass

    def _fn(self, cmd, target, steps):
        sd = self.sd

        def fn(heads, ctx):
            st = sd._upgrade_revs(target, heads) if cmd == "upgrade" else sd._downgrade_revs(target, heads)
            steps.extend(st)
            return st

        return fn

    def _run(self, ctx):
        from alembic.operations import Operations

        self.holder["op"] = Operations(ctx)
        with Operations.context(ctx):
            with ctx.begin_transaction():
                ctx.run_migrations()

    def online(self, dbpath, cmd, target):
        from alembic.runtime.migration import MigrationContext

        steps = []
        eng = sa.create_engine("sqlite:///" + dbpath, poolclass=sa.pool.NullPool)
        opts = {"fn": self._fn(cmd, target, steps), "script": self.sd, **env_opts(self.env)}
        if self.env["callbacks"]:
            opts["on_version_apply"] = (make_callback(self.cb_log),)
        try:
            with eng.connect() as conn:
                if self.env["external_txn"]:
                    # env.py variant: the caller owns the transaction (alembic must neither begin nor commit)
                    with conn.begin():
                        self._run(MigrationContext.configure(connection=conn, opts=opts))
                else:
                    self._run(MigrationContext.configure(connection=conn, opts=opts))
        finally:
            eng.dispose()
        return steps

    def offline(self, cmd, start, target):
        """start: list of revision ids ([] = base)"""
        from alembic.runtime.migration import MigrationContext

        steps = []
        enc = self.env["output_encoding"]
        buf = io.BytesIO() if enc else io.StringIO()
        opts = {
            "as_sql": True,
            "output_buffer": buf,
            "fn": self._fn(cmd, target, steps),
            "script": self.sd,
            "literal_binds": bool(self.env["literal_binds"]),
            **env_opts(self.env),
        }
        if enc:
            opts["output_encoding"] = enc
        if self.env["callbacks"]:
            opts["on_version_apply"] = (make_callback(self.cb_log),)
        if start:
            opts["starting_rev"] = tuple(start) if len(start) > 1 else start[0]
        elif self.env["base_prefix"]:
            opts["starting_rev"] = "base"
        ctx = MigrationContext.configure(dialect_name="sqlite", opts=opts)
        self._run(ctx)
        if enc:
            ctx.output_buffer.flush()
            return buf.getvalue().decode(enc), steps
        return buf.getvalue(), steps


REV_TEMPLATE = '''"""%(msg)s

Revision ID: %(rev)s
Revises: %(down)s
"""
import datetime
from decimal import Decimal
from alembic import op
import sqlalchemy as sa

revision = %(rev)r
down_revision = %(down)r
branch_labels = %(labels)r
depends_on = %(deps)r


def upgrade():
%(up)s


def downgrade():
%(downb)s
'''


class RealRunner:
    """real files: alembic.command.init (shipped generic env.py) + revision files; alembic.command.*"""

    kind = "real"

    def __init__(self, hist, bodies, tmp, env=None):
        from alembic import command
        from alembic.config import Config

        self.env = full_env(env)
        self.cb_log = []
        self.tmp = tmp
        self.ini = os.path.join(tmp, "alembic.ini")
        self.dir = os.path.join(tmp, "scripts")
        cfg = Config(self.ini, stdout=io.StringIO())
        cfg.set_main_option("script_location", self.dir)
        with contextlib.redirect_stdout(io.StringIO()):
            command.init(cfg, self.dir)
        # quieten the logging configuration of the generated ini (fileConfig runs in env.py)
        txt = open(self.ini).read()
        txt = re.sub(r"level = (WARNING|WARN|INFO|DEBUG)\b", "level = ERROR", txt)
        open(self.ini, "w").write(txt)
        from .revfake import tup

        if self.env != DEFAULT_ENV:
            # the shipped env.py with the extra context.configure() arguments of this env variant
            path = os.path.join(self.dir, "env.py")
            src = open(path).read()
            a = "connection=connection, target_metadata=target_metadata\n"
            b = "        literal_binds=True,\n"
            assert src.count(a) == 1 and src.count(b) == 1, "shipped env.py changed shape"
            src = src.replace(a, "connection=connection, target_metadata=target_metadata,\n            **config.attributes.get('c12_online', {})\n")
            src = src.replace(b, "        literal_binds=config.attributes.get('c12_literal_binds', True),\n        **config.attributes.get('c12_offline', {}),\n")
            open(path, "w").write(src)
        for r in hist:
            b = bodies.get(r["id"], {"up": [], "down": []})
            src = REV_TEMPLATE % {
                "msg": "rev " + r["id"],
                "rev": r["id"],
                "down": tup(r.get("down")),
                "labels": tup(r.get("labels")),
                "deps": tup(r.get("deps")),
                "up": "\n".join("    " + l for l in render_py(b["up"])),
                "downb": "\n".join("    " + l for l in render_py(b["down"])),
            }
            with open(os.path.join(self.dir, "versions", "%s_.py" % r["id"]), "w", encoding="utf-8") as f:
                f.write(src)

    def close(self):
        import logging

        # env.py's fileConfig() reconfigures the root logger: put it back
        logging.getLogger().handlers[:] = []
        logging.getLogger("alembic").setLevel(logging.WARN)

    def _cfg(self, dbpath, buf=None, starting_rev=None):
        from alembic.config import Config

        in_env = buf is not None and self.env["buffer_in_env"]
        cfg = Config(self.ini, stdout=io.StringIO(), output_buffer=buf) if buf is not None and not in_env else Config(self.ini, stdout=io.StringIO())
        cfg.set_main_option("script_location", self.dir)
        cfg.set_main_option("sqlalchemy.url", "sqlite:///" + dbpath)
        common = env_opts(self.env)
        if self.env["callbacks"]:
            common["on_version_apply"] = make_callback(self.cb_log)
        cfg.attributes["c12_online"] = dict(common)
        off = dict(common)
        if self.env["output_encoding"]:
            off["output_encoding"] = self.env["output_encoding"]
        if in_env:
            off["output_buffer"] = buf
        if starting_rev is not None:
            off["starting_rev"] = starting_rev
        cfg.attributes["c12_offline"] = off
        cfg.attributes["c12_literal_binds"] = bool(self.env["literal_binds"])
        return cfg

    def online(self, dbpath, cmd, target):
        from alembic import command

        getattr(command, cmd)(self._cfg(dbpath), target, tag=self.env["tag"])
        return None

    def offline(self, cmd, start, target):
        from alembic import command

        enc = self.env["output_encoding"]
        buf = io.BytesIO() if enc else io.StringIO()
        in_env = bool(start) and cmd == "upgrade" and self.env["start_in_env"]
        cfg = self._cfg(os.path.join(self.tmp, "unused.db"), buf, start[0] if in_env else None)
        rng = "%s:%s" % (start[0], target) if start and not in_env else target
        if not start and (cmd == "downgrade" or self.env["base_prefix"]):
            rng = "base:%s" % target
        getattr(command, cmd)(cfg, rng, sql=True, tag=self.env["tag"])
        return (buf.getvalue().decode(enc) if enc else buf.getvalue()), None


def run_case(runner, tmp, cmd, start, target, start_spelled=None):
    """start: the heads the database is at (full ids); start_spelled: how the --sql range names them (labels, prefixes, ...)"""
    vt = runner.env["version_table"]
    """db0 := online upgrade to each `start` head; A := online cmd; B := offline script executed
    with sqlite3.  Returns dict with dumps, script, errors."""
    a = os.path.join(tmp, "a.db")
    b = os.path.join(tmp, "b.db")
    for p in (a, b):
        if os.path.exists(p):
            os.remove(p)
    res = {"setup_error": None, "online_error": None, "offline_error": None, "exec_error": None,
           "output_encoding": runner.env["output_encoding"]}
    res["setup_steps"] = []
    try:
        for h in start:
            with VerSpy() as spy:
                runner.online(a, "upgrade", h)
            res["setup_steps"].append(spy.steps)
    except Exception as e:  # generator produced an inapplicable setup: not this property's business
        res["setup_error"] = "%s: %s" % (type(e).__name__, e)
        return res
    if os.path.exists(a):
        shutil.copyfile(a, b)
    res["db0"] = dump_db(a, vt) if os.path.exists(a) else None
    del runner.cb_log[:]
    with VerSpy() as spy:
        try:
            runner.online(a, cmd, target)
        except Exception as e:
            res["online_error"] = "%s: %s" % (type(e).__name__, str(e)[:300])
    res["ver_online"] = spy.ops
    res["steps_online"] = spy.steps
    res["cb_online"] = list(runner.cb_log)
    del runner.cb_log[:]
    with VerSpy() as spy:
        try:
            script, steps = runner.offline(cmd, list(start_spelled or start), target)
            res["script"] = script
            res["steps"] = [s.short_log for s in steps] if steps is not None else None
        except Exception as e:
            res["offline_error"] = "%s: %s" % (type(e).__name__, str(e)[:300])
    res["ver_offline"] = spy.ops
    res["steps_offline"] = spy.steps
    res["cb_offline"] = list(runner.cb_log)
    if res["offline_error"]:
        return res
    # (when the online run raised, the script is still executed: "both fail" is not a difference)
    n, err = exec_script(b, res["script"])
    res["n_statements"] = n
    res["exec_error"] = err
    if res["online_error"]:
        return res
    res["A"] = dump_db(a, vt)
    res["B"] = dump_db(b, vt)
    return res
